#!/bin/bash
# usage: ./check.sh <property id> quick|thorough            run a check
#        ./check.sh <property id> replay <replay file>      re-run a recorded witness
#        ./check.sh build                                   build both driver binaries (setup)
# Always rebuilds the driver from /repo's current working tree (Go's build cache keeps that cheap).
set -u
cd "$(dirname "$0")"
ROOT="$(pwd)"
export VERIF_ROOT="$ROOT"
export GOFLAGS=-mod=mod GOPROXY=off GOSUMDB=off GOTOOLCHAIN=local
mkdir -p bin evidence replay

# properties whose workload also runs under the race detector
RACE_PROPS=" C03 C04 C05 C06 C08 C12 C18 C20 "

build() { # $1 = output name, rest = extra go build flags
  local out="$1"; shift
  local tmp="bin/.$out.$$"
  # The multibackend tag reaches into go-perun's backend registries by name (see
  # harness/internal/gen/multibackend.go); if that ever stops linking, build without it.
  if ! (cd harness && go build -tags multibackend "$@" -o "../$tmp" ./cmd/vcheck) >"bin/.build.$out.$$.log" 2>&1 &&
     ! (cd harness && go build "$@" -o "../$tmp" ./cmd/vcheck) >"bin/.build.$out.$$.log" 2>&1; then
    echo "BUILD-ERROR ($out): the harness does not compile against /repo's working tree" >&2
    cat "bin/.build.$out.$$.log" >&2
    rm -f "bin/.build.$out.$$.log" "$tmp"
    return 1
  fi
  rm -f "bin/.build.$out.$$.log"
  mv -f "$tmp" "bin/$out"
}

# the plain driver is a static pure-Go binary (no libc threads: child processes run under an
# address-space limit); the race detector needs cgo
export CGO_ENABLED=0
if [ "${1:-}" = "build" ]; then
  build vcheck || exit 2
  CGO_ENABLED=1 build vcheck-race -race || exit 2
  exit 0
fi

ID="${1:?property id}"
MODE="${2:-quick}"
build vcheck || exit 2
ALT=""
case "$RACE_PROPS" in *" $ID "*) CGO_ENABLED=1 build vcheck-race -race || exit 2; ALT="$ROOT/bin/vcheck-race";; esac

case "$MODE" in
  quick|thorough)
    exec "$ROOT/bin/vcheck" -prop "$ID" -tier "$MODE" ${ALT:+-alt "$ALT"} ;;
  replay)
    exec "$ROOT/bin/vcheck" -prop "$ID" -replay "${3:?replay file}" ${ALT:+-alt "$ALT"} ;;
  *) echo "unknown mode $MODE" >&2; exit 2 ;;
esac
