#!/bin/bash
# Runs checks against one seeded change without touching /repo or /verif's evidence:
#   tools/seeded.sh <prop>/<mutant> "<check ids>" [tier] [seed]
# A scratch worktree of /repo gets the patch, a scratch copy of the harness is pointed at it
# (go.mod replace), its check.sh is run, and both are removed afterwards.
# Results: /verif/seeded/<prop>/<mutant>/result.<check>.<tier>.txt (summary + verdict lines).
set -u
M="${1:?prop/mutant}"; CHECKS="${2:?checks}"; TIER="${3:-quick}"; SEED="${4:-1}"
SRC="/verif/seeded/$M"
[ -f "$SRC/patch.diff" ] || { echo "no $SRC/patch.diff" >&2; exit 2; }
TAG="$(echo "$M" | tr '/' '-')-$$"
WT="/tmp/seedrun/wt-$TAG"; VR="/tmp/seedrun/v-$TAG"
mkdir -p /tmp/seedrun
cleanup() { git -C /repo worktree remove --force "$WT" >/dev/null 2>&1; rm -rf "$VR" "$WT"; git -C /repo worktree prune; }
trap cleanup EXIT
git -C /repo worktree add --detach "$WT" HEAD >/dev/null 2>&1 || exit 2
git -C "$WT" apply "$SRC/patch.diff" || { echo "patch does not apply" >&2; exit 2; }
mkdir -p "$VR"
# source of the harness: $SEEDED_SRC, else a frozen copy if one was prepared, else /verif itself
SRC_DIR="${SEEDED_SRC:-}"; [ -n "$SRC_DIR" ] || { [ -d /tmp/seedrun/frozen-default ] && SRC_DIR=/tmp/seedrun/frozen-default || SRC_DIR=/verif; }
rsync -a --exclude bin --exclude evidence --exclude replay --exclude seeded --exclude .git "$SRC_DIR/" "$VR/"
sed -i "s#=> /repo#=> $WT#" "$VR/harness/go.mod"
grep -q "$WT" "$VR/harness/go.mod" || { echo "replace not rewritten" >&2; exit 2; }
export GOFLAGS=-mod=mod GOPROXY=off GOSUMDB=off GOTOOLCHAIN=local
rc_all=0
for C in $CHECKS; do
  OUT="$SRC/result.$C.$TIER.txt"
  start=$(date +%s)
  (cd "$VR" && VERIF_SEED="$SEED" ./check.sh "$C" "$TIER") >"$VR/out.$C.txt" 2>&1
  rc=$?
  end=$(date +%s)
  { echo "check=$C tier=$TIER seed=$SEED exit=$rc wall=$((end-start))s"; grep -aE "^(VIOLATION|KNOWN-FINDING|SUMMARY|BUILD-ERROR)" "$VR/out.$C.txt" | cut -c1-400 | sort | uniq -c | sort -rn | head -12; } >"$OUT"
  # keep the first witness for the record
  w=$(grep -a -m1 -oE "replay=[^ ]+" "$VR/out.$C.txt" | cut -d= -f2)
  [ -n "${w:-}" ] && [ -f "$w" ] && head -c 4000 "$w" >"$SRC/witness.$C.$TIER.json"
  echo "== $M $C $TIER: exit=$rc"; sed -n 2,6p "$OUT"
  [ $rc -ne 0 ] && rc_all=1
done
exit $rc_all
