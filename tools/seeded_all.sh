#!/bin/bash
# Re-runs, against every confirmed seeded change, the checks that have a recorded result (quick tier, seed 1),
# two changes at a time. Usage: tools/seeded_all.sh [filter-regex]
cd /verif
FILTER="${1:-.}"
# freeze the harness so that editing /verif meanwhile cannot break the runs
export SEEDED_SRC=/tmp/seedrun/frozen-$$
rm -rf "$SEEDED_SRC"; mkdir -p "$SEEDED_SRC"
rsync -a --exclude bin --exclude evidence --exclude replay --exclude seeded --exclude .git /verif/ "$SEEDED_SRC/"
trap 'rm -rf "$SEEDED_SRC"' EXIT
LIST=$(for d in seeded/*/*/; do m=${d#seeded/}; m=${m%/}; [ -f "$d/patch.diff" ] || continue; echo "$m" | grep -qE "$FILTER" || continue;
  own="${m%%/*}"; [ "$own" = hand ] && own=""
  # the property's own check plus every other check that caught the change last time
  cs=$(for f in $d/result.*.quick.txt; do [ -f "$f" ] || continue; c=$(echo "$f" | sed -E 's/.*result\.(C[0-9]+)\.quick\.txt/\1/'); if [ "$c" = "$own" ] || head -1 "$f" | grep -q "exit=1"; then echo "$c"; fi; done | tr '\n' ' ')
  [ -n "$cs" ] || cs="$own"; echo "$m|$cs"; done)
echo "$LIST" | xargs -P ${SEEDED_PAR:-3} -I{} bash -c 'x="{}"; m="${x%%|*}"; cs="${x#*|}"; tools/seeded.sh "$m" "$cs" quick 1 >/dev/null 2>&1; echo "done $m: $(for c in $cs; do head -1 seeded/$m/result.$c.quick.txt | cut -d" " -f1,4,5; done | tr "\n" " ")"'
python3 tools/seeded_results.py
