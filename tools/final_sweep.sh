#!/bin/bash
# Runs every check's quick command from /verif itself (default seed), then validates manifest and evidence.
cd /verif
./check.sh build || exit 2
rc=0
for c in C01 C02 C03 C04 C05 C06 C07 C08 C09 C10 C11 C12 C13 C14 C15 C16 C17 C18 C19 C20; do
  out=$(./check.sh $c quick 2>&1); code=$?
  echo "$out" | grep -aE "^(SUMMARY|VIOLATION|KNOWN-FINDING|BUILD-ERROR)" | cut -c1-220
  echo "   -> $c exit=$code"
  [ $code -ne 0 ] && rc=1
done
python3 tools/mkmanifest.py >/dev/null && python3-vt tools/validate.py | tail -1
exit $rc
