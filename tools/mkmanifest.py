#!/usr/bin/env python3
"""Writes /verif/MANIFEST.json from the table below (one place to keep it valid)."""
import json, os, sys
ROOT = os.path.dirname(os.path.dirname(os.path.abspath(__file__)))

# id -> (level category, technique, level text, level note, DESIGN section)
CHECKS = {
 "C14": ("exploration", "runtime monitoring: generated values through the real codecs, oracle = structural comparison + byte comparison of re-encodings",
         "Every wire type (16 value codecs, all 17 message types natively and through both envelope serializers) is round-tripped on generated values; the monitor compares the decoded value structurally (reflect-based canonical form), with the type's own Equal, checks that exactly the written bytes were consumed inside a longer stream, that re-encoding is byte-stable and that the native encoding of the protobuf round-tripped envelope equals the original's. Held on the values generated, not a proof over all values.",
         "Trusted: the canonical-form walker of the harness; generators cover shapes up to the documented limits but only backend 0 exists. Explicit >64KiB protobuf frame errors are abstentions.",
         "DESIGN.md §5 C14"),
}
PENDING = {}  # id -> reason, for properties without a check

def main():
    props = [json.loads(l)["id"] for l in open(os.path.join(ROOT, "properties.jsonl"))]
    checks = []
    for pid in props:
        if pid not in CHECKS:
            continue
        cat, tech, text, note, ref = CHECKS[pid]
        checks.append({
            "property_id": pid,
            "quick_cmd": f"./check.sh {pid} quick",
            "thorough_cmd": f"./check.sh {pid} thorough",
            "evidence_file": f"/verif/evidence/{pid}.json",
            "replay_cmd_template": f"./check.sh {pid} replay {{path}}",
            "engine": "vcheck",
            "level_claimed": {"category": cat, "text": text, "design_ref": ref},
            "level_note": note,
            "technique": tech,
        })
    na = [{"property_id": p, "reason": PENDING.get(p, "check not built yet in this round (see DESIGN.md §9 order of work); nothing is claimed for it")}
          for p in props if p not in CHECKS]
    hooks_commits = []
    hc = os.path.join(ROOT, "hook_commits.txt")
    if os.path.exists(hc):
        hooks_commits = [l.split()[0] for l in open(hc) if l.strip() and not l.startswith("#")]
    m = {
        "version": 1,
        "setup_cmd": "./check.sh build",
        "hooks": {
            "guard": "verif",
            "enable": "go build -tags verif (no hook commits so far: the harness observes through go-perun's injectable interfaces only)",
            "baseline_off_cmd": "cd /repo && GOFLAGS=-mod=mod GOPROXY=off GOSUMDB=off GOTOOLCHAIN=local go test -vet=off -count=1 -timeout 25m ./...",
            "source_commits": hooks_commits,
            "add_only": True,
        },
        "engines": [{"name": "vcheck", "path": "/verif/harness/cmd/vcheck", "serves_properties": [c["property_id"] for c in checks],
                     "kind_free_text": "Go driver that runs the real go-perun code under generated/hostile/stress workloads with monitors (plain and -race builds)"}],
        "checks": checks,
        "not_applicable": na,
        "notes": "Runtime monitoring and sanitizers only. known_findings.json lists genuine defects (fixed ones with their fix: commit). See DESIGN.md.",
    }
    json.dump(m, open(os.path.join(ROOT, "MANIFEST.json"), "w"), indent=1)
    print("claimed:", [c["property_id"] for c in checks])

main()
