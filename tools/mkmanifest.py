#!/usr/bin/env python3
"""Writes /verif/MANIFEST.json from the table below (one place to keep it valid)."""
import json, os, sys
ROOT = os.path.dirname(os.path.dirname(os.path.abspath(__file__)))

# id -> (level category, technique, level text, level note, DESIGN section)
CHECKS = {
 "C01": ("exploration", "runtime monitoring: state-machine explorer (BFS over abstract states + random walks) with a signature re-verification monitor after every call",
         "The real channel.StateMachine is driven through every operation of the complete alphabet (incl. wrong/foreign/replayed/short/empty/nil signatures at every index, forced updates, all phase setters) from every abstract state reachable within the depth bound, plus random walks of length 30; after every call (successful or not) the monitor re-verifies every signature of the current and the staging transaction with channel.Verify and requires it to survive the transaction wire format (EncodeSparseSigs/DecodeSparseSigs). Worlds live on one to three wallet backends (harness-registered ids 1 and 2 besides sim's 0); in split-key worlds a participant's keys differ between its backends and every AddSig for it must fail atomically. A reused-state-object scenario (Update, AddSig, DiscardUpdate, the same *State changed in place, Update, replay of the old signature) is judged on an independent copy of the state. Held on the sequences executed.",
         "Trusted: channel.Verify/Sign of the sim backend (their binding to one state is C15's subject); explorer branching uses channel.RestoreStateMachine on harness-made snapshots; bounded depth.",
         "DESIGN.md §5 C01"),
 "C02": ("exploration", "runtime monitoring: differential test of Update/CheckUpdate/Init against an independent reference predicate over single-condition mutants",
         "For generated (parameters, reachable current state) pairs every single-condition violation of the successor rules and valid successors are offered to the real machine; nil/error results are compared with a reference predicate written from the property statement; refused candidates must not be staged and nothing may panic. Candidates are also offered after SetRegistering/SetRegistered/SetWithdrawing and on machines restored with phase Acting (the rules concern the current state, not the phase). Totals are also changed by exactly 2^64 with every entry still fitting a machine word.",
         "Trusted: the reference predicate (harness/internal/refmodel/successor.go); abstains where the statement is silent (backend list, version overflow).",
         "DESIGN.md §5 C02"),
 "C09": ("exploration", "runtime monitoring: state-machine explorer with a reference phase automaton compared step by step",
         "Same explorer as C01; every call's outcome, target phase, staged and current transaction and returned signature are compared with a reference automaton built from the method documentation; erroring calls must leave phase/staging/current untouched (deep snapshots incl. in-place mutation detection). Random walks continue on Clone() of the machine now and then, and ActionMachine (AddAction/Init/Update with an action app that refuses marked actions) is walked against a reference model of its own. The evidence lists the phase x operation matrix with hit counts, fresh and after failures.",
         "Trusted: the automaton table (DESIGN.md appendix D). Bounded depth / suffix length; signature indices below N as the property states.",
         "DESIGN.md §5 C09, appendix D"),
 "C13": ("exploration", "runtime monitoring: decoders run in address-space-limited child processes under a panic/fatal-error monitor and a limit oracle over mutated and constructed inputs",
         "67 decoders are fed random bytes, every truncation / bit flip / interesting-value splice of valid encodings, structural protobuf mutations and constructive over-limit encodings; a recovered panic, a dead child (attributed through a last-case file) or an accepted over-limit value is a violation; every 2048 calls a canary takes the app registry's write lock (a decoder that returned must not leave it locked).",
         "Trusted: recover() and the parent's attribution of child deaths; inputs are generated, not exhaustive; wallet backends 0 (sim) and, when the harness build with extra backends succeeded, 1 and 2 are registered. Large-but-legal allocations are not violations.",
         "DESIGN.md §5 C13"),
 "C14": ("exploration", "runtime monitoring: generated values through the real codecs, oracle = structural comparison + byte comparison of re-encodings",
         "Every wire type (16 value codecs, all 17 message types natively and through both envelope serializers) is round-tripped on generated values; the monitor compares the decoded value structurally (reflect-based canonical form), with the type's own Equal, checks that exactly the written bytes were consumed inside a longer stream, that re-encoding is byte-stable and that the native encoding of the protobuf round-tripped envelope equals the original's. Held on the values generated, not a proof over all values.",
         "Trusted: the canonical-form walker of the harness; generators cover shapes up to the documented limits on wallet backends 0 (sim) and the harness-registered 1 and 2. Explicit >64KiB protobuf frame errors are abstentions.",
         "DESIGN.md §5 C14"),
 "C15": ("exploration", "runtime monitoring: Equal vs. byte equality of encodings over single-field mutants; Verify over (signer, verifier, state pair) triples",
         "For generated base states every single-field mutator (26, incl. each nested locked/index-map field and each dimension), clones, double mutations and unrelated states are compared: Equal of State/Allocation/Balances/SubAlloc/SubAllocs must agree with byte equality of the encodings, and a signature must verify exactly for the signer's key and an equal state.",
         "Trusted: the encoders (their faithfulness is C14's subject). Values that cannot be encoded are skipped.",
         "DESIGN.md §5 C15"),
 "C16": ("exploration", "runtime monitoring: envelope streams decoded through a chunking io.Reader under many partitions, compared with the contiguous decode",
         "Streams of 1-5 envelopes per serializer are read through a reader that delivers the bytes in chunks (whole, 1-byte, every two-chunk split point, MSS-sized, random), a third of them through wire/net's ioConn.Recv; every envelope must decode to the same envelope as from the contiguous buffer. Envelopes beyond the protobuf frame limit must be refused without touching the stream, a written frame must be readable back, and histories of 1-2 MiB run over one ioConn.",
         "Trusted: the chunking reader models an open connection as the statement specifies (no (0,nil), EOF only after the last byte). Split points are sampled for streams above 6000 bytes.",
         "DESIGN.md §5 C16"),
 "C17": ("exploration", "runtime monitoring: ID comparison across clones, round trips and single-field variants of generated parameter sets; constructor/decoder fed constraint violations",
         "For generated parameter sets the ID must survive clone, reconstruction, native and protobuf round trips, change under each of 15 single-field variants (incl. a participant moved to, or present on, another wallet backend), differ for nonces shifted by whole bytes, be stamped on machine-created states, and NewParams/Params.Decode must refuse 12 kinds of constraint violations with an error.",
         "Trusted: nothing beyond the generators; Aux is deliberately not asserted.",
         "DESIGN.md §5 C17"),
 "C19": ("exploration", "runtime monitoring: reflect/unsafe pointer-graph comparison and leaf scribbling on generated values and machines reached by random walks",
         "For every cloneable type the clone must render equal, share no memory region with the original outside the documented shared set, and scribbling over every leaf of either side (and further machine operations on either machine) must not change the other side. Values include emptied Locked slices that still own their array and FromSource applied to snapshots.",
         "Trusted: the pointer-graph walker (harness/internal/ptrgraph); the shared set is taken from the statement (App, Asset, accounts, logger).",
         "DESIGN.md §5 C19"),
 "C05": ("exploration", "runtime monitoring: the real watcher driven by a scripted RegisterSubscriber through exhaustive short and random long histories, compared step by step with a reference model; concurrent publisher/event histories judged by an interval oracle on a shared logical counter, also under the race detector",
         "Every operation (publish, adjudicator events with versions below/equal/above the published one, start/stop of sub-channels, refused and repeated stops) is followed by a barrier that makes its effects complete without sleeping; the Register calls received (parent version, per locked sub-channel the state version), the events on every EventStream and the results are compared exactly with the reference model of appendix B. In concurrent mode publishers of the parent and a sub-channel race with registered events (also the same registration on both channels at once): every Register call must carry versions between the newest one certainly consumed before the event and the newest one published before the call, must happen when a newer version had certainly been consumed, at most once, never without a newer version; relaying is exact; a data race inside watcher/local is a violation. A de-registration racing with an event must return and leave the oracle intact, and a client that reads its event stream late (11-20 events piled up) must still receive all of them in order.",
         "Trusted: the reference model; single ledger and the statement's domain (locked sub-channels are watched or archived). The scripted Register succeeds unless the history says it is refused (then the bookkeeping must not move; relaying that event is optional). The interval oracle's lower bound assumes a FIFO publish pipe whose capacity is read by reflection.",
         "DESIGN.md §5 C05, appendix B"),
 "C10": ("fault_enumeration", "runtime monitoring with fault injection: store frozen at every atomic write boundary of generated histories (memory: snapshot per boundary; LevelDB: re-run with later writes dropped, close, re-open), restored channel compared with live snapshots",
         "For every history of the persisting state machine and every write boundary, RestoreChannel and RestorePeer must yield exactly the live machine's state before or after the interrupted operation (after, once its last write is in), and every restored staging signature must verify for the restored staged state; the machine rebuilt from each matching restored channel with channel.RestoreStateMachine must show the same index, parameters, phase, current and staged transaction; untouched sibling channels in the same store must come back unchanged at every boundary. Peers have one or several (also non-zero) backend ids, channels up to 101 participants and duplicate peer entries.",
         "Trusted: a batch is atomic (LevelDB's guarantee); crash points are write boundaries of the sortedkv interface, not torn writes inside LevelDB. Histories are generated, boundaries within them enumerated exhaustively (memory) or sampled (LevelDB, quick tier).",
         "DESIGN.md §5 C10"),
 "C11": ("fault_enumeration", "runtime monitoring: every restorer view compared with a reference map after every step of generated create/advance/remove histories, plus differential key-set replay",
         "After every step RestorePeer (every peer), ActivePeers, RestoreAll and RestoreChannel (every channel ever created) must agree with the reference set of live channels and their snapshots, and after removals the raw key set must equal that of the history replayed without the removed channels; memory and LevelDB stores.",
         "Trusted: the reference bookkeeping of the harness; histories are generated (every removal point within them is checked).",
         "DESIGN.md §5 C11"),
 "C18": ("exploration", "runtime monitoring: recorded relay histories checked against an exact sequential model, for linearizability (porcupine, nondeterministic model) and by exactly-once/conservation invariants under stress with the race detector",
         "Recording consumers with unique envelope ids observe every hand-over at the relay's boundary; single-threaded histories must match the reference model step by step, short concurrent histories must be linearizable, long multi-producer histories must satisfy no-wrong-recipient / at-most-once / conservation / interval bounds at quiescence, the library's wire.Receiver read with short-lived contexts under concurrent puts must return every envelope exactly once, an unread full wire.Receiver that is closed while a relay Put waits in it must release that Put so that the consumer behind it still gets every envelope exactly once, and the race detector must stay silent in relay, cache and receiver code.",
         "Trusted: the relay reference model (appendix A); quiescence by goroutine count in single-history child processes; porcupine v1.3.0. Reach is limited to the interleavings the scheduler and injected yields produced.",
         "DESIGN.md §5 C18, appendix A"),
 "C20": ("fault_enumeration", "runtime monitoring with fault injection: scripted per-ledger adjudicators/funders whose failures and completion order the harness controls, call logs on a logical clock",
         "For generated asset lists every subset of registered ledgers, every failing subset and every completion order (<= 4 ledgers; sampled above) of Register/Progress/Withdraw/Fund (incl. every egoistic index) is executed; the per-ledger call log must show each distinct ledger of the assets exactly once on success (at most once on failure) and no other, the result must be an error iff a ledger is unregistered or a sub-call failed, and the egoistic ledger must be funded only after all others succeeded. Asset lists may contain an asset that names no ledger: such a request has to fail.",
         "Trusted: the scripted ledgers; completion order is controlled by releasing blocked sub-calls at harness-detected stable points (goroutine count), so no wall-clock verdicts.",
         "DESIGN.md §5 C20"),
 "C03": ("exploration", "runtime monitoring: generated life-cycle scenarios of two real clients on a strict reference ledger with a logical clock; conservation/payout oracle over ledger balances and recorded Enabled streams",
         "Scenario programs (payments, accept/reject, optional sub-channel, cooperative or disputed settlement, settle order, secondary flags, funding agreements) run on the real client, watcher and state machines; the strict ledger verifies signatures/versions/challenge period and logs every call. After both Settle calls returned, each party's on-chain delta must equal its balance in the last state both enabled minus exactly the agreed funding, totals must be unchanged and nothing may remain held; a ledger refusal of an honest call is reported (except, in the ledger mode that accepts refutations only, the refusal of a registration that changes nothing), and so is an honest update request that was delivered but never answered (judged from the recorded messages at quiescence).",
         "Trusted: the strict ledger (harness/internal/ledger) as reference adjudicator, including that Withdraw waits for the challenge period like real backends; schedules come from bus noise, handler yields and the scheduler. Runs with timeouts or failing Settle calls are inconclusive for the payout oracle.",
         "DESIGN.md §5 C03"),
 "C04": ("exploration", "runtime monitoring with an adversary: recorded old transactions registered directly on the strict ledger at enumerated trigger points (between operations and with an update in flight, gated), verdict at ledger idleness on the logical clock",
         "For every (trigger point x old version) of short histories, and sampled for long ones, the peer registers an outdated fully signed state (with the oldest sub-channel states); when the ledger is idle and before the logical clock moves the registered version must be >= the honest party's newest enabled version (also for locked sub-channels), the ledger must accept the watcher's refutation, and after timeout and settlement the honest payout must be >= its newest balance. Histories may end in a final state; triggers include updates in flight on the ledger channel and on a sub-channel, each also with the events of the honest party's own registration held back until the update completed (then the watcher must refute again). The known finding D24 (no adjudicator event reaches the watcher after the newest state was published) is reported as KNOWN-FINDING by its observed history class; a newest state that was never published although older ones were is a violation. Further triggers: the honest party closed its sub-channel controller (the watcher refutes from its archive, also a second time), and the honest party cancels its request context from inside the update notification.",
         "Trusted: strict ledger and its idleness notion (no call in flight, no subscriber about to wake, every subscriber in Next or waiting for a timeout); the adversary runs no watcher of its own. No wall-clock verdicts.",
         "DESIGN.md §5 C04"),
 "C06": ("exploration", "runtime monitoring: invariant monitors inside the recording persisters of both clients (called under the channel lock) plus result/agreement comparison over generated update programs under schedule noise and the race detector",
         "Programs of proposals (sequential, same-side concurrent, cross-channel, both-sides concurrent) with accept/reject decisions and handler delays; at every Enabled event the transaction must be fully signed with version = previous+1, persister calls per channel must not overlap, and in runs without timeouts versions differ by at most one, no version gets two fully signed states, Update results agree with both parties' states and both stay ready for further updates. Update calls with an already cancelled context (by the proposer, and by the peer while its handler deliberates) are mixed in; they must leave no trace.",
         "Trusted: recording persister ordering (one shared counter); decisions are fed to the handler in FIFO order per (receiver, channel). Runs with timeouts keep only the fully-signed invariant, as the statement says.",
         "DESIGN.md §5 C06"),
 "C08": ("exploration", "runtime monitoring: real clients opening ledger/sub/virtual channels under bus noise with both sides' results compared; mutated proposals injected on the bus with a recording proposal handler and a barrier; child processes attribute crashes",
         "Positives compare ID, participant order, nonce, app, duration, flags and the fully signed version-0 state of both returned channels with the proposal, and nonce-share differential pairs must change the ID; in openings where one side's version-0 signature cannot be sent (bus send fault) a party that reports the channel as opened, or deposits, needs a peer holding the same fully signed state; an accepted opening that fails although every message was delivered and nothing moved for two thirds of the wait is reported as stalled (the bus adds send lag so that send-then-prepare windows open). Negatives deliver every single-condition mutation of well-formed proposals (37 mutators over the three proposal kinds; objects and both serializers; parties with one or several wire addresses) to a client with matching parents and check, after a barrier, that the handler was never invoked and no channel created; unmutated controls must reach the handler.",
         "Trusted: the barrier (a later valid proposal from the same sender answered + bus drained + no handler in flight); only natively encodable proposals are delivered.",
         "DESIGN.md §5 C08"),
 "C07": ("exploration", "runtime monitoring with an adversary holding a valid key: crafted and rewritten updates delivered to a real accept-everything client; an acceptability predicate evaluated inside the client's persister callback for its own signature",
         "At several life points (plain channel, locked sub-channels, pending funding, pending settlement) the peer sends correctly signed but unsafe updates (wrong actor, signature over another state, every sums-preserving edit of locked sub-allocations, replays) and rewrites its own funding/settlement updates on its link (wrong debits/credits, other amounts, index maps, touching other sub-allocations, a crafted funding agreement in its sub-channel proposal). Whenever the victim adds its own signature to a received update, the staged state is judged against its current state by an independent predicate written from the statement. Hub workload: the victim routes a virtual channel between the adversary and an honest client; the adversary's funding / settlement proposal is rewritten on its own link (hub debited instead of the sender, debits or credits swapped, one unit taken, other sub-allocations renamed or drained, other amount or index map inside the state, proposals with swapped index maps) and what the hub countersigns is judged against the proposal message.",
         "Trusted: the predicates (harness/props/c07 acceptable, acceptableAtHub + refmodel.ValidSuccessor); actor and, at the hub, the virtual channel's state and index map are taken from the tapped message carrying the staged state.",
         "DESIGN.md §5 C07"),
 "C12": ("exploration", "runtime monitoring in child processes: hostile decodable message sequences delivered to a real client at several life points; oracle = process survival (parent attributes deaths to the announced case) plus liveness probes on the attacked and a control channel",
         "Sequences of 1-4 envelopes from a catalogue of 47 structured hostile messages over every request/response type (built from live templates with valid IDs, versions and signatures) and byte-level mutants that still decode, each delivered only after a serializer round trip, at the life points idle / update in flight / during an opening / after registration, also against a victim that is the hub of a live virtual channel; plus protocol deviations of a real adversarial client whose link holds messages back until the victim's wait gave up, replaces responses, or fails the victim's sends (peer gone offline). Afterwards the victim's channel lock must be free and it must answer a valid incoming update within 45 s (library waits on these paths are 10 s), on the attacked and on an untouched control channel.",
         "Trusted: child-process attribution (a death is charged to the most recently announced case); the patience restatement of 'permanently'; the harness holds the adversary's and - to emulate states the victim signed earlier - the victim's key when building virtual channel states.",
         "DESIGN.md §5 C12, appendix C"),
}
PENDING = {}  # id -> reason, for properties without a check

def main():
    props = [json.loads(l)["id"] for l in open(os.path.join(ROOT, "properties.jsonl"))]
    checks = []
    for pid in props:
        if pid not in CHECKS:
            continue
        cat, tech, text, note, ref = CHECKS[pid]
        checks.append({
            "property_id": pid,
            "quick_cmd": f"./check.sh {pid} quick",
            "thorough_cmd": f"./check.sh {pid} thorough",
            "evidence_file": f"/verif/evidence/{pid}.json",
            "replay_cmd_template": f"./check.sh {pid} replay {{path}}",
            "engine": "vcheck",
            "level_claimed": {"category": cat, "text": text, "design_ref": ref},
            "level_note": note,
            "technique": tech,
        })
    na = [{"property_id": p, "reason": PENDING.get(p, "check not built yet in this round (see DESIGN.md §9 order of work); nothing is claimed for it")}
          for p in props if p not in CHECKS]
    hooks_commits = []
    hc = os.path.join(ROOT, "hook_commits.txt")
    if os.path.exists(hc):
        hooks_commits = [l.split()[0] for l in open(hc) if l.strip() and not l.startswith("#")]
    m = {
        "version": 1,
        "setup_cmd": "./check.sh build",
        "hooks": {
            "guard": "verif",
            "enable": "go build -tags verif (no hook commits so far: the harness observes through go-perun's injectable interfaces only)",
            "baseline_off_cmd": "cd /repo && GOFLAGS=-mod=mod GOPROXY=off GOSUMDB=off GOTOOLCHAIN=local go test -vet=off -count=1 -timeout 25m ./...",
            "source_commits": hooks_commits,
            "add_only": True,
        },
        "engines": [{"name": "vcheck", "path": "/verif/harness/cmd/vcheck", "serves_properties": [c["property_id"] for c in checks],
                     "kind_free_text": "Go driver that runs the real go-perun code under generated/hostile/stress workloads with monitors (plain and -race builds)"}],
        "checks": checks,
        "not_applicable": na,
        "notes": "Runtime monitoring and sanitizers only. known_findings.json lists genuine defects (fixed ones with their fix: commit). See DESIGN.md.",
    }
    json.dump(m, open(os.path.join(ROOT, "MANIFEST.json"), "w"), indent=1)
    print("claimed:", [c["property_id"] for c in checks])

main()
