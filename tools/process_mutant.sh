#!/bin/bash
# tools/process_mutant.sh <prop> <mutant> "<checks>" [delivery root] [delivered name]
# confirm a delivery (default /tmp/mut/out/<prop>/<mutant>) and run checks against it
P="$1"; M="$2"; CHECKS="${3:-$1}"; ROOT="${4:-/tmp/mut/out}"; SRCM="${5:-$2}"
cd /verif
if [ ! -f "seeded/$P/$M/confirm.txt" ] || ! grep -q CONFIRMED "seeded/$P/$M/confirm.txt"; then
  tools/confirm_seeded.sh "$ROOT/$P/$SRCM" "$P/$M" || { echo "NOT CONFIRMED $P/$M"; exit 1; }
fi
tools/seeded.sh "$P/$M" "$CHECKS" quick 1
