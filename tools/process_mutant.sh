#!/bin/bash
# tools/process_mutant.sh <prop> <mutant> "<checks>" : confirm a delivery from /tmp/mut/out and run checks against it
P="$1"; M="$2"; CHECKS="${3:-$1}"
cd /verif
if [ ! -f "seeded/$P/$M/confirm.txt" ] || ! grep -q CONFIRMED "seeded/$P/$M/confirm.txt"; then
  tools/confirm_seeded.sh "/tmp/mut/out/$P/$M" "$P/$M" || { echo "NOT CONFIRMED $P/$M"; exit 1; }
fi
tools/seeded.sh "$P/$M" "$CHECKS" quick 1
