#!/bin/bash
# Confirms a seeded change delivered by a sub-agent and files it under /verif/seeded/<prop>/<mutant>/:
#   tools/confirm_seeded.sh <delivery dir> <prop>/<mutant> [nosuite]
# Checks in a scratch worktree (removed afterwards): the patch applies, everything compiles, the
# demonstration passes without and fails with the change, and the repository suite still passes
# with the change (without the demonstration file).
set -u
SRC="${1:?delivery dir}"; M="${2:?prop/mutant}"; NOSUITE="${3:-}"
DST="/verif/seeded/$M"
TAG="cf-$(echo "$M" | tr '/' '-')-$$"
WT="/tmp/seedrun/$TAG"
export GOFLAGS=-mod=mod GOPROXY=off GOSUMDB=off GOTOOLCHAIN=local
mkdir -p /tmp/seedrun "$DST"
cleanup() { git -C /repo worktree remove --force "$WT" >/dev/null 2>&1; rm -rf "$WT"; git -C /repo worktree prune; }
trap cleanup EXIT
git -C /repo worktree add --detach "$WT" HEAD >/dev/null 2>&1 || exit 2
LOG="$DST/confirm.txt"; : >"$LOG"
say() { echo "$*" | tee -a "$LOG"; }
git -C "$WT" apply --check "$SRC/patch.diff" || { say "REJECTED: patch does not apply"; exit 1; }
if grep -qE '^\+\+\+ .*_test\.go' "$SRC/patch.diff"; then say "REJECTED: patch touches a test file"; exit 1; fi
# where does the demonstration go?
DIR=""
for tok in $(head -5 "$SRC/demo_test.go" | tr -c 'A-Za-z0-9_/.\n-' ' '); do
  t="${tok#./}"; t="${t%/}"; t="${t%/...}"
  [ -n "$t" ] && [ "$t" != "." ] && [ -d "$WT/$t" ] && ls "$WT/$t"/*.go >/dev/null 2>&1 && { DIR="$t"; break; }
done
[ -n "$DIR" ] || { say "REJECTED: cannot tell the demonstration's package directory"; exit 1; }
TESTS=$(grep -oE '^func (Test[A-Za-z0-9_]+)' "$SRC/demo_test.go" | awk '{print $2}' | paste -sd'|')
[ -n "$TESTS" ] || { say "REJECTED: no test function in the demonstration"; exit 1; }
cp "$SRC/demo_test.go" "$WT/$DIR/zz_seeded_demo_test.go"
say "demonstration: $DIR  -run '^($TESTS)\$'"
run_demo() { (cd "$WT" && go test -vet=off -count=1 -timeout 10m -run "^($TESTS)\$" "./$DIR/" 2>&1 | tail -25); }
out=$(run_demo); if echo "$out" | grep -qE '^ok '; then say "demo without the change: PASS"; else say "REJECTED: demo fails without the change"; echo "$out" | tail -15 >>"$LOG"; exit 1; fi
git -C "$WT" apply "$SRC/patch.diff"
(cd "$WT" && go build ./... 2>&1 | tail -5) | tee -a "$LOG"
out=$(run_demo); if echo "$out" | grep -qE '^(FAIL|panic:|--- FAIL)'; then say "demo with the change: FAIL (as it should)"; echo "$out" | grep -E -m4 '^\s+\S+_test.go:|panic:|--- FAIL' >>"$LOG"; else say "REJECTED: demo does not fail with the change"; echo "$out" | tail -15 >>"$LOG"; exit 1; fi
rm -f "$WT/$DIR/zz_seeded_demo_test.go"
if [ "$NOSUITE" != "nosuite" ]; then
  (cd "$WT" && go test -vet=off -count=1 -timeout 25m ./... 2>&1) >"/tmp/seedrun/$TAG.suite.log"
  fails=$(grep -E '^(FAIL|---)' "/tmp/seedrun/$TAG.suite.log" | grep -E '^FAIL\s' | awk '{print $2}' | grep -v 'wire/net/libp2p' | sort -u)
  still=""
  for p in $fails; do # one retry for the known flaky tests
    rel="./${p#perun.network/go-perun/}"
    ok=0
    for try in 1 2 3; do
      if (cd "$WT" && go test -vet=off -count=1 -timeout 25m "$rel" >/dev/null 2>&1); then ok=1; break; fi
    done
    [ $ok = 1 ] || still="$still $p"
  done
  if [ -n "$still" ]; then say "REJECTED: the existing suite fails with the change:$still"; grep -E -m10 '^--- FAIL' "/tmp/seedrun/$TAG.suite.log" >>"$LOG"; rm -f "/tmp/seedrun/$TAG.suite.log"; exit 1; fi
  say "existing suite with the change: PASS (wire/net/libp2p needs the network and fails on the unchanged tree too${fails:+; passed on retry: $(echo $fails)})"
  rm -f "/tmp/seedrun/$TAG.suite.log"
fi
cp "$SRC/patch.diff" "$DST/patch.diff"; cp "$SRC/demo_test.go" "$DST/demo_test.go"
[ -f "$SRC/demo_output.txt" ] && cp "$SRC/demo_output.txt" "$DST/demo_output.txt"
[ -f "$SRC/meta.json" ] && cp "$SRC/meta.json" "$DST/meta.json"
say "CONFIRMED"
