#!/bin/bash
# tools/snaprun.sh <tag> <check ids> <tier> <seeds>: runs checks from a snapshot copy of /verif (so that
# editing /verif meanwhile cannot break the run); output summary lines to /tmp/seedrun/logs/snap-<tag>.log
TAG="$1"; CHECKS="$2"; TIER="${3:-quick}"; SEEDS="${4:-1}"
SNAP="/tmp/seedrun/snap-$TAG"
rm -rf "$SNAP"; mkdir -p "$SNAP" /tmp/seedrun/logs
rsync -a --exclude bin --exclude evidence --exclude replay --exclude seeded --exclude .git /verif/ "$SNAP/"
LOG="/tmp/seedrun/logs/snap-$TAG.log"; : > "$LOG"
for S in $SEEDS; do for C in $CHECKS; do
  start=$(date +%s)
  (cd "$SNAP" && VERIF_SEED=$S ./check.sh $C $TIER 2>&1 | grep -aE "^(SUMMARY|VIOLATION|BUILD-ERROR|KNOWN)" | cut -c1-300) >> "$LOG"
  echo "  ($C seed=$S took $(( $(date +%s) - start ))s)" >> "$LOG"
done; done
echo DONE >> "$LOG"
