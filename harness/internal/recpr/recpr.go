// Package recpr is the recording Persister: it is called synchronously inside every machine
// mutation while the library holds the channel's lock, so its callbacks are invariant hooks that
// are atomic with the state they shadow.
package recpr

import (
	"context"
	"sync"
	"sync/atomic"

	"perun.network/go-perun/channel"
	"perun.network/go-perun/channel/persistence"
	"perun.network/go-perun/wallet"
	"perun.network/go-perun/wire"
)

// Kind of a persister call.
type Kind int

// Kinds.
const (
	Created Kind = iota
	Removed
	Staged
	SigAdded
	Enabled
	PhaseChanged
)

func (k Kind) String() string {
	return [...]string{"ChannelCreated", "ChannelRemoved", "Staged", "SigAdded", "Enabled", "PhaseChanged"}[k]
}

// Event is one recorded persister call.
type Event struct {
	Seq     int64
	Owner   string
	Kind    Kind
	ID      channel.ID
	Idx     channel.Index // own index in the channel
	SigIdx  channel.Index // SigAdded
	Phase   channel.Phase
	Staging channel.Transaction
	Current channel.Transaction
	Params  *channel.Params
	Parent  *channel.ID
}

func copyTx(t channel.Transaction) channel.Transaction {
	out := channel.Transaction{State: t.State}
	if t.Sigs != nil {
		out.Sigs = make([]wallet.Sig, len(t.Sigs))
		for i, s := range t.Sigs {
			if s != nil {
				out.Sigs[i] = append([]byte{}, s...)
			}
		}
	}
	return out
}

// Recorder wraps a PersistRestorer.
type Recorder struct {
	persistence.PersistRestorer
	Owner string
	mu    sync.Mutex
	evs   []Event
	// OnEvent is called synchronously for every event (under the channel's lock).
	OnEvent func(Event)
	// Overlap is called when two persister calls for the same channel overlap in time, which
	// the Persister contract excludes ("per channel, only one of those methods is called concurrently").
	Overlap  func(id channel.ID, a, b Kind)
	inflight sync.Map // channel.ID -> *int32 holder
	seq      *int64
}

type flight struct {
	n    int32
	kind int32
}

// New wraps inner (persistence.NonPersistRestorer if nil). seq is a shared event counter (may be nil).
func New(owner string, inner persistence.PersistRestorer, seq *int64) *Recorder {
	if inner == nil {
		inner = persistence.NonPersistRestorer
	}
	if seq == nil {
		seq = new(int64)
	}
	return &Recorder{PersistRestorer: inner, Owner: owner, seq: seq}
}

// Events returns a copy of the recorded events.
func (r *Recorder) Events() []Event {
	r.mu.Lock()
	defer r.mu.Unlock()
	return append([]Event(nil), r.evs...)
}

func (r *Recorder) record(k Kind, s channel.Source, sigIdx channel.Index, parent *channel.ID) func() {
	id := s.ID()
	v, _ := r.inflight.LoadOrStore(id, &flight{})
	f := v.(*flight)
	if n := atomic.AddInt32(&f.n, 1); n > 1 && r.Overlap != nil {
		r.Overlap(id, Kind(atomic.LoadInt32(&f.kind)), k)
	}
	atomic.StoreInt32(&f.kind, int32(k))
	e := Event{Seq: atomic.AddInt64(r.seq, 1), Owner: r.Owner, Kind: k, ID: id, Idx: s.Idx(), SigIdx: sigIdx, Phase: s.Phase(),
		Staging: copyTx(s.StagingTX()), Current: copyTx(s.CurrentTX()), Params: s.Params(), Parent: parent}
	r.mu.Lock()
	r.evs = append(r.evs, e)
	r.mu.Unlock()
	if r.OnEvent != nil {
		r.OnEvent(e)
	}
	return func() { atomic.AddInt32(&f.n, -1) }
}

// ChannelCreated implements persistence.Persister.
func (r *Recorder) ChannelCreated(ctx context.Context, s channel.Source, peers []map[wallet.BackendID]wire.Address, parent *channel.ID) error {
	defer r.record(Created, s, 0, parent)()
	return r.PersistRestorer.ChannelCreated(ctx, s, peers, parent)
}

// ChannelRemoved implements persistence.Persister.
func (r *Recorder) ChannelRemoved(ctx context.Context, id channel.ID) error {
	e := Event{Seq: atomic.AddInt64(r.seq, 1), Owner: r.Owner, Kind: Removed, ID: id}
	r.mu.Lock()
	r.evs = append(r.evs, e)
	r.mu.Unlock()
	if r.OnEvent != nil {
		r.OnEvent(e)
	}
	return r.PersistRestorer.ChannelRemoved(ctx, id)
}

// Staged implements persistence.Persister.
func (r *Recorder) Staged(ctx context.Context, s channel.Source) error {
	defer r.record(Staged, s, 0, nil)()
	return r.PersistRestorer.Staged(ctx, s)
}

// SigAdded implements persistence.Persister.
func (r *Recorder) SigAdded(ctx context.Context, s channel.Source, idx channel.Index) error {
	defer r.record(SigAdded, s, idx, nil)()
	return r.PersistRestorer.SigAdded(ctx, s, idx)
}

// Enabled implements persistence.Persister.
func (r *Recorder) Enabled(ctx context.Context, s channel.Source) error {
	defer r.record(Enabled, s, 0, nil)()
	return r.PersistRestorer.Enabled(ctx, s)
}

// PhaseChanged implements persistence.Persister.
func (r *Recorder) PhaseChanged(ctx context.Context, s channel.Source) error {
	defer r.record(PhaseChanged, s, 0, nil)()
	return r.PersistRestorer.PhaseChanged(ctx, s)
}
