// Package ev collects what a check observed and turns it into the interface files:
// evidence/<id>.json, replay/<id>/*.json, VIOLATION / KNOWN-FINDING lines and the exit code.
package ev

import (
	"crypto/sha256"
	"encoding/binary"
	"encoding/hex"
	"encoding/json"
	"fmt"
	"os"
	"path/filepath"
	"sort"
	"strings"
	"sync"
	"time"
)

// Root is the verification root directory (normally /verif).
func Root() string {
	if r := os.Getenv("VERIF_ROOT"); r != "" {
		return r
	}
	return "/verif"
}

// Finding is one entry of known_findings.json.
type Finding struct {
	Property  string `json:"property"`
	Signature string `json:"signature"`
	What      string `json:"what"`
	Status    string `json:"status"` // open | fixed
	Commit    string `json:"commit,omitempty"`
}

type violation struct {
	Signature string
	What      string
	Count     int
	Replay    string
	Known     bool
}

// Run is the accumulator of one check execution. All methods are safe for concurrent use.
type Run struct {
	Prop  string
	Tier  string
	Seed  int64
	Level string
	Rule  string

	mu           sync.Mutex
	start        time.Time
	evaluations  int64
	distinct     map[uint64]struct{} // 64-bit prefixes of SHA-256 (a count, not an identity); bounded, see distinctCap
	distinctOver int64               // non-trivial cases seen after the set was full (not counted as distinct)
	samples      []any
	maxSamples   int
	counters     map[string]int64
	sets         map[string]map[string]struct{}
	extra        map[string]any
	viols        map[string]*violation
	violOrder    []string
	inconclusive int64
	inconcWhat   map[string]int64
	assumptions  []string
	notes        []string
	known        []Finding
	exhaustive   bool
	replaying    *ReplayFile
	mergedDist   int64 // distinct non-trivial cases counted by child processes (disjoint by construction)
}

// ReplayFile is what is written for every distinct violation signature.
type ReplayFile struct {
	Property  string          `json:"property"`
	Signature string          `json:"signature"`
	What      string          `json:"what"`
	Tier      string          `json:"tier"`
	Seed      int64           `json:"seed"`
	Witness   json.RawMessage `json:"witness"`
}

// New starts a run.
func New(prop, tier string, seed int64, level, rule string) *Run {
	r := &Run{
		Prop: prop, Tier: tier, Seed: seed, Level: level, Rule: rule,
		start:      time.Now(),
		distinct:   map[uint64]struct{}{},
		maxSamples: 6,
		counters:   map[string]int64{},
		sets:       map[string]map[string]struct{}{},
		extra:      map[string]any{},
		viols:      map[string]*violation{},
		inconcWhat: map[string]int64{},
	}
	r.loadKnown()
	return r
}

func (r *Run) loadKnown() {
	b, err := os.ReadFile(filepath.Join(Root(), "known_findings.json"))
	if err != nil {
		return
	}
	var all []Finding
	if json.Unmarshal(b, &all) != nil {
		return
	}
	for _, f := range all {
		if f.Property == r.Prop && f.Status == "open" {
			r.known = append(r.known, f)
		}
	}
}

// SetReplaying marks the run as a replay of the given file.
func (r *Run) SetReplaying(f *ReplayFile) { r.replaying = f; r.known = nil }

// Replaying returns the replay file of this run or nil.
func (r *Run) Replaying() *ReplayFile { return r.replaying }

// Case records one evaluated case. desc identifies the case for distinctness; nontrivial
// tells whether it is non-trivial by the property's stated rule.
func (r *Run) Case(desc string, nontrivial bool) {
	h := sha256.Sum256([]byte(desc))
	k := binary.LittleEndian.Uint64(h[:8])
	r.mu.Lock()
	r.evaluations++
	if nontrivial {
		if len(r.distinct) < distinctCap {
			r.distinct[k] = struct{}{}
		} else if _, ok := r.distinct[k]; !ok {
			r.distinctOver++ // the reported number of distinct cases is then a lower bound
		}
	}
	r.mu.Unlock()
}

// distinctCap bounds the memory of the distinct-case set (about 1.5 GiB when full). Thorough
// explorations evaluate more cases than that; the reported distinct count is then a lower bound
// and the evidence says so (distinct_case_set_full).
const distinctCap = 40_000_000

// MergeCounts adds case counts measured by a child process. The caller guarantees that the
// children's case sets are disjoint (e.g. partitioned by decoder), so the counts can be added.
func (r *Run) MergeCounts(evaluations, distinctNontrivial int64) {
	r.mu.Lock()
	r.evaluations += evaluations
	r.mergedDist += distinctNontrivial
	r.mu.Unlock()
}

// Evals adds evaluations that are not tracked as distinct cases.
func (r *Run) Evals(n int64) {
	r.mu.Lock()
	r.evaluations += n
	r.mu.Unlock()
}

// Sample keeps v as an example case (only the first few are kept).
func (r *Run) Sample(v any) {
	r.mu.Lock()
	if len(r.samples) < r.maxSamples {
		r.samples = append(r.samples, v)
	}
	r.mu.Unlock()
}

// WantSample tells whether another sample would be kept.
func (r *Run) WantSample() bool {
	r.mu.Lock()
	defer r.mu.Unlock()
	return len(r.samples) < r.maxSamples
}

// Count adds n to a named counter reported in coverage.observed.
func (r *Run) Count(key string, n int64) {
	r.mu.Lock()
	r.counters[key] += n
	r.mu.Unlock()
}

// Max raises a named counter to at least v.
func (r *Run) Max(key string, v int64) {
	r.mu.Lock()
	if r.counters[key] < v {
		r.counters[key] = v
	}
	r.mu.Unlock()
}

// Seen adds member to the named set; the set's size is reported as distinct_<name>.
func (r *Run) Seen(set, member string) {
	r.mu.Lock()
	s := r.sets[set]
	if s == nil {
		s = map[string]struct{}{}
		r.sets[set] = s
	}
	s[member] = struct{}{}
	r.mu.Unlock()
}

// SetSize returns the current size of a named set.
func (r *Run) SetSize(set string) int {
	r.mu.Lock()
	defer r.mu.Unlock()
	return len(r.sets[set])
}

// Set stores an arbitrary coverage key.
func (r *Run) Set(key string, v any) {
	r.mu.Lock()
	r.extra[key] = v
	r.mu.Unlock()
}

// Assume records an assumption of the check.
func (r *Run) Assume(s string) {
	r.mu.Lock()
	r.assumptions = append(r.assumptions, s)
	r.mu.Unlock()
}

// Note prints an informational line (never a verdict).
func (r *Run) Note(format string, a ...any) {
	s := fmt.Sprintf(format, a...)
	r.mu.Lock()
	if len(r.notes) < 50 {
		r.notes = append(r.notes, s)
	}
	r.mu.Unlock()
	fmt.Printf("NOTE property=%s %s\n", r.Prop, s)
}

// Exhaustive marks the run as having enumerated a finite space completely.
func (r *Run) Exhaustive() { r.mu.Lock(); r.exhaustive = true; r.mu.Unlock() }

// Inconclusive records a case that could not be decided (watchdog, timeout of the library).
func (r *Run) Inconclusive(what string) {
	r.mu.Lock()
	r.inconclusive++
	r.inconcWhat[what]++
	r.mu.Unlock()
}

// Violation records a violation. signature is the class of the violation (stable across
// seeds, independent of line numbers); witness is whatever is needed to reproduce it.
func (r *Run) Violation(signature, what string, witness any) {
	r.mu.Lock()
	defer r.mu.Unlock()
	v := r.viols[signature]
	if v != nil {
		v.Count++
		return
	}
	v = &violation{Signature: signature, What: what, Count: 1}
	for _, k := range r.known {
		if k.Signature == signature {
			v.Known = true
		}
	}
	r.viols[signature] = v
	r.violOrder = append(r.violOrder, signature)
	if len(r.violOrder) > 200 {
		return // no more replay files; still counted
	}
	wb, err := json.Marshal(witness)
	if err != nil {
		wb, _ = json.Marshal(fmt.Sprintf("%+v", witness))
	}
	rf := ReplayFile{Property: r.Prop, Signature: signature, What: what, Tier: r.Tier, Seed: r.Seed, Witness: wb}
	dir := filepath.Join(Root(), "replay", r.Prop)
	_ = os.MkdirAll(dir, 0o755)
	h := sha256.Sum256([]byte(signature))
	p := filepath.Join(dir, sanitize(signature)+"-"+hex.EncodeToString(h[:4])+".json")
	b, _ := json.MarshalIndent(rf, "", " ")
	_ = os.WriteFile(p, b, 0o644)
	v.Replay = p
}

// NumViolations returns the number of distinct violation signatures so far.
func (r *Run) NumViolations() int {
	r.mu.Lock()
	defer r.mu.Unlock()
	return len(r.viols)
}

func sanitize(s string) string {
	var b strings.Builder
	for _, c := range s {
		switch {
		case c >= 'a' && c <= 'z', c >= 'A' && c <= 'Z', c >= '0' && c <= '9', c == '-', c == '_', c == '.':
			b.WriteRune(c)
		default:
			b.WriteByte('_')
		}
		if b.Len() >= 80 {
			break
		}
	}
	return b.String()
}

// Finish writes the evidence file, prints the verdict lines and returns the exit code.
func (r *Run) Finish() int {
	r.mu.Lock()
	defer r.mu.Unlock()
	wall := time.Since(r.start).Seconds()

	observed := map[string]any{}
	for k, v := range r.counters {
		observed[k] = v
	}
	for k, s := range r.sets {
		observed["distinct_"+k] = len(s)
	}
	if r.distinctOver > 0 {
		observed["distinct_case_set_full_further_nontrivial_cases_not_counted_as_distinct"] = r.distinctOver
	}
	cov := map[string]any{
		"evaluations":         r.evaluations,
		"distinct_nontrivial": int64(len(r.distinct)) + r.mergedDist,
		"rule":                r.Rule,
		"samples":             r.samples,
		"observed":            observed,
		"inconclusive":        r.inconclusive,
	}
	if len(r.inconcWhat) > 0 {
		cov["inconclusive_by_cause"] = r.inconcWhat
	}
	if r.exhaustive {
		cov["exhaustive"] = true
	}
	for k, v := range r.extra {
		cov[k] = v
	}
	if r.samples == nil {
		cov["samples"] = []any{}
	}
	unknown, known := 0, 0
	var vlist []map[string]any
	for _, sig := range r.violOrder {
		v := r.viols[sig]
		if v.Known {
			known++
		} else {
			unknown++
		}
		if len(vlist) < 50 {
			vlist = append(vlist, map[string]any{"signature": v.Signature, "what": v.What, "count": v.Count, "known": v.Known, "replay": v.Replay})
		}
	}
	if len(vlist) > 0 {
		cov["violation_classes"] = vlist
	}
	if len(r.notes) > 0 {
		cov["notes"] = r.notes
	}
	evd := map[string]any{
		"property_id": r.Prop,
		"tier":        r.Tier,
		"seed":        r.Seed,
		"level":       r.Level,
		"coverage":    cov,
		"assumptions": r.assumptions,
		"wall_s":      wall,
		"violations":  unknown,
	}
	if r.assumptions == nil {
		evd["assumptions"] = []string{}
	}
	if known > 0 {
		evd["known_findings_reproduced"] = known
	}
	if r.replaying == nil {
		dir := filepath.Join(Root(), "evidence")
		_ = os.MkdirAll(dir, 0o755)
		b, err := json.MarshalIndent(evd, "", " ")
		if err != nil {
			fmt.Printf("ERROR property=%s cannot encode evidence: %v\n", r.Prop, err)
			return 2
		}
		tmp := filepath.Join(dir, r.Prop+".json.tmp")
		if err := os.WriteFile(tmp, b, 0o644); err == nil {
			_ = os.Rename(tmp, filepath.Join(dir, r.Prop+".json"))
		}
	}

	for _, sig := range r.violOrder {
		v := r.viols[sig]
		if v.Known {
			fmt.Printf("KNOWN-FINDING: property=%s %s (%s; seen %d times, witness %s)\n", r.Prop, v.Signature, oneLine(v.What), v.Count, v.Replay)
		}
	}
	for _, sig := range r.violOrder {
		v := r.viols[sig]
		if !v.Known {
			fmt.Printf("VIOLATION property=%s replay=%s\n", r.Prop, v.Replay)
			fmt.Printf("  class=%s count=%d: %s\n", v.Signature, v.Count, oneLine(v.What))
		}
	}
	keys := make([]string, 0, len(observed))
	for k := range observed {
		keys = append(keys, k)
	}
	sort.Strings(keys)
	var ob []string
	for _, k := range keys {
		ob = append(ob, fmt.Sprintf("%s=%v", k, observed[k]))
	}
	fmt.Printf("SUMMARY property=%s tier=%s seed=%d evaluations=%d distinct_nontrivial=%d inconclusive=%d violations=%d known=%d wall=%.1fs\n  observed: %s\n",
		r.Prop, r.Tier, r.Seed, r.evaluations, int64(len(r.distinct))+r.mergedDist, r.inconclusive, unknown, known, wall, strings.Join(ob, " "))
	if unknown > 0 {
		return 1
	}
	if r.replaying != nil {
		return 0
	}
	if r.evaluations == 0 || int64(len(r.distinct))+r.mergedDist < 2 {
		fmt.Printf("ERROR property=%s nothing conclusive was observed (evaluations=%d distinct=%d)\n", r.Prop, r.evaluations, len(r.distinct))
		return 3
	}
	return 0
}

func oneLine(s string) string {
	s = strings.ReplaceAll(s, "\n", " | ")
	if len(s) > 400 {
		s = s[:400] + "..."
	}
	return s
}

// LoadReplay reads a replay file.
func LoadReplay(path string) (*ReplayFile, error) {
	b, err := os.ReadFile(path)
	if err != nil {
		return nil, err
	}
	var f ReplayFile
	if err := json.Unmarshal(b, &f); err != nil {
		return nil, err
	}
	return &f, nil
}
