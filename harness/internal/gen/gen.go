// Package gen holds the value generators and single-field mutators shared by the checks.
// It only constructs values through go-perun's public types; it never re-implements codecs.
package gen

import (
	"bytes"
	"errors"
	"fmt"
	"hash/fnv"
	"math/big"
	"math/rand"

	_ "perun.network/go-perun/backend/sim" // registers backend 0
	simchannel "perun.network/go-perun/backend/sim/channel"
	simwallet "perun.network/go-perun/backend/sim/wallet"
	simwire "perun.network/go-perun/backend/sim/wire"

	"perun.network/go-perun/apps/payment"
	"perun.network/go-perun/channel"
	"perun.network/go-perun/wallet"
	"perun.network/go-perun/wire"
)

// B is the only backend the repository ships.
const B = wallet.BackendID(channel.TestBackendID)

// NewRand derives an independent deterministic stream from (seed, stream name).
func NewRand(seed int64, stream string) *rand.Rand {
	h := fnv.New64a()
	fmt.Fprintf(h, "%d/%s", seed, stream)
	return rand.New(rand.NewSource(int64(h.Sum64())))
}

// ---------------------------------------------------------------------------------------------
// Apps

// BytesData is app data with an arbitrary byte payload.
type BytesData struct{ B []byte }

// MarshalBinary implements channel.Data.
func (d *BytesData) MarshalBinary() ([]byte, error) { return append([]byte{}, d.B...), nil }

// UnmarshalBinary implements channel.Data.
func (d *BytesData) UnmarshalBinary(b []byte) error { d.B = append([]byte(nil), b...); return nil }

// Clone implements channel.Data.
func (d *BytesData) Clone() channel.Data { return &BytesData{B: append([]byte(nil), d.B...)} }

// DataApp is a StateApp that carries BytesData and accepts every state except those whose data
// starts with RefusedMarker (the harness' way to make "the app refuses" reachable).
type DataApp struct{ id channel.AppID }

// RefusedMarker starts data that DataApp refuses in ValidInit and ValidTransition.
var RefusedMarker = []byte{0xde, 0xad, 'N', 'O'}

// RefusedData returns data that DataApp refuses.
func RefusedData(r *rand.Rand) channel.Data {
	return &BytesData{B: append(append([]byte(nil), RefusedMarker...), byte(r.Intn(256)))}
}

// Refuses tells whether the app refuses s (as initial state or as successor).
func (a *DataApp) Refuses(s *channel.State) bool {
	d, ok := s.Data.(*BytesData)
	return ok && len(d.B) >= len(RefusedMarker) && string(d.B[:len(RefusedMarker)]) == string(RefusedMarker)
}

// Def implements channel.App.
func (a *DataApp) Def() channel.AppID { return a.id }

// NewData implements channel.App.
func (a *DataApp) NewData() channel.Data { return &BytesData{} }

// ValidTransition implements channel.StateApp.
func (a *DataApp) ValidTransition(_ *channel.Params, _, to *channel.State, _ channel.Index) error {
	if a.Refuses(to) {
		return errors.New("DataApp: refused data")
	}
	return nil
}

// ValidInit implements channel.StateApp.
func (a *DataApp) ValidInit(_ *channel.Params, s *channel.State) error {
	if a.Refuses(s) {
		return errors.New("DataApp: refused data")
	}
	return nil
}

var (
	// Payment is a registered payment app with a fixed definition.
	Payment *payment.App
	// Payment2 is a second registered payment app (another definition).
	Payment2 *payment.App
	// DApp is the registered DataApp.
	DApp *DataApp
)

func init() {
	r := rand.New(rand.NewSource(0x5eed))
	appID := func() channel.AppID {
		return simchannel.AppID{Address: Account(r).Address().(*simwallet.Address)}
	}
	Payment = &payment.App{ID: appID()}
	Payment2 = &payment.App{ID: appID()}
	DApp = &DataApp{id: appID()}
	channel.RegisterApp(Payment)
	channel.RegisterApp(Payment2)
	channel.RegisterApp(DApp)
}

// AppKind selects an app for generated parameters.
type AppKind int

// App kinds.
const (
	AppNone AppKind = iota
	AppPayment
	AppData
)

// AppOf returns the app of the given kind.
func AppOf(k AppKind) channel.App {
	switch k {
	case AppPayment:
		return Payment
	case AppData:
		return DApp
	default:
		return channel.NoApp()
	}
}

// DataFor returns data fitting the app.
func DataFor(r *rand.Rand, app channel.App) channel.Data {
	if app == channel.App(DApp) {
		n := 0
		switch r.Intn(4) {
		case 0:
			n = 0
		case 1:
			n = 1 + r.Intn(8)
		case 2:
			n = 1 + r.Intn(200)
		default:
			n = 1 + r.Intn(40)
		}
		b := make([]byte, n)
		r.Read(b)
		if n == 0 {
			b = nil
		}
		return &BytesData{B: b}
	}
	return channel.NoData()
}

// ---------------------------------------------------------------------------------------------
// Accounts and addresses

// AccMap wraps an account for the multi-backend API.
func AccMap(a wallet.Account) map[wallet.BackendID]wallet.Account {
	return map[wallet.BackendID]wallet.Account{B: a}
}

// AddrMap wraps an address for the multi-backend API.
func AddrMap(a wallet.Address) map[wallet.BackendID]wallet.Address {
	return map[wallet.BackendID]wallet.Address{B: a}
}

// WalletAddr returns a random participant address map.
func WalletAddr(r *rand.Rand) map[wallet.BackendID]wallet.Address {
	return AddrMap(Account(r).Address())
}

// WireAddr returns a random wire address map.
func WireAddr(r *rand.Rand) map[wallet.BackendID]wire.Address {
	return map[wallet.BackendID]wire.Address{B: simwire.NewRandomAddress(r)}
}

// WireAddrAny returns a wire address map as a multi-backend node has it: mostly one entry under
// backend 0, sometimes one to three entries under other backend ids (wire addresses need no
// registered backend to be decoded).
func WireAddrAny(r *rand.Rand) map[wallet.BackendID]wire.Address {
	if r.Intn(10) < 6 {
		return WireAddr(r)
	}
	pool := []wallet.BackendID{0, 1, 2, 3, 256, 0x01020304, 0x7fffffff}
	m := map[wallet.BackendID]wire.Address{}
	for n := 1 + r.Intn(3); len(m) < n; {
		m[pool[r.Intn(len(pool))]] = simwire.NewRandomAddress(r)
	}
	return m
}

// ID returns a random channel id.
func ID(r *rand.Rand) (id channel.ID) {
	r.Read(id[:])
	return
}

// Asset returns a random asset.
func Asset(r *rand.Rand) channel.Asset { return simchannel.NewRandomAsset(r) }

// ---------------------------------------------------------------------------------------------
// Balances and allocations

// Bal returns a balance from a distribution that includes the interesting magnitudes.
func Bal(r *rand.Rand) *big.Int {
	switch r.Intn(12) {
	case 0:
		return big.NewInt(0)
	case 1:
		return big.NewInt(1)
	case 2:
		return new(big.Int).Lsh(big.NewInt(1), 64)
	case 3:
		return new(big.Int).Lsh(big.NewInt(1), 255)
	case 4:
		// the largest encodable value: 128 bytes
		b := make([]byte, 128)
		r.Read(b)
		b[0] |= 0x80
		return new(big.Int).SetBytes(b)
	case 5:
		return new(big.Int).SetUint64(r.Uint64())
	default:
		return big.NewInt(int64(r.Intn(1000)))
	}
}

// SmallBal returns a balance in [0, 1000).
func SmallBal(r *rand.Rand) *big.Int { return big.NewInt(int64(r.Intn(1000))) }

// Shape describes the dimensions of an allocation.
type Shape struct {
	Assets, Parts, Locked int
	IndexMaps             bool // sub-allocations carry index maps
	Small                 bool // small balances only (so sums stay far from limits)
}

func (s Shape) String() string {
	return fmt.Sprintf("a%dp%dl%d%s", s.Assets, s.Parts, s.Locked, map[bool]string{true: "i", false: ""}[s.IndexMaps])
}

// RandShape draws a shape: mostly small, sometimes at the documented limits.
func RandShape(r *rand.Rand, parts int) Shape {
	s := Shape{Parts: parts, IndexMaps: r.Intn(2) == 0}
	if parts == 0 {
		s.Parts = 2 + r.Intn(3)
	}
	switch x := r.Intn(100); {
	case x < 1:
		s.Assets = channel.MaxNumAssets
	case x < 3:
		s.Assets = 5 + r.Intn(20)
	default:
		s.Assets = 1 + r.Intn(4)
	}
	switch x := r.Intn(100); {
	case x < 40:
		s.Locked = 0
	case x < 98:
		s.Locked = 1 + r.Intn(3)
	case x < 99:
		s.Locked = 10 + r.Intn(30)
	default:
		if s.Assets < 8 {
			s.Locked = channel.MaxNumSubAllocations
		}
	}
	return s
}

// Allocation returns a well-formed allocation of the given shape.
func Allocation(r *rand.Rand, s Shape) *channel.Allocation {
	bal := Bal
	if s.Small || s.Assets*s.Parts > 64 {
		bal = SmallBal
	}
	a := &channel.Allocation{}
	a.Assets = make([]channel.Asset, s.Assets)
	a.Backends = make([]wallet.BackendID, s.Assets)
	a.Balances = make(channel.Balances, s.Assets)
	for i := 0; i < s.Assets; i++ {
		a.Assets[i] = Asset(r)
		a.Backends[i] = B
		a.Balances[i] = make([]channel.Bal, s.Parts)
		for j := range a.Balances[i] {
			a.Balances[i][j] = bal(r)
		}
	}
	if s.Locked > 0 {
		a.Locked = make([]channel.SubAlloc, s.Locked)
		for k := range a.Locked {
			a.Locked[k] = SubAlloc(r, s.Assets, s.Parts, s.IndexMaps, bal)
		}
	}
	return a
}

// SubAlloc returns a sub-allocation with nAssets balances.
func SubAlloc(r *rand.Rand, nAssets, parentParts int, indexMap bool, bal func(*rand.Rand) *big.Int) channel.SubAlloc {
	sa := channel.SubAlloc{ID: ID(r), Bals: make([]channel.Bal, nAssets)}
	for i := range sa.Bals {
		sa.Bals[i] = bal(r)
	}
	if indexMap {
		n := 2 + r.Intn(2)
		sa.IndexMap = make([]channel.Index, n)
		for i := range sa.IndexMap {
			sa.IndexMap[i] = channel.Index(r.Intn(max(parentParts, 1)))
		}
	} else {
		sa.IndexMap = []channel.Index{}
	}
	return sa
}

// ---------------------------------------------------------------------------------------------
// Params, states, transactions

// Party is one participant with its signing key.
type Party struct {
	Acc  *simwallet.Account
	Addr map[wallet.BackendID]wallet.Address
}

// AccMap returns the party's account under every backend id its address map uses.
func (p Party) AccMap() map[wallet.BackendID]wallet.Account {
	m := map[wallet.BackendID]wallet.Account{}
	for id := range p.Addr {
		m[id] = accFor(id, p.Acc)
	}
	return m
}

// OnBackend returns the same key as addr (a sim address or one of an extra backend) as an address of
// backend id; nil if id is not registered.
func OnBackend(id wallet.BackendID, addr wallet.Address) wallet.Address {
	b, err := addr.MarshalBinary()
	if err != nil {
		return nil
	}
	sim := new(simwallet.Address)
	if sim.UnmarshalBinary(b) != nil {
		return nil
	}
	if id != B {
		ok := false
		for _, x := range ExtraBackends {
			ok = ok || x == id
		}
		if !ok {
			return nil
		}
	}
	return addrFor(id, sim)
}

// Any returns one of the party's addresses (they are all the same key).
func (p Party) Any() wallet.Address {
	for _, a := range p.Addr {
		return a
	}
	return nil
}

// backendShape draws the backend ids a participant's address map uses: mostly {0}; with extra
// backends registered (see multibackend.go) also {1}, {0,1}, {1,2}, {0,1,2} - the same key under each.
func backendShape(r *rand.Rand) []wallet.BackendID {
	if len(ExtraBackends) < 2 || r.Intn(10) < 7 {
		return []wallet.BackendID{B}
	}
	return [][]wallet.BackendID{{1}, {0, 1}, {1, 2}, {0, 1, 2}, {2}}[r.Intn(5)]
}

// Parties returns n fresh participants.
func Parties(r *rand.Rand, n int) []Party {
	ps := make([]Party, n)
	// one shape for all of them: the sim address type panics when compared with a missing entry,
	// which is what wallet.IndexOfAddrs does for participants with different backend sets
	shape := backendShape(r)
	for i := range ps {
		a := Account(r)
		// a copy: the sim account's Address() points into its private key
		b, _ := a.Address().MarshalBinary()
		addr := new(simwallet.Address)
		if err := addr.UnmarshalBinary(b); err != nil {
			panic(err)
		}
		m := map[wallet.BackendID]wallet.Address{}
		for _, id := range shape {
			m[id] = addrFor(id, addr)
		}
		ps[i] = Party{Acc: a, Addr: m}
	}
	return ps
}

// Nonce returns a nonce of up to 32 bytes (never nil).
func Nonce(r *rand.Rand) *big.Int {
	n := r.Intn(channel.MaxNonceLen + 1)
	if r.Intn(3) > 0 {
		n = channel.MaxNonceLen
	}
	b := make([]byte, n)
	r.Read(b)
	return new(big.Int).SetBytes(b)
}

// Aux returns random auxiliary data (zero half of the time).
func Aux(r *rand.Rand) (a channel.Aux) {
	if r.Intn(2) == 0 {
		r.Read(a[:])
	}
	return
}

// Params returns valid parameters for the given parties.
// SplitKeyParties returns n participants registered with the backends 0 and 1 each, where
// participant split has DIFFERENT keys under the two backends: no single signature can be valid for
// both of its addresses. Nil without extra backends.
func SplitKeyParties(r *rand.Rand, n, split int) []Party {
	if len(ExtraBackends) == 0 {
		return nil
	}
	ps := make([]Party, n)
	for i := range ps {
		a := Account(r)
		b, _ := a.Address().MarshalBinary()
		addr := new(simwallet.Address)
		if err := addr.UnmarshalBinary(b); err != nil {
			panic(err)
		}
		other := addr
		if i == split {
			ob, _ := Account(r).Address().MarshalBinary()
			other = new(simwallet.Address)
			if err := other.UnmarshalBinary(ob); err != nil {
				panic(err)
			}
		}
		ps[i] = Party{Acc: a, Addr: map[wallet.BackendID]wallet.Address{B: addr, ExtraBackends[0]: addrFor(ExtraBackends[0], other)}}
	}
	return ps
}

func Params(r *rand.Rand, ps []Party, app channel.App) *channel.Params {
	parts := make([]map[wallet.BackendID]wallet.Address, len(ps))
	for i, p := range ps {
		parts[i] = p.Addr
	}
	dur := uint64(1 + r.Intn(1000))
	if r.Intn(10) == 0 {
		dur = r.Uint64() | 1
	}
	p, err := channel.NewParams(dur, parts, app, Nonce(r), r.Intn(2) == 0, r.Intn(4) == 0, Aux(r))
	if err != nil {
		panic(fmt.Sprintf("gen.Params: %v", err))
	}
	return p
}

// State returns a well-formed state for params.
func State(r *rand.Rand, p *channel.Params, s Shape) *channel.State {
	s.Parts = len(p.Parts)
	st := &channel.State{
		ID:         p.ID(),
		Version:    uint64(r.Intn(5)),
		App:        p.App,
		Allocation: *Allocation(r, s),
		Data:       DataFor(r, p.App),
		IsFinal:    r.Intn(5) == 0,
	}
	if r.Intn(10) == 0 {
		st.Version = r.Uint64()
	}
	return st
}

// Sign signs st with party p.
func Sign(p Party, st *channel.State) wallet.Sig {
	sig, err := channel.Sign(p.Acc, st, B)
	if err != nil {
		panic(fmt.Sprintf("gen.Sign: %v", err))
	}
	return sig
}

// Transaction returns st with signatures of the parties selected by mask (bit i = party i).
func Transaction(st *channel.State, ps []Party, mask uint64) channel.Transaction {
	tx := channel.Transaction{State: st, Sigs: make([]wallet.Sig, len(ps))}
	for i := range ps {
		if mask&(1<<uint(i)) != 0 {
			tx.Sigs[i] = Sign(ps[i], st)
		}
	}
	return tx
}

// FakeSig returns a random byte string of signature length (does not verify).
func FakeSig(r *rand.Rand) wallet.Sig {
	b := make([]byte, 64)
	r.Read(b)
	return b
}

// EncodeState returns the native encoding of a state (nil on error).
func EncodeState(s *channel.State) []byte {
	var b bytes.Buffer
	if err := s.Encode(&b); err != nil {
		return nil
	}
	return b.Bytes()
}

// ---------------------------------------------------------------------------------------------
// An action app for ActionMachine checks

// BytesAction is an action with a byte payload.
type BytesAction struct{ B []byte }

// MarshalBinary implements channel.Action.
func (a *BytesAction) MarshalBinary() ([]byte, error) { return append([]byte{}, a.B...), nil }

// UnmarshalBinary implements channel.Action.
func (a *BytesAction) UnmarshalBinary(b []byte) error { a.B = append([]byte(nil), b...); return nil }

// ActApp is an ActionApp whose initial allocation is fixed at construction.
type ActApp struct {
	id   channel.AppID
	Init channel.Allocation
}

// NewActApp returns an action app (not registered: it is never decoded).
func NewActApp(r *rand.Rand, init channel.Allocation) *ActApp {
	return &ActApp{id: simchannel.AppID{Address: Account(r).Address().(*simwallet.Address)}, Init: init}
}

// Def implements channel.App.
func (a *ActApp) Def() channel.AppID { return a.id }

// NewData implements channel.App.
func (a *ActApp) NewData() channel.Data { return &BytesData{} }

// RefusedActionMarker as first payload byte makes ActApp.ValidAction refuse the action.
const RefusedActionMarker = 0xEE

// ValidAction implements channel.ActionApp.
func (a *ActApp) ValidAction(_ *channel.Params, _ *channel.State, _ channel.Index, act channel.Action) error {
	if b, ok := act.(*BytesAction); ok && b != nil && len(b.B) > 0 && b.B[0] == RefusedActionMarker {
		return channel.NewActionError(channel.ID{}, "refused action")
	}
	return nil
}

// ActApplyData is the data ActApp.ApplyActions computes from the given action payloads.
func ActApplyData(acts [][]byte) []byte {
	d := []byte{}
	for _, x := range acts {
		d = append(d, x...)
	}
	return d
}

// ActInitData is the data ActApp.InitState computes from the given action payloads.
func ActInitData(acts [][]byte) []byte { return append([]byte{1}, ActApplyData(acts)...) }

// ApplyActions implements channel.ActionApp.
func (a *ActApp) ApplyActions(_ *channel.Params, s *channel.State, acts []channel.Action) (*channel.State, error) {
	ns := s.Clone()
	ns.Version++
	d := &BytesData{B: []byte{}}
	for _, x := range acts {
		if b, ok := x.(*BytesAction); ok && b != nil {
			d.B = append(d.B, b.B...)
		}
	}
	ns.Data = d
	return ns, nil
}

// InitState implements channel.ActionApp.
func (a *ActApp) InitState(_ *channel.Params, acts []channel.Action) (channel.Allocation, channel.Data, error) {
	d := []byte{1}
	for _, x := range acts {
		if b, ok := x.(*BytesAction); ok && b != nil {
			d = append(d, b.B...)
		}
	}
	return a.Init.Clone(), &BytesData{B: d}, nil
}

// NewAction implements channel.ActionApp.
func (a *ActApp) NewAction() channel.Action { return &BytesAction{} }
