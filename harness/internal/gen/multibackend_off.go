//go:build !multibackend

package gen

import (
	simwallet "perun.network/go-perun/backend/sim/wallet"
	"perun.network/go-perun/wallet"
)

// ExtraBackends is empty when the harness is built without the multibackend tag (check.sh falls back
// to that if go-perun's channel backend registry cannot be reached by name): all generators then
// keep to backend id 0.
var ExtraBackends []wallet.BackendID

func addrFor(_ wallet.BackendID, sim *simwallet.Address) wallet.Address { return sim }
func accFor(_ wallet.BackendID, acc *simwallet.Account) wallet.Account  { return acc }
