package gen

import (
	"math/rand"
	"time"
	"unicode/utf8"

	"perun.network/go-perun/channel"
	"perun.network/go-perun/client"
	"perun.network/go-perun/wallet"
	"perun.network/go-perun/wire"
)

// MsgTypes lists all 17 message types of the wire protocol.
var MsgTypes = []wire.Type{
	wire.Ping, wire.Pong, wire.Shutdown, wire.AuthResponse,
	wire.LedgerChannelProposal, wire.LedgerChannelProposalAcc,
	wire.SubChannelProposal, wire.SubChannelProposalAcc,
	wire.VirtualChannelProposal, wire.VirtualChannelProposalAcc,
	wire.ChannelProposalRej, wire.ChannelUpdate,
	wire.VirtualChannelFundingProposal, wire.VirtualChannelSettlementProposal,
	wire.ChannelUpdateAcc, wire.ChannelUpdateRej, wire.ChannelSync,
}

// Reason returns a valid UTF-8 string (the documented requirement for reasons).
func Reason(r *rand.Rand) string {
	n := r.Intn(40)
	if r.Intn(20) == 0 {
		n = 1000 + r.Intn(3000)
	}
	rs := make([]rune, 0, n)
	for len(rs) < n {
		var c rune
		switch r.Intn(4) {
		case 0:
			c = rune(0x20 + r.Intn(0x5f))
		case 1:
			c = rune(0xa0 + r.Intn(0x500))
		case 2:
			c = rune(0x4e00 + r.Intn(0x1000))
		default:
			c = rune(0x1f600 + r.Intn(0x40))
		}
		if utf8.ValidRune(c) {
			rs = append(rs, c)
		}
	}
	return string(rs)
}

func arr32(r *rand.Rand) (a [32]byte) {
	r.Read(a[:])
	return
}

// MsgOpts tunes message generation.
type MsgOpts struct {
	// Small restricts allocations to small shapes so that envelopes stay below the protobuf
	// frame limit.
	Small bool
}

func shapeFor(r *rand.Rand, parts int, o MsgOpts) Shape {
	s := RandShape(r, parts)
	if o.Small {
		if s.Assets > 4 {
			s.Assets = 1 + r.Intn(4)
		}
		if s.Locked > 3 {
			s.Locked = r.Intn(4)
		}
		s.Small = r.Intn(2) == 0
	}
	return s
}

// BaseProposal returns a well-formed base proposal for n participants.
func BaseProposal(r *rand.Rand, n int, o MsgOpts) client.BaseChannelProposal {
	s := shapeFor(r, n, o)
	s.Locked = 0 // initial allocations cannot have locked funds
	kind := AppKind(r.Intn(3))
	app := AppOf(kind)
	ib := Allocation(r, s)
	fa := ib.Balances.Clone()
	if n >= 2 && r.Intn(3) == 0 {
		// a different funding agreement with the same per-asset sums
		for i := range fa {
			t := fa[i][0]
			fa[i][0] = fa[i][1]
			fa[i][1] = t
		}
	}
	return client.BaseChannelProposal{
		ProposalID:        arr32(r),
		ChallengeDuration: uint64(1 + r.Intn(100000)),
		NonceShare:        arr32(r),
		App:               app,
		InitData:          DataFor(r, app),
		InitBals:          ib,
		FundingAgreement:  fa,
		Aux:               Aux(r),
	}
}

// IndexMapN returns an index map of length n with entries below m.
func IndexMapN(r *rand.Rand, n, m int) []channel.Index {
	im := make([]channel.Index, n)
	for i := range im {
		im[i] = channel.Index(r.Intn(m))
	}
	return im
}

// SignedState returns parameters with a state and a signature subset.
func SignedState(r *rand.Rand, o MsgOpts) channel.SignedState {
	n := 2 + r.Intn(3)
	ps := Parties(r, n)
	p := Params(r, ps, AppOf(AppKind(r.Intn(3))))
	st := State(r, p, shapeFor(r, n, o))
	tx := Transaction(st, ps, r.Uint64())
	return channel.SignedState{Params: p, State: st, Sigs: tx.Sigs}
}

// UpdateMsg returns a channel update message with a valid signature of party 0.
func UpdateMsg(r *rand.Rand, o MsgOpts) client.ChannelUpdateMsg {
	n := 2 + r.Intn(3)
	ps := Parties(r, n)
	p := Params(r, ps, AppOf(AppKind(r.Intn(3))))
	st := State(r, p, shapeFor(r, n, o))
	return client.ChannelUpdateMsg{
		ChannelUpdate: client.ChannelUpdate{State: st, ActorIdx: channel.Index(r.Intn(n))},
		Sig:           Sign(ps[0], st),
	}
}

// Msg returns a well-formed message of the given type.
func Msg(r *rand.Rand, t wire.Type, o MsgOpts) wire.Msg {
	switch t {
	case wire.Ping:
		return &wire.PingMsg{PingPongMsg: wire.PingPongMsg{Created: time.Unix(0, r.Int63())}}
	case wire.Pong:
		return &wire.PongMsg{PingPongMsg: wire.PingPongMsg{Created: time.Unix(0, r.Int63())}}
	case wire.Shutdown:
		return &wire.ShutdownMsg{Reason: Reason(r)}
	case wire.AuthResponse:
		b := make([]byte, r.Intn(100))
		r.Read(b)
		return &wire.AuthResponseMsg{Signature: b}
	case wire.LedgerChannelProposal:
		n := 2 + r.Intn(3)
		peers := make([]map[wallet.BackendID]wire.Address, n)
		for i := range peers {
			peers[i] = WireAddrAny(r)
		}
		return &client.LedgerChannelProposalMsg{
			BaseChannelProposal: BaseProposal(r, n, o),
			Participant:         WalletAddr(r),
			Peers:               peers,
		}
	case wire.LedgerChannelProposalAcc:
		return &client.LedgerChannelProposalAccMsg{
			BaseChannelProposalAcc: client.BaseChannelProposalAcc{ProposalID: arr32(r), NonceShare: arr32(r)},
			Participant:            WalletAddr(r),
		}
	case wire.SubChannelProposal:
		return &client.SubChannelProposalMsg{BaseChannelProposal: BaseProposal(r, 2, o), Parent: ID(r)}
	case wire.SubChannelProposalAcc:
		return &client.SubChannelProposalAccMsg{
			BaseChannelProposalAcc: client.BaseChannelProposalAcc{ProposalID: arr32(r), NonceShare: arr32(r)},
		}
	case wire.VirtualChannelProposal:
		n := 2
		peers := make([]map[wallet.BackendID]wire.Address, n)
		parents := make([]channel.ID, n)
		ims := make([][]channel.Index, n)
		for i := range peers {
			peers[i] = WireAddrAny(r)
			parents[i] = ID(r)
			ims[i] = IndexMapN(r, n, 2)
		}
		return &client.VirtualChannelProposalMsg{
			BaseChannelProposal: BaseProposal(r, n, o),
			Proposer:            WalletAddr(r),
			Peers:               peers,
			Parents:             parents,
			IndexMaps:           ims,
		}
	case wire.VirtualChannelProposalAcc:
		return &client.VirtualChannelProposalAccMsg{
			BaseChannelProposalAcc: client.BaseChannelProposalAcc{ProposalID: arr32(r), NonceShare: arr32(r)},
			Responder:              WalletAddr(r),
		}
	case wire.ChannelProposalRej:
		return &client.ChannelProposalRejMsg{ProposalID: arr32(r), Reason: Reason(r)}
	case wire.ChannelUpdate:
		m := UpdateMsg(r, o)
		return &m
	case wire.VirtualChannelFundingProposal:
		ss := SignedState(r, o)
		return &client.VirtualChannelFundingProposalMsg{
			ChannelUpdateMsg: UpdateMsg(r, o),
			Initial:          ss,
			IndexMap:         IndexMapN(r, len(ss.Params.Parts), 2),
		}
	case wire.VirtualChannelSettlementProposal:
		return &client.VirtualChannelSettlementProposalMsg{
			ChannelUpdateMsg: UpdateMsg(r, o),
			Final:            SignedState(r, o),
		}
	case wire.ChannelUpdateAcc:
		return &client.ChannelUpdateAccMsg{ChannelID: ID(r), Version: r.Uint64(), Sig: FakeSig(r)}
	case wire.ChannelUpdateRej:
		return &client.ChannelUpdateRejMsg{ChannelID: ID(r), Version: r.Uint64(), Reason: Reason(r)}
	case wire.ChannelSync:
		ss := SignedState(r, o)
		return &client.ChannelSyncMsg{
			Phase:     channel.Phase(r.Intn(channel.LastPhase + 1)),
			CurrentTX: channel.Transaction{State: ss.State, Sigs: ss.Sigs},
		}
	}
	panic("gen.Msg: unknown type")
}

// Envelope wraps a message of type t into an envelope with random addresses.
func Envelope(r *rand.Rand, t wire.Type, o MsgOpts) *wire.Envelope {
	return &wire.Envelope{Sender: WireAddrAny(r), Recipient: WireAddrAny(r), Msg: Msg(r, t, o)}
}
