package gen

import (
	"crypto/ecdsa"
	"crypto/elliptic"
	crand "crypto/rand"
	"math/big"
	"math/rand"
	"reflect"
	"unsafe"

	simwallet "perun.network/go-perun/backend/sim/wallet"
)

// Account returns a fresh signing account whose key is a deterministic function of r.
// ecdsa.GenerateKey deliberately consumes a random number of bytes from its source, which would
// make every generator downstream of it irreproducible; so the private key is derived here and
// planted into a sim account (harness-side only; the account type and its signing code are the
// repository's).
func Account(r *rand.Rand) *simwallet.Account {
	curve := elliptic.P256()
	b := make([]byte, 40)
	r.Read(b)
	d := new(big.Int).SetBytes(b)
	n := new(big.Int).Sub(curve.Params().N, big.NewInt(1))
	d.Mod(d, n)
	d.Add(d, big.NewInt(1))
	priv := &ecdsa.PrivateKey{D: d}
	priv.PublicKey.Curve = curve
	priv.PublicKey.X, priv.PublicKey.Y = curve.ScalarBaseMult(d.Bytes())

	acc := simwallet.NewRandomAccount(crand.Reader)
	f := reflect.ValueOf(acc).Elem().FieldByName("privKey")
	if !f.IsValid() {
		panic("gen.Account: sim account layout changed")
	}
	reflect.NewAt(f.Type(), unsafe.Pointer(f.UnsafeAddr())).Elem().Set(reflect.ValueOf(priv))
	return acc
}
