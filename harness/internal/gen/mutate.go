package gen

import (
	"math/big"
	"math/rand"

	"perun.network/go-perun/channel"
	"perun.network/go-perun/wallet"
)

// StateMutator changes exactly one transmitted field of a state in place. It returns false if
// it does not apply to the given state (e.g. no locked funds to edit).
type StateMutator struct {
	Name  string
	Apply func(r *rand.Rand, s *channel.State) bool
}

func pickLocked(r *rand.Rand, s *channel.State) int {
	if len(s.Locked) == 0 {
		return -1
	}
	return r.Intn(len(s.Locked))
}

// StateMutators is the list of single-field mutators (one per transmitted field, including
// nested ones and each dimension).
var StateMutators = []StateMutator{
	{"id-byte", func(r *rand.Rand, s *channel.State) bool { s.ID[r.Intn(32)] ^= 1 << uint(r.Intn(8)); return true }},
	{"version+1", func(r *rand.Rand, s *channel.State) bool { s.Version++; return true }},
	{"version-high-bit", func(r *rand.Rand, s *channel.State) bool { s.Version ^= 1 << 63; return true }},
	{"final-flag", func(r *rand.Rand, s *channel.State) bool { s.IsFinal = !s.IsFinal; return true }},
	{"app", func(r *rand.Rand, s *channel.State) bool {
		switch {
		case channel.IsNoApp(s.App):
			s.App = Payment
		case s.App == channel.App(Payment):
			s.App = Payment2
		case s.App == channel.App(Payment2):
			s.App = Payment
		default:
			return false
		}
		return true
	}},
	{"app-to-noapp", func(r *rand.Rand, s *channel.State) bool {
		if s.App != channel.App(Payment) && s.App != channel.App(Payment2) {
			return false
		}
		s.App = channel.NoApp()
		return true
	}},
	{"data-byte", func(r *rand.Rand, s *channel.State) bool {
		d, ok := s.Data.(*BytesData)
		if !ok {
			return false
		}
		nd := &BytesData{B: append([]byte(nil), d.B...)}
		if len(nd.B) == 0 || r.Intn(3) == 0 {
			nd.B = append(nd.B, byte(r.Intn(256)))
		} else {
			nd.B[r.Intn(len(nd.B))] ^= 1 << uint(r.Intn(8))
		}
		s.Data = nd
		return true
	}},
	{"data-on-an-app-less-state", func(r *rand.Rand, s *channel.State) bool {
		// an app-less state normally carries NoData, but the data field is encoded and signed regardless
		if !channel.IsNoApp(s.App) {
			return false
		}
		if d, ok := s.Data.(*BytesData); ok && len(d.B) > 0 {
			s.Data = channel.NoData()
			return true
		}
		s.Data = &BytesData{B: []byte{byte(1 + r.Intn(255)), byte(r.Intn(256))}}
		return true
	}},
	{"data-truncate", func(r *rand.Rand, s *channel.State) bool {
		d, ok := s.Data.(*BytesData)
		if !ok || len(d.B) == 0 {
			return false
		}
		s.Data = &BytesData{B: append([]byte(nil), d.B[:len(d.B)-1]...)}
		return true
	}},
	{"balance+1", func(r *rand.Rand, s *channel.State) bool {
		i, j := r.Intn(len(s.Balances)), r.Intn(len(s.Balances[0]))
		s.Balances[i][j] = new(big.Int).Add(s.Balances[i][j], big.NewInt(1))
		return true
	}},
	{"balance-high-bit", func(r *rand.Rand, s *channel.State) bool {
		i, j := r.Intn(len(s.Balances)), r.Intn(len(s.Balances[0]))
		b := new(big.Int).Set(s.Balances[i][j])
		if b.BitLen() >= 1023 {
			return false
		}
		s.Balances[i][j] = b.SetBit(b, b.BitLen()+8, 1)
		return true
	}},
	{"balances-swap-participants", func(r *rand.Rand, s *channel.State) bool {
		i := r.Intn(len(s.Balances))
		if len(s.Balances[i]) < 2 || s.Balances[i][0].Cmp(s.Balances[i][1]) == 0 {
			return false
		}
		s.Balances[i][0], s.Balances[i][1] = s.Balances[i][1], s.Balances[i][0]
		return true
	}},
	{"asset-replaced", func(r *rand.Rand, s *channel.State) bool { s.Assets[r.Intn(len(s.Assets))] = Asset(r); return true }},
	{"assets-swapped", func(r *rand.Rand, s *channel.State) bool {
		if len(s.Assets) < 2 || s.Assets[0].Equal(s.Assets[1]) {
			return false
		}
		s.Assets[0], s.Assets[1] = s.Assets[1], s.Assets[0]
		return true
	}},
	{"backend-id", func(r *rand.Rand, s *channel.State) bool {
		s.Backends[r.Intn(len(s.Backends))] = wallet.BackendID(1 + r.Intn(3))
		return true
	}},
	{"asset-appended", func(r *rand.Rand, s *channel.State) bool {
		if len(s.Assets) >= channel.MaxNumAssets {
			return false
		}
		s.Assets = append(s.Assets, Asset(r))
		s.Backends = append(s.Backends, B)
		row := make([]channel.Bal, len(s.Balances[0]))
		for i := range row {
			row[i] = big.NewInt(int64(r.Intn(3)))
		}
		s.Balances = append(s.Balances, row)
		for k := range s.Locked {
			s.Locked[k].Bals = append(s.Locked[k].Bals, big.NewInt(0))
		}
		return true
	}},
	{"participant-appended", func(r *rand.Rand, s *channel.State) bool {
		if len(s.Balances[0]) >= channel.MaxNumParts {
			return false
		}
		for i := range s.Balances {
			s.Balances[i] = append(s.Balances[i], big.NewInt(0))
		}
		return true
	}},
	{"locked-id-byte", func(r *rand.Rand, s *channel.State) bool {
		k := pickLocked(r, s)
		if k < 0 {
			return false
		}
		s.Locked[k].ID[r.Intn(32)] ^= 1 << uint(r.Intn(8))
		return true
	}},
	{"locked-amount+1", func(r *rand.Rand, s *channel.State) bool {
		k := pickLocked(r, s)
		if k < 0 {
			return false
		}
		i := r.Intn(len(s.Locked[k].Bals))
		s.Locked[k].Bals[i] = new(big.Int).Add(s.Locked[k].Bals[i], big.NewInt(1))
		return true
	}},
	{"locked-indexmap-entry", func(r *rand.Rand, s *channel.State) bool {
		k := pickLocked(r, s)
		if k < 0 || len(s.Locked[k].IndexMap) == 0 {
			return false
		}
		im := append([]channel.Index(nil), s.Locked[k].IndexMap...)
		i := r.Intn(len(im))
		im[i] ^= channel.Index(1 << uint(r.Intn(3)))
		s.Locked[k].IndexMap = im
		return true
	}},
	{"locked-indexmap-swap", func(r *rand.Rand, s *channel.State) bool {
		k := pickLocked(r, s)
		if k < 0 || len(s.Locked[k].IndexMap) < 2 || s.Locked[k].IndexMap[0] == s.Locked[k].IndexMap[1] {
			return false
		}
		im := append([]channel.Index(nil), s.Locked[k].IndexMap...)
		im[0], im[1] = im[1], im[0]
		s.Locked[k].IndexMap = im
		return true
	}},
	{"locked-indexmap-appended", func(r *rand.Rand, s *channel.State) bool {
		k := pickLocked(r, s)
		if k < 0 {
			return false
		}
		s.Locked[k].IndexMap = append(append([]channel.Index(nil), s.Locked[k].IndexMap...), channel.Index(r.Intn(2)))
		return true
	}},
	{"locked-indexmap-dropped", func(r *rand.Rand, s *channel.State) bool {
		k := pickLocked(r, s)
		if k < 0 || len(s.Locked[k].IndexMap) == 0 {
			return false
		}
		s.Locked[k].IndexMap = []channel.Index{}
		return true
	}},
	{"locked-appended", func(r *rand.Rand, s *channel.State) bool {
		if len(s.Locked) >= channel.MaxNumSubAllocations {
			return false
		}
		s.Locked = append(s.Locked, SubAlloc(r, len(s.Assets), len(s.Balances[0]), r.Intn(2) == 0, SmallBal))
		return true
	}},
	{"locked-removed", func(r *rand.Rand, s *channel.State) bool {
		k := pickLocked(r, s)
		if k < 0 {
			return false
		}
		s.Locked = append(append([]channel.SubAlloc(nil), s.Locked[:k]...), s.Locked[k+1:]...)
		return true
	}},
	{"locked-swapped", func(r *rand.Rand, s *channel.State) bool {
		if len(s.Locked) < 2 {
			return false
		}
		l := append([]channel.SubAlloc(nil), s.Locked...)
		l[0], l[1] = l[1], l[0]
		s.Locked = l
		return true
	}},
}
