//go:build multibackend

package gen

// The repository ships one backend implementation (sim, id 0) but its data model is multi-backend:
// a participant is a map backend id -> address, every address knows its backend id, encodings carry
// the ids and the channel ID covers them. To exercise those shapes the harness registers two more
// backends (ids 1 and 2). Their addresses and accounts wrap the sim ones and differ only in the
// backend id they report; signatures are the sim backend's. The channel backend registered under
// the new ids is the sim instance itself, so that a channel's ID does not depend on which of a
// participant's backends is asked - the instance is reached by name in go-perun's registry
// (SetBackend is the only exported way in and needs an instance).

import (
	"io"
	_ "unsafe" // go:linkname

	simwallet "perun.network/go-perun/backend/sim/wallet"
	"perun.network/go-perun/channel"
	"perun.network/go-perun/wallet"
)

//go:linkname channelBackends perun.network/go-perun/channel.backend
var channelBackends map[wallet.BackendID]channel.Backend

// ExtraBackends are the additional backend ids.
var ExtraBackends = []wallet.BackendID{1, 2}

// XAddr is an address of an extra backend: a sim address reporting another backend id.
type XAddr struct {
	ID    wallet.BackendID
	Inner simwallet.Address
}

func (a *XAddr) MarshalBinary() ([]byte, error) { return a.Inner.MarshalBinary() }
func (a *XAddr) UnmarshalBinary(b []byte) error { return a.Inner.UnmarshalBinary(b) }
func (a *XAddr) String() string                 { return a.Inner.String() }
func (a *XAddr) BackendID() wallet.BackendID    { return a.ID }
func (a *XAddr) Equal(b wallet.Address) bool {
	o, ok := b.(*XAddr)
	return ok && o.ID == a.ID && a.Inner.Equal(&o.Inner)
}

// XAcc is an account of an extra backend.
type XAcc struct {
	ID    wallet.BackendID
	Inner *simwallet.Account
}

func (a *XAcc) Address() wallet.Address           { return xaddr(a.ID, a.Inner.Address()) }
func (a *XAcc) SignData(d []byte) ([]byte, error) { return a.Inner.SignData(d) }

func xaddr(id wallet.BackendID, sim wallet.Address) *XAddr {
	b, _ := sim.MarshalBinary()
	x := &XAddr{ID: id}
	if err := x.Inner.UnmarshalBinary(b); err != nil {
		panic(err)
	}
	return x
}

type xWallet struct {
	id  wallet.BackendID
	sim simwallet.Backend
}

func (w *xWallet) NewAddress() wallet.Address                { return &XAddr{ID: w.id} }
func (w *xWallet) DecodeSig(r io.Reader) (wallet.Sig, error) { return w.sim.DecodeSig(r) }
func (w *xWallet) VerifySignature(msg []byte, sig wallet.Sig, a wallet.Address) (bool, error) {
	x, ok := a.(*XAddr)
	if !ok {
		return false, nil
	}
	return w.sim.VerifySignature(msg, sig, &x.Inner)
}

func init() {
	cb := channelBackends[B]
	if cb == nil {
		panic("gen: sim channel backend not registered under id 0")
	}
	for _, id := range ExtraBackends {
		wallet.SetBackend(&xWallet{id: id}, int(id))
		channel.SetBackend(cb, int(id))
	}
}

// addrFor returns the party's address for backend id.
func addrFor(id wallet.BackendID, sim *simwallet.Address) wallet.Address {
	if id == B {
		return sim
	}
	return xaddr(id, sim)
}

// accFor returns the party's account for backend id.
func accFor(id wallet.BackendID, acc *simwallet.Account) wallet.Account {
	if id == B {
		return acc
	}
	return &XAcc{ID: id, Inner: acc}
}
