// Package faultkv wraps a sortedkv.Database so that every atomic write (a direct Put/Delete or
// the Apply of a batch) is a counted boundary at which the store can be snapshotted or frozen.
package faultkv

import (
	"sync"

	"polycry.pt/poly-go/sortedkv"
)

// DB is the wrapper. A batch is one atomic write (what LevelDB guarantees).
type DB struct {
	sortedkv.Database
	mu sync.Mutex
	// Writes is the number of atomic writes applied (or dropped) so far.
	writes int
	// DropFrom >= 0 freezes the store: writes with index >= DropFrom are silently dropped, as if
	// the process had stopped right before them. -1 disables.
	DropFrom int
	// AfterWrite, if set, is called after every atomic write with the number of writes so far.
	AfterWrite func(n int)
	// Keys counts the individual keys written per atomic write (evidence only).
	LastKeys int
}

// New wraps db.
func New(db sortedkv.Database) *DB { return &DB{Database: db, DropFrom: -1} }

// Writes returns the number of write boundaries passed.
func (d *DB) Writes() int {
	d.mu.Lock()
	defer d.mu.Unlock()
	return d.writes
}

func (d *DB) write(keys int, f func() error) error {
	d.mu.Lock()
	idx := d.writes
	d.writes++
	drop := d.DropFrom >= 0 && idx >= d.DropFrom
	d.LastKeys = keys
	d.mu.Unlock()
	var err error
	if !drop {
		err = f()
	}
	if d.AfterWrite != nil {
		d.AfterWrite(idx + 1)
	}
	return err
}

// Put implements sortedkv.Writer.
func (d *DB) Put(k, v string) error { return d.write(1, func() error { return d.Database.Put(k, v) }) }

// PutBytes implements sortedkv.Writer.
func (d *DB) PutBytes(k string, v []byte) error {
	return d.write(1, func() error { return d.Database.PutBytes(k, v) })
}

// Delete implements sortedkv.Writer.
func (d *DB) Delete(k string) error { return d.write(1, func() error { return d.Database.Delete(k) }) }

// NewBatch implements sortedkv.Batcher.
func (d *DB) NewBatch() sortedkv.Batch { return &batch{Batch: d.Database.NewBatch(), d: d} }

type batch struct {
	sortedkv.Batch
	d    *DB
	keys int
}

func (b *batch) Put(k, v string) error             { b.keys++; return b.Batch.Put(k, v) }
func (b *batch) PutBytes(k string, v []byte) error { b.keys++; return b.Batch.PutBytes(k, v) }
func (b *batch) Delete(k string) error             { b.keys++; return b.Batch.Delete(k) }
func (b *batch) Reset()                            { b.keys = 0; b.Batch.Reset() }
func (b *batch) Apply() error {
	if b.keys == 0 {
		return b.Batch.Apply()
	}
	return b.d.write(b.keys, b.Batch.Apply)
}

// Dump returns a copy of all key/value pairs.
func Dump(db sortedkv.Database) map[string]string {
	out := map[string]string{}
	it := db.NewIterator()
	for it.Next() {
		out[it.Key()] = it.Value()
	}
	_ = it.Close()
	return out
}
