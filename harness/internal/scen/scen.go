// Package scen generates and runs channel life-cycle scenarios of two real clients: open, pay,
// optional sub-channel, settle (cooperatively or through registration and timeout). C03 judges
// the payouts of honest runs, C04 adds an adversary that registers outdated states.
package scen

import (
	"bytes"
	"context"
	"errors"
	"fmt"
	"math/big"
	"math/rand"
	"runtime"
	"sort"
	"sync"
	"time"

	"perun.network/go-perun/channel"
	"perun.network/go-perun/client"
	"perun.network/go-perun/wire"

	"verif/internal/gen"
	"verif/internal/party"
	"verif/internal/recpr"
)

// Step is one payment proposal.
type Step struct {
	Who    int   `json:"by"`
	Asset  int   `json:"asset"`
	Amount int64 `json:"amount"`
	Accept bool  `json:"peer_accepts"`
	Delay  int   `json:"handler_yields"`
}

// Sub describes an optional sub-channel.
type Sub struct {
	After int       `json:"opened_after_step"`
	Init  [][]int64 `json:"initial_balances"`
	Steps []Step    `json:"payments"`
	Close bool      `json:"closed_cooperatively"`
	// FinalPay is what participant 0 pays in the finalizing update (a last payment bundled
	// with the final flag), clamped to its balance.
	FinalPay int64 `json:"final_update_pays"`
	// ParentSteps are payments in the parent between the sub-channel becoming final and its
	// settlement into the parent.
	ParentSteps []Step `json:"parent_payments_before_the_settlement,omitempty"`
	// Nested is a sub-channel of the sub-channel (only when the sub-channel stays open): the whole
	// tree is then settled through a dispute of the ledger channel.
	Nested *Nested `json:"nested_sub_channel,omitempty"`
	// Second is another sub-channel of the ledger channel, opened after the first one's payments
	// (only when the first stays open): the disputed ledger channel then locks two sub-channels.
	Second *Nested `json:"second_sub_channel,omitempty"`
}

// Nested describes a sub-channel of the sub-channel.
type Nested struct {
	Init  [][]int64 `json:"initial_balances"`
	Steps []Step    `json:"payments"`
}

// Scenario is one generated program.
type Scenario struct {
	Assets      int       `json:"assets"`
	Payment     bool      `json:"payment_app"`
	Init        [][]int64 `json:"initial_balances"`
	Agreement   [][]int64 `json:"funding_agreement,omitempty"`
	Steps       []Step    `json:"payments"`
	Sub         *Sub      `json:"sub_channel,omitempty"`
	FinalLast   bool      `json:"last_state_final"`
	FinalPay    int64     `json:"final_update_pays"`
	SettleOrder int       `json:"settle_order"` // 0: A then B, 1: B then A, 2: concurrently
	Secondary   [2]bool   `json:"secondary"`
	Dur         uint64    `json:"challenge_duration"`
	Noise       int       `json:"bus_noise"`
	// NoWatch: the party does not run Channel.Watch (it is optional for an honest user).
	NoWatch [2]bool `json:"does_not_watch"`
	// StrictRegister: the ledger refuses Register calls that would change nothing.
	StrictRegister bool `json:"ledger_refuses_registrations_that_change_nothing,omitempty"`
}

// Generate draws a scenario.
func Generate(rng *rand.Rand) Scenario {
	sc := Scenario{Assets: 1 + rng.Intn(3), Payment: rng.Intn(2) == 0, Dur: uint64(5 + rng.Intn(20)), Noise: rng.Intn(5),
		FinalLast: rng.Intn(2) == 0, SettleOrder: rng.Intn(3), Secondary: [2]bool{rng.Intn(2) == 0, rng.Intn(2) == 0}}
	sc.Init = make([][]int64, sc.Assets)
	for a := range sc.Init {
		sc.Init[a] = []int64{int64(rng.Intn(100)), int64(rng.Intn(100))}
		if rng.Intn(8) == 0 {
			sc.Init[a][rng.Intn(2)] = 0
		}
	}
	if rng.Intn(4) == 0 {
		sc.Agreement = make([][]int64, sc.Assets)
		for a := range sc.Init {
			tot := sc.Init[a][0] + sc.Init[a][1]
			x := int64(0)
			if tot > 0 {
				x = int64(rng.Intn(int(tot) + 1))
			}
			sc.Agreement[a] = []int64{x, tot - x}
		}
	}
	steps := func(n int) []Step {
		var out []Step
		for i := 0; i < n; i++ {
			st := Step{Who: rng.Intn(2), Asset: rng.Intn(sc.Assets), Amount: int64(rng.Intn(25)), Accept: rng.Intn(5) != 0, Delay: rng.Intn(3)}
			if rng.Intn(12) == 0 {
				st.Amount = 500
			}
			out = append(out, st)
		}
		return out
	}
	sc.Steps = steps(rng.Intn(13))
	if rng.Intn(2) == 0 {
		sc.FinalPay = int64(1 + rng.Intn(4))
	}
	if rng.Intn(3) == 0 {
		// funding a sub-channel takes funds of both parties in one parent update, which the
		// payment app's rule forbids: sub-channels need an app-less parent
		sc.Payment = false
		sub := &Sub{After: rng.Intn(len(sc.Steps) + 1), Close: rng.Intn(3) != 0}
		sub.Init = make([][]int64, sc.Assets)
		for a := range sub.Init {
			sub.Init[a] = []int64{int64(rng.Intn(10)), int64(rng.Intn(10))}
		}
		sub.Steps = steps(rng.Intn(6))
		if rng.Intn(2) == 0 {
			sub.FinalPay = int64(1 + rng.Intn(4))
		}
		if sub.Close && rng.Intn(3) == 0 {
			sub.ParentSteps = steps(1 + rng.Intn(2))
		}
		if !sub.Close && rng.Intn(3) == 0 {
			ne := &Nested{Init: make([][]int64, sc.Assets), Steps: steps(rng.Intn(4))}
			for a := range ne.Init {
				ne.Init[a] = []int64{int64(rng.Intn(4)), int64(rng.Intn(4))}
			}
			sub.Nested = ne
		}
		if !sub.Close && rng.Intn(3) == 0 {
			se := &Nested{Init: make([][]int64, sc.Assets), Steps: steps(rng.Intn(4))}
			for a := range se.Init {
				se.Init[a] = []int64{int64(rng.Intn(6)), int64(rng.Intn(6))}
			}
			sub.Second = se
		}
		sc.Sub = sub
		if !sub.Close {
			// a ledger channel with an open sub-channel cannot be closed cooperatively
			// (the library refuses): such scenarios end in a dispute
			sc.FinalLast = false
		}
	}
	if rng.Intn(5) == 0 {
		sc.NoWatch[rng.Intn(2)] = true
	}
	return sc
}

// Run is the state of one scenario execution.
type Run struct {
	Sc       Scenario
	W        *party.World
	P        [2]*party.Party
	Ch       [2]*client.Channel // ledger channel objects of A and B
	SubCh    [2]*client.Channel
	NestedCh [2]*client.Channel
	SecondCh [2]*client.Channel
	Before   [2][]*big.Int // on-chain balances before opening, per asset
	TimedOut bool
	Failed   string // an operation failed in a way that makes the run undecidable
	Accepted int
	Rejected int
	Local    int
	mu       sync.Mutex
	pending  map[string][]decision
	// Hook is called at named points ("after-open", "before-step-i", "after-steps", "before-settle").
	Hook func(point string, r *Run)
	// OnEvent sees every persister event of both parties (inline, under the channel lock).
	OnEvent   func(owner int, e recpr.Event)
	SettleErr [2]error
	Log       []string
	// Gate, if set, runs in the update handler of party `owner` before it answers (the library
	// holds that party's channel lock meanwhile).
	Gate func(owner int, cur *channel.State, u client.ChannelUpdate)
	// SkipRest makes Payments stop issuing further steps (set by hooks).
	SkipRest bool
	// Step is the index of the main step being executed (-1 outside).
	Step int
	// SubStep is the index of the sub-channel step being executed (-1 outside).
	SubStep int
	// Stalled describes a request between honest parties that timed out while the world was at rest.
	Stalled string
	reqs    map[string]string // update requests handed to a client: "id|version" -> description
	answers map[string]bool   // "id|version" answered with an accept or a reject message
}

// Unanswered lists update requests that were handed to a client but never answered with an
// accept or a reject message. Only meaningful at quiescence (WaitIdle returned true).
func (r *Run) Unanswered() []string {
	r.mu.Lock()
	defer r.mu.Unlock()
	var out []string
	for k, d := range r.reqs {
		if !r.answers[k] {
			out = append(out, d)
		}
	}
	sort.Strings(out)
	return out
}

type decision struct {
	accept bool
	delay  int
}

func (r *Run) logf(format string, a ...any) {
	r.mu.Lock()
	r.Log = append(r.Log, fmt.Sprintf(format, a...))
	r.mu.Unlock()
}

func isTimeout(err error) bool {
	if err == nil {
		return false
	}
	var to client.RequestTimedOutError
	return errors.As(err, &to) || errors.Is(err, context.DeadlineExceeded) || bytes.Contains([]byte(err.Error()), []byte("context deadline exceeded")) ||
		bytes.Contains([]byte(err.Error()), []byte("locking machine mutex in time"))
}

// New prepares a world for the scenario.
func New(rng *rand.Rand, sc Scenario) *Run {
	r := &Run{Sc: sc, pending: map[string][]decision{}, Step: -1, SubStep: -1, reqs: map[string]string{}, answers: map[string]bool{}}
	r.W = party.NewWorld(rng, sc.Assets, sc.Noise)
	if sc.StrictRegister {
		r.W.Ledger.RefuseIdleRegistrations()
	}
	r.W.Bus.AddTap(func(e *wire.Envelope) {
		r.mu.Lock()
		defer r.mu.Unlock()
		switch m := e.Msg.(type) {
		case *client.ChannelUpdateMsg:
			if m.State != nil {
				r.reqs[fmt.Sprintf("%x|%d", m.State.ID, m.State.Version)] = fmt.Sprintf("update of channel %x to version %d", m.State.ID[:3], m.State.Version)
			}
		case *client.ChannelUpdateAccMsg:
			r.answers[fmt.Sprintf("%x|%d", m.ChannelID, m.Version)] = true
		case *client.ChannelUpdateRejMsg:
			r.answers[fmt.Sprintf("%x|%d", m.ChannelID, m.Version)] = true
		}
	})
	r.P[0], r.P[1] = r.W.NewParty("A", 1000), r.W.NewParty("B", 1000)
	r.P[0].NoWatch, r.P[1].NoWatch = sc.NoWatch[0], sc.NoWatch[1]
	for i := range r.P {
		i := i
		p := r.P[i]
		r.Before[i] = make([]*big.Int, sc.Assets)
		for a, as := range r.W.Assets {
			r.Before[i][a] = r.W.Ledger.Balance(p.Addr, as)
		}
		p.Rec.OnEvent = func(e recpr.Event) {
			if r.OnEvent != nil {
				r.OnEvent(i, e)
			}
		}
		p.SetUpdatePolicy(func(cur *channel.State, u client.ChannelUpdate) (bool, func()) {
			r.mu.Lock()
			k := fmt.Sprintf("%d|%x", i, cur.ID)
			d := decision{accept: true}
			if q := r.pending[k]; len(q) > 0 {
				d, r.pending[k] = q[0], q[1:]
			}
			r.mu.Unlock()
			return d.accept, func() {
				for j := 0; j < d.delay; j++ {
					runtime.Gosched()
				}
				if r.Gate != nil {
					r.Gate(i, cur, u)
				}
			}
		})
	}
	return r
}

func (r *Run) hook(point string) {
	if r.Hook != nil {
		r.Hook(point, r)
	}
}

// Open opens the ledger channel.
func (r *Run) Open() bool {
	var opts []client.ProposalOpts
	if r.Sc.Payment {
		opts = append(opts, client.WithApp(gen.Payment, channel.NoData()))
	}
	if r.Sc.Agreement != nil {
		fa := make(channel.Balances, r.Sc.Assets)
		for a := range fa {
			fa[a] = []channel.Bal{big.NewInt(r.Sc.Agreement[a][0]), big.NewInt(r.Sc.Agreement[a][1])}
		}
		opts = append(opts, client.WithFundingAgreement(fa))
	}
	ch, err := r.P[0].OpenLedgerChannel(r.P[1], r.Sc.Init, r.Sc.Dur, opts...)
	if err != nil {
		r.fail("opening the ledger channel", err)
		return false
	}
	r.Ch[0] = r.P[0].AwaitChannel(ch.ID())
	r.Ch[1] = r.P[1].AwaitChannel(ch.ID())
	if r.Ch[0] == nil || r.Ch[1] == nil {
		r.Failed = "the peer never registered the ledger channel"
		return false
	}
	r.hook("after-open")
	return true
}

// noteStall records a request that gave up although nothing had moved in the world for most of
// its patience (the parties' timeout): the protocol was stuck, not slow.
func (r *Run) noteStall(what string) {
	patience := r.P[0].Timeout
	if q := r.W.QuietFor(); patience >= 10*time.Second && q > patience*2/3 {
		r.mu.Lock()
		if r.Stalled == "" {
			r.Stalled = fmt.Sprintf("%s gave up after %v although nothing had moved for %v: every message had been delivered and no party was active", what, patience, q.Round(time.Second))
		}
		r.mu.Unlock()
	}
}

func clamp(want int64, have *big.Int) int64 {
	if have.IsInt64() && have.Int64() < want {
		return have.Int64()
	}
	return want
}

func (r *Run) fail(what string, err error) {
	if isTimeout(err) {
		r.TimedOut = true
		r.noteStall(what)
	}
	r.Failed = what + ": " + err.Error()
}

// pay executes one payment step on the given channel pair.
func (r *Run) pay(chs [2]*client.Channel, st Step, final bool) {
	ch := chs[st.Who]
	key := fmt.Sprintf("%d|%x", 1-st.Who, ch.ID())
	r.mu.Lock()
	r.pending[key] = append(r.pending[key], decision{st.Accept, st.Delay})
	r.mu.Unlock()
	local := false
	ctx, cancel := r.P[st.Who].Ctx()
	defer cancel()
	me := int(ch.Idx())
	err := ch.Update(ctx, func(s *channel.State) {
		if s.Balances[st.Asset][me].Cmp(big.NewInt(st.Amount)) < 0 {
			local = true
		}
		s.Balances[st.Asset][me] = new(big.Int).Sub(s.Balances[st.Asset][me], big.NewInt(st.Amount))
		s.Balances[st.Asset][1-me] = new(big.Int).Add(s.Balances[st.Asset][1-me], big.NewInt(st.Amount))
		if final {
			s.IsFinal = true
		}
	})
	var rej client.PeerRejectedError
	switch {
	case err == nil:
		r.Accepted++
	case errors.As(err, &rej):
		r.Rejected++
	case local:
		r.Local++
		r.mu.Lock()
		if q := r.pending[key]; len(q) > 0 {
			r.pending[key] = q[:len(q)-1]
		}
		r.mu.Unlock()
	default:
		r.fail("update", err)
	}
	r.logf("%s pays %d of asset %d (final=%v): %v", r.P[st.Who].Name, st.Amount, st.Asset, final, err)
}

// Payments runs the payment steps (and the sub-channel, if any).
func (r *Run) Payments() bool {
	for i, st := range r.Sc.Steps {
		if r.Sc.Sub != nil && r.Sc.Sub.After == i && !r.SkipRest {
			if !r.subChannel() {
				return false
			}
		}
		r.hook(fmt.Sprintf("before-step-%d", i))
		if r.SkipRest {
			return true
		}
		r.Step = i
		r.pay(r.Ch, st, false)
		r.Step = -1
		if r.Failed != "" {
			return false
		}
	}
	if r.Sc.Sub != nil && r.Sc.Sub.After >= len(r.Sc.Steps) && !r.SkipRest {
		if !r.subChannel() {
			return false
		}
	}
	r.hook("after-steps")
	if r.Sc.FinalLast && !r.SkipRest {
		// a final state: a last (possibly zero) payment by A with the final flag, always accepted
		r.pay(r.Ch, Step{Who: 0, Asset: 0, Amount: clamp(r.Sc.FinalPay, r.Ch[0].State().Balances[0][r.Ch[0].Idx()]), Accept: true}, true)
		if r.Failed != "" {
			return false
		}
		if r.Ch[0].State().IsFinal {
			r.hook("after-final")
		}
	}
	return true
}

func (r *Run) subChannel() bool {
	sub := r.Sc.Sub
	// the sub-channel's funds must be available in the parent
	cur := r.Ch[0].State()
	for a := range sub.Init {
		for i := range sub.Init[a] {
			if cur.Balances[a][i].Cmp(big.NewInt(sub.Init[a][i])) < 0 {
				sub.Init[a][i] = cur.Balances[a][i].Int64()
			}
		}
	}
	var opts []client.ProposalOpts
	if r.Sc.Payment {
		opts = append(opts, client.WithApp(gen.Payment, channel.NoData()))
	}
	sch, err := r.P[0].OpenSubChannel(r.Ch[0], sub.Init, r.Sc.Dur, opts...)
	if err != nil {
		r.fail("opening the sub-channel", err)
		return false
	}
	r.SubCh[0] = r.P[0].AwaitChannel(sch.ID())
	r.SubCh[1] = r.P[1].AwaitChannel(sch.ID())
	if r.SubCh[0] == nil || r.SubCh[1] == nil {
		r.Failed = "the peer never registered the sub-channel"
		return false
	}
	r.logf("sub-channel %x opened", sch.ID())
	r.hook("after-sub-open")
	if r.SkipRest {
		return true
	}
	for i, st := range sub.Steps {
		r.SubStep = i
		r.pay(r.SubCh, st, false)
		r.SubStep = -1
		if r.Failed != "" {
			return false
		}
		if r.SkipRest {
			return true
		}
	}
	r.hook("after-sub-steps")
	if sub.Nested != nil && !r.SkipRest {
		ne := sub.Nested
		cur := r.SubCh[0].State()
		for a := range ne.Init {
			for i := range ne.Init[a] {
				if cur.Balances[a][i].Cmp(big.NewInt(ne.Init[a][i])) < 0 {
					ne.Init[a][i] = cur.Balances[a][i].Int64()
				}
			}
		}
		nch, err := r.P[0].OpenSubChannel(r.SubCh[0], ne.Init, r.Sc.Dur, opts...)
		if err != nil {
			r.fail("opening the nested sub-channel", err)
			return false
		}
		r.NestedCh[0] = r.P[0].AwaitChannel(nch.ID())
		r.NestedCh[1] = r.P[1].AwaitChannel(nch.ID())
		if r.NestedCh[0] == nil || r.NestedCh[1] == nil {
			r.Failed = "the peer never registered the nested sub-channel"
			return false
		}
		r.logf("nested sub-channel %x opened", nch.ID())
		for _, st := range ne.Steps {
			r.pay(r.NestedCh, st, false)
			if r.Failed != "" {
				return false
			}
		}
	}
	if sub.Second != nil && !r.SkipRest {
		se := sub.Second
		cur := r.Ch[0].State()
		for a := range se.Init {
			for i := range se.Init[a] {
				if cur.Balances[a][i].Cmp(big.NewInt(se.Init[a][i])) < 0 {
					se.Init[a][i] = cur.Balances[a][i].Int64()
				}
			}
		}
		sch2, err := r.P[0].OpenSubChannel(r.Ch[0], se.Init, r.Sc.Dur, opts...)
		if err != nil {
			r.fail("opening the second sub-channel", err)
			return false
		}
		r.SecondCh[0] = r.P[0].AwaitChannel(sch2.ID())
		r.SecondCh[1] = r.P[1].AwaitChannel(sch2.ID())
		if r.SecondCh[0] == nil || r.SecondCh[1] == nil {
			r.Failed = "the peer never registered the second sub-channel"
			return false
		}
		r.logf("second sub-channel %x opened", sch2.ID())
		for _, st := range se.Steps {
			r.pay(r.SecondCh, st, false)
			if r.Failed != "" {
				return false
			}
		}
		r.hook("after-second-sub-steps")
	}
	if !sub.Close || r.SkipRest {
		return true
	}
	// finalize (participant 0 proposes) and settle into the parent: both sides call Settle
	r.pay(r.SubCh, Step{Who: 0, Asset: 0, Amount: clamp(sub.FinalPay, r.SubCh[0].State().Balances[0][r.SubCh[0].Idx()]), Accept: true}, true)
	if r.Failed != "" {
		return false
	}
	for _, st := range sub.ParentSteps {
		r.pay(r.Ch, st, false)
		if r.Failed != "" {
			return false
		}
	}
	errs := make(chan error, 2)
	for i := 0; i < 2; i++ {
		i := i
		go func() {
			ctx, cancel := r.P[i].Ctx()
			defer cancel()
			errs <- r.SubCh[i].Settle(ctx, false)
		}()
	}
	for i := 0; i < 2; i++ {
		if err := <-errs; err != nil {
			r.fail("settling the sub-channel into the parent", err)
		}
	}
	if r.Failed != "" {
		return false
	}
	r.logf("sub-channel settled into the parent")
	r.hook("after-sub-close")
	return true
}

// Settle lets both parties settle the ledger channel in the scenario's order.
func (r *Run) Settle() {
	r.hook("before-settle")
	settle := func(i int) {
		// A Settle call can fail for transient reasons (e.g. the adjudicator event of a
		// sub-channel has not reached the client yet); like a user, retry a few times.
		var err error
		for try := 0; try < 4; try++ {
			ctx, cancel := r.P[i].Ctx()
			err = r.Ch[i].Settle(ctx, r.Sc.Secondary[i])
			cancel()
			r.logf("%s.Settle: %v", r.P[i].Name, err)
			if err == nil || isTimeout(err) {
				break
			}
			time.Sleep(2 * time.Millisecond)
		}
		if isTimeout(err) {
			r.noteStall(r.P[i].Name + ".Settle")
		}
		r.mu.Lock()
		r.SettleErr[i] = err
		if isTimeout(err) {
			r.TimedOut = true
		}
		r.mu.Unlock()
	}
	switch r.Sc.SettleOrder {
	case 0:
		settle(0)
		settle(1)
	case 1:
		settle(1)
		settle(0)
	default:
		var wg sync.WaitGroup
		for i := 0; i < 2; i++ {
			i := i
			wg.Add(1)
			go func() { defer wg.Done(); settle(i) }()
		}
		wg.Wait()
	}
}

// LastAgreed returns, for a channel, the state of the highest version that both parties enabled
// with identical encoding (from the recording persisters).
func (r *Run) LastAgreed(id channel.ID) *channel.State {
	type rec struct {
		st  *channel.State
		enc []byte
	}
	by := [2]map[uint64]rec{{}, {}}
	for i, p := range r.P {
		for _, e := range p.Rec.Events() {
			if e.Kind == recpr.Enabled && e.ID == id && e.Current.State != nil {
				by[i][e.Current.State.Version] = rec{e.Current.State, gen.EncodeState(e.Current.State)}
			}
		}
	}
	var best *channel.State
	for v, a := range by[0] {
		if b, ok := by[1][v]; ok && bytes.Equal(a.enc, b.enc) {
			if best == nil || v > best.Version {
				best = a.st
			}
		}
	}
	return best
}

// Delta returns the change of party i's on-chain balance of asset a since before the opening.
func (r *Run) Delta(i, a int) *big.Int {
	now := r.W.Ledger.Balance(r.P[i].Addr, r.W.Assets[a])
	return now.Sub(now, r.Before[i][a])
}

// WaitIdle waits for the system to come to rest (bounded).
func (r *Run) WaitIdle() bool { return r.W.Quiesce() }

// Close shuts the world down (abandons it if something timed out).
func (r *Run) Close() {
	if r.TimedOut {
		r.W.Abandon()
		return
	}
	done := make(chan struct{})
	go func() { r.W.Close(); close(done) }()
	select {
	case <-done:
	case <-time.After(30 * time.Second):
		r.W.Abandon()
	}
}
