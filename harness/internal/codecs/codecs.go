// Package codecs lists every encoder/decoder pair of go-perun's wire formats behind one interface.
package codecs

import (
	"errors"
	"io"
	"math/big"
	"math/rand"

	"perun.network/go-perun/channel"
	"perun.network/go-perun/wallet"
	"perun.network/go-perun/wire"
	"perun.network/go-perun/wire/perunio"
	perunser "perun.network/go-perun/wire/perunio/serializer"
	"perun.network/go-perun/wire/protobuf"

	"verif/internal/gen"
)

// Codec is one encoder/decoder pair together with a generator of well-formed values.
type Codec struct {
	Name  string
	Gen   func(r *rand.Rand, o gen.MsgOpts) any
	Enc   func(v any, w io.Writer) error
	Dec   func(r io.Reader) (any, error)
	Equal func(a, b any) error // the type's own equality, if it has one
}

// Native and Proto are the two envelope serializers.
var (
	Native = perunser.Serializer()
	Proto  = protobuf.Serializer()
)

func boolErr(ok bool) error {
	if ok {
		return nil
	}
	return errors.New("not equal")
}

// Values are the codecs of the wire value types.
var Values = []Codec{
	{
		Name: "State",
		Gen: func(r *rand.Rand, o gen.MsgOpts) any {
			n := 2 + r.Intn(3)
			ps := gen.Parties(r, n)
			p := gen.Params(r, ps, gen.AppOf(gen.AppKind(r.Intn(3))))
			return gen.State(r, p, shape(r, n, o))
		},
		Enc:   func(v any, w io.Writer) error { return v.(*channel.State).Encode(w) },
		Dec:   func(r io.Reader) (any, error) { s := new(channel.State); return s, s.Decode(r) },
		Equal: func(a, b any) error { return a.(*channel.State).Equal(b.(*channel.State)) },
	},
	{
		Name:  "Allocation",
		Gen:   func(r *rand.Rand, o gen.MsgOpts) any { return gen.Allocation(r, shape(r, 0, o)) },
		Enc:   func(v any, w io.Writer) error { return v.(*channel.Allocation).Encode(w) },
		Dec:   func(r io.Reader) (any, error) { a := new(channel.Allocation); return a, a.Decode(r) },
		Equal: func(a, b any) error { return a.(*channel.Allocation).Equal(b.(*channel.Allocation)) },
	},
	{
		Name: "Balances",
		Gen: func(r *rand.Rand, o gen.MsgOpts) any {
			b := gen.Allocation(r, shape(r, 0, o)).Balances
			return &b
		},
		Enc:   func(v any, w io.Writer) error { return v.(*channel.Balances).Encode(w) },
		Dec:   func(r io.Reader) (any, error) { b := new(channel.Balances); return b, b.Decode(r) },
		Equal: func(a, b any) error { return a.(*channel.Balances).AssertEqual(*b.(*channel.Balances)) },
	},
	{
		Name: "SubAlloc",
		Gen: func(r *rand.Rand, o gen.MsgOpts) any {
			sa := gen.SubAlloc(r, 1+r.Intn(4), 2+r.Intn(3), r.Intn(2) == 0, gen.Bal)
			return &sa
		},
		Enc:   func(v any, w io.Writer) error { return v.(*channel.SubAlloc).Encode(w) },
		Dec:   func(r io.Reader) (any, error) { s := new(channel.SubAlloc); return s, s.Decode(r) },
		Equal: func(a, b any) error { return a.(*channel.SubAlloc).Equal(b.(*channel.SubAlloc)) },
	},
	{
		Name: "Params",
		Gen: func(r *rand.Rand, o gen.MsgOpts) any {
			n := 2 + r.Intn(4)
			if !o.Small && r.Intn(200) == 0 {
				n = channel.MaxNumParts
			}
			return gen.Params(r, gen.Parties(r, n), gen.AppOf(gen.AppKind(r.Intn(3))))
		},
		Enc: func(v any, w io.Writer) error { return v.(*channel.Params).Encode(w) },
		Dec: func(r io.Reader) (any, error) { p := new(channel.Params); return p, p.Decode(r) },
	},
	{
		Name: "Transaction",
		Gen: func(r *rand.Rand, o gen.MsgOpts) any {
			if r.Intn(20) == 0 {
				return &channel.Transaction{} // the documented "no state" transaction
			}
			n := 2 + r.Intn(3)
			ps := gen.Parties(r, n)
			p := gen.Params(r, ps, gen.AppOf(gen.AppKind(r.Intn(3))))
			tx := gen.Transaction(gen.State(r, p, shape(r, n, o)), ps, r.Uint64())
			return &tx
		},
		Enc: func(v any, w io.Writer) error { return v.(*channel.Transaction).Encode(w) },
		Dec: func(r io.Reader) (any, error) { t := new(channel.Transaction); return t, t.Decode(r) },
	},
	{
		Name: "Index",
		Gen:  func(r *rand.Rand, o gen.MsgOpts) any { i := channel.Index(r.Intn(1 << 16)); return &i },
		Enc:  func(v any, w io.Writer) error { return v.(*channel.Index).Encode(w) },
		Dec:  func(r io.Reader) (any, error) { i := new(channel.Index); return i, i.Decode(r) },
	},
	{
		Name: "Phase",
		Gen:  func(r *rand.Rand, o gen.MsgOpts) any { p := channel.Phase(r.Intn(channel.LastPhase + 1)); return &p },
		Enc:  func(v any, w io.Writer) error { return v.(*channel.Phase).Encode(w) },
		Dec:  func(r io.Reader) (any, error) { p := new(channel.Phase); return p, p.Decode(r) },
	},
	{
		Name: "WalletAddressDecMap",
		Gen: func(r *rand.Rand, o gen.MsgOpts) any {
			m := wallet.AddressDecMap(gen.WalletAddr(r))
			if r.Intn(10) == 0 {
				m = wallet.AddressDecMap{}
			}
			return &m
		},
		Enc: func(v any, w io.Writer) error { return v.(*wallet.AddressDecMap).Encode(w) },
		Dec: func(r io.Reader) (any, error) { m := new(wallet.AddressDecMap); return m, m.Decode(r) },
	},
	{
		Name: "WalletAddressMapArray",
		Gen: func(r *rand.Rand, o gen.MsgOpts) any {
			n := r.Intn(5)
			a := wallet.AddressMapArray{Addr: make([]map[wallet.BackendID]wallet.Address, n)}
			for i := range a.Addr {
				a.Addr[i] = gen.WalletAddr(r)
			}
			return &a
		},
		Enc: func(v any, w io.Writer) error { return v.(*wallet.AddressMapArray).Encode(w) },
		Dec: func(r io.Reader) (any, error) { m := new(wallet.AddressMapArray); return m, m.Decode(r) },
	},
	{
		Name: "WireAddressDecMap",
		Gen: func(r *rand.Rand, o gen.MsgOpts) any {
			m := wire.AddressDecMap(gen.WireAddrAny(r))
			if r.Intn(10) == 0 {
				m = wire.AddressDecMap{}
			}
			return &m
		},
		Enc: func(v any, w io.Writer) error { return v.(*wire.AddressDecMap).Encode(w) },
		Dec: func(r io.Reader) (any, error) { m := new(wire.AddressDecMap); return m, m.Decode(r) },
	},
	{
		Name: "WireAddressMapArray",
		Gen: func(r *rand.Rand, o gen.MsgOpts) any {
			n := r.Intn(5)
			a := make(wire.AddressMapArray, n)
			for i := range a {
				a[i] = gen.WireAddrAny(r)
			}
			return &a
		},
		Enc: func(v any, w io.Writer) error { return v.(*wire.AddressMapArray).Encode(w) },
		Dec: func(r io.Reader) (any, error) { m := new(wire.AddressMapArray); return m, m.Decode(r) },
	},
	{
		Name: "SparseSigs4",
		Gen: func(r *rand.Rand, o gen.MsgOpts) any {
			s := make([]wallet.Sig, 4)
			for i := range s {
				if r.Intn(2) == 0 {
					s[i] = gen.FakeSig(r)
				}
			}
			return &s
		},
		Enc: func(v any, w io.Writer) error { return wallet.EncodeSparseSigs(w, *v.(*[]wallet.Sig)) },
		Dec: func(r io.Reader) (any, error) {
			s := make([]wallet.Sig, 4)
			return &s, wallet.DecodeSparseSigs(r, &s)
		},
	},
	{
		Name: "Sig",
		Gen:  func(r *rand.Rand, o gen.MsgOpts) any { s := gen.FakeSig(r); return &s },
		Enc:  func(v any, w io.Writer) error { return perunio.Encode(w, *v.(*wallet.Sig)) },
		Dec:  func(r io.Reader) (any, error) { s, err := wallet.DecodeSig(r); return &s, err },
	},
	{
		Name: "BigInt",
		Gen:  func(r *rand.Rand, o gen.MsgOpts) any { return gen.Bal(r) },
		Enc:  func(v any, w io.Writer) error { return perunio.Encode(w, v.(*big.Int)) },
		Dec:  func(r io.Reader) (any, error) { var b *big.Int; err := perunio.Decode(r, &b); return b, err },
	},
	{
		Name: "String",
		Gen:  func(r *rand.Rand, o gen.MsgOpts) any { s := gen.Reason(r); return &s },
		Enc:  func(v any, w io.Writer) error { return perunio.Encode(w, *v.(*string)) },
		Dec:  func(r io.Reader) (any, error) { s := new(string); return s, perunio.Decode(r, s) },
	},
}

func shape(r *rand.Rand, parts int, o gen.MsgOpts) gen.Shape {
	s := gen.RandShape(r, parts)
	if o.Small {
		if s.Assets > 4 {
			s.Assets = 1 + r.Intn(4)
		}
		if s.Locked > 3 {
			s.Locked = r.Intn(4)
		}
	}
	return s
}

// Msgs returns one codec per message type using the native message framing (type byte + body).
func Msgs() []Codec {
	var cs []Codec
	for _, t := range gen.MsgTypes {
		t := t
		cs = append(cs, Codec{
			Name: "Msg/" + t.String(),
			Gen:  func(r *rand.Rand, o gen.MsgOpts) any { return gen.Msg(r, t, o) },
			Enc:  func(v any, w io.Writer) error { return wire.EncodeMsg(v.(wire.Msg), w) },
			Dec:  func(r io.Reader) (any, error) { return wire.DecodeMsg(r) },
		})
	}
	return cs
}

// Envelopes returns one codec per (serializer, message type).
func Envelopes(ser wire.EnvelopeSerializer, name string) []Codec {
	var cs []Codec
	for _, t := range gen.MsgTypes {
		t := t
		cs = append(cs, Codec{
			Name: name + "/" + t.String(),
			Gen:  func(r *rand.Rand, o gen.MsgOpts) any { return gen.Envelope(r, t, o) },
			Enc:  func(v any, w io.Writer) error { return ser.Encode(w, v.(*wire.Envelope)) },
			Dec:  func(r io.Reader) (any, error) { return ser.Decode(r) },
		})
	}
	return cs
}
