// Package refmodel holds reference predicates and automata written from go-perun's
// documentation and the property statements (not from the code under check).
package refmodel

import (
	"fmt"
	"math"
	"math/big"

	"perun.network/go-perun/apps/payment"
	"perun.network/go-perun/channel"
)

// Verdict of a reference predicate.
type Verdict int

// Verdicts.
const (
	Accept Verdict = iota
	Refuse
	Unspecified // the documentation is silent; the oracle abstains
)

func (v Verdict) String() string { return [...]string{"accept", "refuse", "unspecified"}[v] }

// WellFormed checks an allocation against the Allocation doc comment for a channel with n
// participants: at least one asset, one balance row per asset, one non-negative balance per
// participant in every row, every locked sub-allocation with one non-negative balance per
// asset, everything within the documented limits.
func WellFormed(a *channel.Allocation, n int) error {
	if len(a.Assets) == 0 {
		return fmt.Errorf("no assets")
	}
	if len(a.Assets) > channel.MaxNumAssets {
		return fmt.Errorf("too many assets")
	}
	if len(a.Locked) > channel.MaxNumSubAllocations {
		return fmt.Errorf("too many sub-allocations")
	}
	if n > channel.MaxNumParts {
		return fmt.Errorf("too many participants")
	}
	if len(a.Balances) != len(a.Assets) {
		return fmt.Errorf("%d balance rows for %d assets", len(a.Balances), len(a.Assets))
	}
	for i, row := range a.Balances {
		if len(row) != n {
			return fmt.Errorf("asset %d has %d balances for %d participants", i, len(row), n)
		}
		for j, b := range row {
			if b == nil || b.Sign() < 0 {
				return fmt.Errorf("balance[%d][%d] nil or negative", i, j)
			}
		}
	}
	for k, l := range a.Locked {
		if len(l.Bals) != len(a.Assets) {
			return fmt.Errorf("sub-allocation %d has %d balances for %d assets", k, len(l.Bals), len(a.Assets))
		}
		for i, b := range l.Bals {
			if b == nil || b.Sign() < 0 {
				return fmt.Errorf("locked[%d][%d] nil or negative", k, i)
			}
		}
	}
	return nil
}

// Sums returns per asset the total of participant balances plus locked funds.
func Sums(a *channel.Allocation) []*big.Int {
	out := make([]*big.Int, len(a.Balances))
	for i, row := range a.Balances {
		out[i] = new(big.Int)
		for _, b := range row {
			out[i].Add(out[i], b)
		}
	}
	for _, l := range a.Locked {
		for i, b := range l.Bals {
			if i < len(out) {
				out[i].Add(out[i], b)
			}
		}
	}
	return out
}

func sameApp(a, b channel.App) bool {
	na, nb := channel.IsNoApp(a), channel.IsNoApp(b)
	if na || nb {
		return na && nb
	}
	if a == nil || b == nil {
		return false
	}
	return a.Def().Equal(b.Def())
}

func backendsEqual(a, b *channel.Allocation) bool {
	if len(a.Backends) != len(b.Backends) {
		return false
	}
	for i := range a.Backends {
		if a.Backends[i] != b.Backends[i] {
			return false
		}
	}
	return true
}

// ValidSuccessor decides whether cand may be staged as the successor of cur by actor, as the
// C02 statement describes the regular update path.
func ValidSuccessor(p *channel.Params, cur, cand *channel.State, actor channel.Index) (Verdict, string) {
	n := len(p.Parts)
	if int(actor) >= n {
		return Refuse, "actor does not exist"
	}
	if cand.ID != p.ID() {
		return Refuse, "wrong channel ID"
	}
	if !sameApp(p.App, cand.App) {
		return Refuse, "wrong app"
	}
	if cur.IsFinal {
		return Refuse, "successor of a final state"
	}
	if cur.Version == math.MaxUint64 {
		return Unspecified, "version overflow"
	}
	if cand.Version != cur.Version+1 {
		return Refuse, "not the next version"
	}
	if err := WellFormed(&cand.Allocation, n); err != nil {
		return Refuse, "allocation not well-formed: " + err.Error()
	}
	if len(cand.Assets) != len(cur.Assets) {
		return Refuse, "asset list changed (length)"
	}
	for i := range cur.Assets {
		if !cur.Assets[i].Equal(cand.Assets[i]) {
			return Refuse, "asset list changed"
		}
	}
	cs, ns := Sums(&cur.Allocation), Sums(&cand.Allocation)
	for i := range cs {
		if cs[i].Cmp(ns[i]) != 0 {
			return Refuse, fmt.Sprintf("total of asset %d changed", i)
		}
	}
	if !backendsEqual(&cur.Allocation, &cand.Allocation) {
		return Unspecified, "backend list changed (the statement does not mention it)"
	}
	// app rule
	if a, ok := p.App.(interface{ Refuses(*channel.State) bool }); ok && a.Refuses(cand) {
		return Refuse, "the app refuses the state"
	}
	switch p.App.(type) {
	case *payment.App:
		// "money flows only from the actor to the other participants"
		for i := range cur.Balances {
			for j := range cur.Balances[i] {
				c := cur.Balances[i][j].Cmp(cand.Balances[i][j])
				if j == int(actor) && c < 0 {
					return Refuse, "payment app: actor's balance grows"
				}
				if j != int(actor) && c > 0 {
					return Refuse, "payment app: another participant's balance shrinks"
				}
			}
		}
	}
	return Accept, ""
}

// ValidInit decides whether (alloc, data) is an acceptable initial state for the parameters.
func ValidInit(p *channel.Params, alloc *channel.Allocation) (Verdict, string) {
	if err := WellFormed(alloc, len(p.Parts)); err != nil {
		return Refuse, "allocation not well-formed: " + err.Error()
	}
	return Accept, ""
}
