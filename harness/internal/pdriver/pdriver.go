// Package pdriver adapts persistence.StateMachine to mexplore.Driver.
package pdriver

import (
	"context"

	"perun.network/go-perun/channel"
	"perun.network/go-perun/channel/persistence"
	"perun.network/go-perun/wallet"
)

// Driver drives a persisting state machine.
type Driver struct {
	SM  persistence.StateMachine
	Raw *channel.StateMachine
}

// New wraps m with the persister.
func New(m *channel.StateMachine, pr persistence.Persister) *Driver {
	return &Driver{SM: persistence.FromStateMachine(m, pr), Raw: m}
}

var ctx = context.Background()

func (d *Driver) Init(a channel.Allocation, da channel.Data) error { return d.SM.Init(ctx, a, da) }
func (d *Driver) Update(s *channel.State, a channel.Index) error   { return d.SM.Update(ctx, s, a) }
func (d *Driver) ForceUpdate(s *channel.State, a channel.Index) error {
	return d.SM.ForceUpdate(ctx, s, a)
}
func (d *Driver) Sig() (wallet.Sig, error)                       { return d.SM.Sig(ctx) }
func (d *Driver) AddSig(i channel.Index, s wallet.Sig) error     { return d.SM.AddSig(ctx, i, s) }
func (d *Driver) EnableInit() error                              { return d.SM.EnableInit(ctx) }
func (d *Driver) EnableUpdate() error                            { return d.SM.EnableUpdate(ctx) }
func (d *Driver) EnableFinal() error                             { return d.SM.EnableFinal(ctx) }
func (d *Driver) DiscardUpdate() error                           { return d.SM.DiscardUpdate(ctx) }
func (d *Driver) SetFunded() error                               { return d.SM.SetFunded(ctx) }
func (d *Driver) SetRegistering() error                          { return d.SM.SetRegistering(ctx) }
func (d *Driver) SetRegistered() error                           { return d.SM.SetRegistered(ctx) }
func (d *Driver) SetProgressing(s *channel.State) error          { return d.SM.SetProgressing(ctx, s) }
func (d *Driver) SetProgressed(e *channel.ProgressedEvent) error { return d.SM.SetProgressed(ctx, e) }
func (d *Driver) SetWithdrawing() error                          { return d.SM.SetWithdrawing(ctx) }
func (d *Driver) SetWithdrawn() error                            { return d.SM.SetWithdrawn(ctx) }
func (d *Driver) Source() channel.Source                         { return d.Raw }
