// Package sink lets a workload report either directly into an ev.Run (in-process) or through a
// childrun.Emitter (when it runs as a child process, e.g. the -race slice).
package sink

import (
	"fmt"
	"os"
	"path/filepath"
	"strings"

	"verif/internal/childrun"
	"verif/internal/ev"
	"verif/props"
)

// Sink is the common reporting interface of *ev.Run and *childrun.Emitter.
type Sink interface {
	Case(desc string, nontrivial bool)
	Count(key string, n int64)
	Max(key string, n int64)
	Seen(set, member string)
	Violation(sig, what string, witness any)
	Inconclusive(what string)
	Sample(v any)
}

var (
	_ Sink = (*ev.Run)(nil)
	_ Sink = (*childrun.Emitter)(nil)
)

// Prefixed prefixes counters so that the race slice is reported separately.
type Prefixed struct {
	Sink
	P string
}

// Count implements Sink.
func (p Prefixed) Count(key string, n int64) { p.Sink.Count(p.P+key, n) }

// Max implements Sink.
func (p Prefixed) Max(key string, n int64) { p.Sink.Max(p.P+key, n) }

// RaceSlice runs the property's child workload in the -race build (if available) and merges its
// reports; data race reports are recorded as notes (the verdict stays behavioural) unless
// relevant(report) says that the race itself refutes the property.
func RaceSlice(r *ev.Run, cfg props.Cfg, prop string, workers int, relevant func(report string) (sig string, ok bool)) {
	bin := cfg.SelfAlt
	if cfg.Race {
		bin = cfg.Self
	}
	if bin == "" {
		r.Set("race_detector", "off (no race build available)")
		return
	}
	raceDir := filepath.Join(ev.Root(), "evidence", "race")
	_ = os.MkdirAll(raceDir, 0o755)
	logPrefix := filepath.Join(raceDir, fmt.Sprintf("%s.%d", prop, os.Getpid()))
	childrun.Run(r, cfg, childrun.Opts{
		Prop: prop, Binary: bin, Workers: workers,
		Env: []string{"GORACE=halt_on_error=0 log_path=" + logPrefix},
		Arg: func(w int) string { return fmt.Sprintf("race:%d/%d", w, workers) },
		OnDeath: func(w int, last, stderr string, err error) {
			r.Violation(prop+"/crash/"+childrun.PanicSite(stderr), fmt.Sprintf("the workload killed the process: %s (case: %s)", childrun.FatalLine(stderr), last),
				map[string]any{"case": last, "stderr": childrun.FirstLines(stderr, 60)})
		},
	})
	files, _ := filepath.Glob(logPrefix + ".*")
	n := 0
	seen := map[string]bool{}
	for _, f := range files {
		b, _ := os.ReadFile(f)
		for _, blk := range strings.Split(string(b), "==================") {
			if !strings.Contains(blk, "WARNING: DATA RACE") {
				continue
			}
			n++
			sig := RaceSig(blk)
			if seen[sig] {
				continue
			}
			seen[sig] = true
			if relevant != nil {
				if s, ok := relevant(blk); ok {
					r.Violation(prop+"/data-race/"+s, "the race detector reports a data race that refutes the property: "+s, map[string]any{"report": trunc(blk, 6000)})
					continue
				}
			}
			if !strings.HasPrefix(sig, "harness:") {
				r.Note("race detector (recorded only, the verdict is behavioural): %s", sig)
			} else {
				r.Note("race detector report inside the harness: %s", childrun.FirstLines(blk, 8))
			}
		}
		_ = os.Remove(f)
	}
	r.Count("race_reports", int64(n))
	r.Count("race_reports_distinct", int64(len(seen)))
	r.Set("race_detector", "on (slice run in children built with -race)")
}

// RaceSig de-duplicates race reports by the innermost frames of the two conflicting accesses.
func RaceSig(blk string) string {
	var tops []string
	lines := strings.Split(blk, "\n")
	for i, l := range lines {
		t := strings.TrimSpace(l)
		if (strings.Contains(t, " at 0x") && strings.Contains(t, " by ")) && i+1 < len(lines) {
			f := strings.TrimSpace(lines[i+1])
			if j := strings.LastIndex(f, "("); j > 0 {
				f = f[:j]
			}
			f = strings.TrimPrefix(f, "perun.network/go-perun/")
			tops = append(tops, f)
		}
	}
	if len(tops) == 0 {
		return "unknown"
	}
	all := true
	for _, t := range tops {
		all = all && strings.HasPrefix(t, "verif/")
	}
	if all {
		return "harness:" + strings.Join(tops, "+")
	}
	return strings.Join(tops, "+")
}

func trunc(s string, n int) string {
	if len(s) > n {
		return s[:n]
	}
	return s
}
