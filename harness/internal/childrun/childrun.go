// Package childrun runs a check's workload in child processes of the driver binary and merges
// what they report. One panic or fatal error in the system under test then ends one child, not
// every monitor, and the death is attributed by the parent.
package childrun

import (
	"bufio"
	"bytes"
	"encoding/json"
	"fmt"
	"os"
	"os/exec"
	"strconv"
	"strings"
	"sync"
	"time"

	"verif/internal/ev"
	"verif/props"
)

// Line is one report of a child (one JSON object per stdout line, prefixed by "@@").
type Line struct {
	Kind     string           `json:"k"` // violation | inconclusive | case | count | max | seen | sample | note | progress | done
	Sig      string           `json:"sig,omitempty"`
	What     string           `json:"what,omitempty"`
	Witness  json.RawMessage  `json:"w,omitempty"`
	Desc     string           `json:"d,omitempty"`
	Nontriv  bool             `json:"nt,omitempty"`
	Key      string           `json:"key,omitempty"`
	N        int64            `json:"n,omitempty"`
	Counts   map[string]int64 `json:"counts,omitempty"`
	Evals    int64            `json:"evals,omitempty"`
	Distinct int64            `json:"distinct,omitempty"`
	Sample   json.RawMessage  `json:"sample,omitempty"`
	Current  string           `json:"cur,omitempty"` // description of the case being executed (progress)
}

// Emitter is used inside a child.
type Emitter struct {
	mu  sync.Mutex
	out *bufio.Writer
}

// NewEmitter returns the emitter of a child process.
func NewEmitter() *Emitter { return &Emitter{out: bufio.NewWriterSize(os.Stdout, 1<<16)} }

// Emit writes one report line.
func (e *Emitter) Emit(l Line) {
	b, err := json.Marshal(l)
	if err != nil {
		return
	}
	e.mu.Lock()
	e.out.WriteString("@@")
	e.out.Write(b)
	e.out.WriteByte('\n')
	if l.Kind != "case" && l.Kind != "count" {
		e.out.Flush()
	}
	e.mu.Unlock()
}

// Flush flushes buffered lines.
func (e *Emitter) Flush() { e.mu.Lock(); e.out.Flush(); e.mu.Unlock() }

// Violation reports a violation.
func (e *Emitter) Violation(sig, what string, witness any) {
	w, _ := json.Marshal(witness)
	e.Emit(Line{Kind: "violation", Sig: sig, What: what, Witness: w})
}

// Case reports one case.
func (e *Emitter) Case(desc string, nontrivial bool) {
	e.Emit(Line{Kind: "case", Desc: desc, Nontriv: nontrivial})
}

// Count adds to a counter.
func (e *Emitter) Count(key string, n int64) { e.Emit(Line{Kind: "count", Key: key, N: n}) }

// Max raises a maximum.
func (e *Emitter) Max(key string, n int64) { e.Emit(Line{Kind: "max", Key: key, N: n}) }

// Seen adds a member to a set.
func (e *Emitter) Seen(set, member string) { e.Emit(Line{Kind: "seen", Key: set, What: member}) }

// Inconclusive reports an undecided case.
func (e *Emitter) Inconclusive(what string) { e.Emit(Line{Kind: "inconclusive", What: what}) }

// Sample reports an example case.
func (e *Emitter) Sample(v any) {
	b, _ := json.Marshal(v)
	e.Emit(Line{Kind: "sample", Sample: b})
}

// Progress announces the case that is about to run (used to attribute a death).
func (e *Emitter) Progress(cur string) { e.Emit(Line{Kind: "progress", Current: cur}) }

// Done marks the regular end of the child.
func (e *Emitter) Done() { e.Emit(Line{Kind: "done"}); e.Flush() }

// Opts configures Run.
type Opts struct {
	Prop     string
	Binary   string // binary to start (cfg.Self or the race build)
	Workers  int    // number of children
	Arg      func(w int) string
	Env      []string // extra environment
	Watchdog time.Duration
	// OnDeath is called when a child ends without "done": last is the last announced case.
	OnDeath func(w int, last string, stderr string, err error)
	// OnLine, if set, sees every line before default handling; return true to swallow it.
	OnLine func(w int, l *Line) bool
}

// Run starts the children and merges their reports into r.
func Run(r *ev.Run, cfg props.Cfg, o Opts) {
	if o.Watchdog == 0 {
		o.Watchdog = 15 * time.Minute
	}
	var wg sync.WaitGroup
	for w := 0; w < o.Workers; w++ {
		w := w
		wg.Add(1)
		go func() {
			defer wg.Done()
			cmd := exec.Command(o.Binary, "-prop", o.Prop, "-tier", cfg.Tier, "-seed", strconv.FormatInt(cfg.Seed, 10), "-child", o.Arg(w))
			cmd.Env = append(append(os.Environ(), "GOTRACEBACK=all"), o.Env...)
			stdout, _ := cmd.StdoutPipe()
			var stderr tailBuffer
			cmd.Stderr = &stderr
			if err := cmd.Start(); err != nil {
				r.Inconclusive("cannot start child: " + err.Error())
				return
			}
			done := false
			last := ""
			lines := make(chan struct{}, 1)
			go func() {
				sc := bufio.NewScanner(stdout)
				sc.Buffer(make([]byte, 1<<20), 1<<27)
				for sc.Scan() {
					b := sc.Bytes()
					if !bytes.HasPrefix(b, []byte("@@")) {
						continue
					}
					select {
					case lines <- struct{}{}:
					default:
					}
					var l Line
					if json.Unmarshal(b[2:], &l) != nil {
						continue
					}
					if o.OnLine != nil && o.OnLine(w, &l) {
						continue
					}
					switch l.Kind {
					case "violation":
						r.Violation(l.Sig, l.What, l.Witness)
					case "inconclusive":
						r.Inconclusive(l.What)
					case "case":
						r.Case(l.Desc, l.Nontriv)
					case "count":
						r.Count(l.Key, l.N)
					case "max":
						r.Max(l.Key, l.N)
					case "seen":
						r.Seen(l.Key, l.What)
					case "sample":
						var v any
						_ = json.Unmarshal(l.Sample, &v)
						r.Sample(v)
					case "note":
						r.Note("%s", l.What)
					case "progress":
						last = l.Current
					case "done":
						done = true
					}
				}
				close(lines)
			}()
			waitCh := make(chan error, 1)
			go func() {
				// wait for stdout to be drained before Wait (Wait closes the pipe)
				for range lines {
				}
				waitCh <- cmd.Wait()
			}()
			var werr error
			timer := time.NewTimer(o.Watchdog)
			select {
			case werr = <-waitCh:
				timer.Stop()
			case <-timer.C:
				_ = cmd.Process.Signal(os.Interrupt)
				time.Sleep(200 * time.Millisecond)
				_ = cmd.Process.Kill()
				werr = <-waitCh
				r.Inconclusive(fmt.Sprintf("watchdog: child %d did not finish within %v (last case: %s)", w, o.Watchdog, last))
				return
			}
			if done {
				return // (a race-detector build exits with status 66 after reporting races)
			}
			if o.OnDeath != nil {
				o.OnDeath(w, last, stderr.String(), werr)
			} else {
				r.Inconclusive(fmt.Sprintf("child %d ended abnormally: %v: %s", w, werr, FirstLines(stderr.String(), 3)))
			}
		}()
	}
	wg.Wait()
}

// tailBuffer keeps the first and the last part of what is written to it.
type tailBuffer struct {
	mu   sync.Mutex
	head bytes.Buffer
	tail []byte
}

func (t *tailBuffer) Write(p []byte) (int, error) {
	t.mu.Lock()
	defer t.mu.Unlock()
	if t.head.Len() < 1<<16 {
		t.head.Write(p)
	} else {
		t.tail = append(t.tail, p...)
		if len(t.tail) > 1<<16 {
			t.tail = t.tail[len(t.tail)-1<<16:]
		}
	}
	return len(p), nil
}

func (t *tailBuffer) String() string {
	t.mu.Lock()
	defer t.mu.Unlock()
	if len(t.tail) == 0 {
		return t.head.String()
	}
	return t.head.String() + "\n[...]\n" + string(t.tail)
}

// FirstLines returns the first n lines of s joined by " | ".
func FirstLines(s string, n int) string {
	ls := strings.Split(strings.TrimSpace(s), "\n")
	if len(ls) > n {
		ls = ls[:n]
	}
	return strings.Join(ls, " | ")
}

// FatalLine extracts the line announcing a panic or fatal error from a Go crash dump.
func FatalLine(stderr string) string {
	for _, l := range strings.Split(stderr, "\n") {
		if strings.HasPrefix(l, "fatal error:") || strings.HasPrefix(l, "panic:") {
			return strings.TrimSpace(l)
		}
	}
	return FirstLines(stderr, 1)
}

// PanicSite returns the innermost go-perun function of the panicking goroutine.
func PanicSite(stderr string) string {
	lines := strings.Split(stderr, "\n")
	started := false
	for _, l := range lines {
		if strings.HasPrefix(l, "goroutine ") {
			if started {
				break // only the first (panicking) goroutine
			}
			started = true
			continue
		}
		if !started {
			continue
		}
		t := strings.TrimSpace(l)
		if strings.HasPrefix(t, "perun.network/go-perun/") {
			f := strings.TrimPrefix(t, "perun.network/go-perun/")
			if i := strings.LastIndex(f, "("); i > 0 {
				f = f[:i]
			}
			return f
		}
	}
	return "unknown"
}
