// Package party builds real client.Client instances on the harness-owned boundaries: the
// scheduling bus, the strict ledger, the local watcher and a recording persister.
package party

import (
	"context"
	"fmt"
	"math/big"
	"math/rand"
	"strings"
	"sync"
	"sync/atomic"
	"time"

	simwallet "perun.network/go-perun/backend/sim/wallet"
	"perun.network/go-perun/channel"
	"perun.network/go-perun/client"
	plog "perun.network/go-perun/log"
	"perun.network/go-perun/wallet"
	"perun.network/go-perun/watcher"
	"perun.network/go-perun/watcher/local"
	"perun.network/go-perun/wire"

	"verif/internal/gen"
	"verif/internal/ledger"
	"verif/internal/recpr"
	"verif/internal/sbus"
)

func init() {
	// client's package init installs a logrus logger at warning level; the harness provokes
	// many (legitimate) warnings, so switch the library's logging off. Panics stay panics.
	plog.Set(nil)
}

// simpleWallet hands out its accounts and never deletes them.
type simpleWallet struct {
	mu   sync.Mutex
	accs map[wallet.AddrKey]*simwallet.Account
}

func (w *simpleWallet) Unlock(a wallet.Address) (wallet.Account, error) {
	w.mu.Lock()
	defer w.mu.Unlock()
	acc, ok := w.accs[wallet.Key(a)]
	if !ok {
		return nil, fmt.Errorf("unknown address")
	}
	return acc, nil
}
func (w *simpleWallet) LockAll()                      {}
func (w *simpleWallet) IncrementUsage(wallet.Address) {}
func (w *simpleWallet) DecrementUsage(wallet.Address) {}

// World is one isolated system: bus, ledger, parties.
type World struct {
	Rng     *rand.Rand
	Bus     *sbus.Bus
	Ledger  *ledger.Ledger
	Assets  []channel.Asset
	Seq     int64 // shared counter of persister events (a total order across parties)
	Parties []*Party
	stop    chan struct{}
	once    sync.Once
	// Busy counts harness-level operations in flight (Update, Settle, ...): the ledger clock
	// only moves when none is running or all of them wait for the clock.
	Busy     int64
	lastMove int64 // unix nanoseconds of the last observed movement (see QuietFor)
	// MultiWire: parties created from now on may have several wire addresses (nodes serving
	// several backends), see gen.WireAddrAny.
	MultiWire bool
}

// QuietFor tells for how long nothing has moved in the world: no envelope delivered, no persister
// event, no ledger call, no publication to a watcher (sampled every 50 ms). It separates a
// protocol that is stuck from one that is slow; wall-clock, so only used with large margins.
func (w *World) QuietFor() time.Duration {
	return time.Duration(time.Now().UnixNano() - atomic.LoadInt64(&w.lastMove))
}

func (w *World) watchMovement() {
	last := int64(-1)
	for {
		cur := atomic.LoadInt64(&w.Seq)*1000003 + w.Bus.Delivered()
		if cur != last || !w.Bus.Drained() {
			last = cur
			atomic.StoreInt64(&w.lastMove, time.Now().UnixNano())
		}
		select {
		case <-w.stop:
			return
		case <-time.After(50 * time.Millisecond):
		}
	}
}

// NewWorld creates a world with nAssets assets.
func NewWorld(rng *rand.Rand, nAssets, noise int) *World {
	w := &World{Rng: rng, Bus: sbus.New(rng.Int63(), noise), Ledger: ledger.New(), stop: make(chan struct{})}
	for i := 0; i < nAssets; i++ {
		w.Assets = append(w.Assets, gen.Asset(rng))
	}
	w.Ledger.Stamp = func() int64 { return atomic.AddInt64(&w.Seq, 1) }
	go w.Ledger.RunClock(w.stop, func() bool { return w.Bus.Drained() })
	atomic.StoreInt64(&w.lastMove, time.Now().UnixNano())
	go w.watchMovement()
	return w
}

// Abandon stops the bus and the ledger clock but does not close the clients: used for worlds in
// which requests timed out, where handler goroutines of the library may still be blocked and
// closing the channels under them is not safe.
func (w *World) Abandon() {
	w.once.Do(func() {
		close(w.stop)
		w.Bus.Close()
	})
}

// Close shuts the world down.
func (w *World) Close() {
	// Closing a client under a running handler is not safe in the library (send on a closed
	// watcher pipe), so let everything come to rest first - including what only the library's own
	// goroutines are doing: a channel with a staged update (accept sent, state not enabled yet) or
	// an enabled version not yet handed to the watcher. A world that does not come to rest is
	// abandoned instead (its goroutines are left alone).
	if !w.quiesceForClose() {
		w.Abandon()
		return
	}
	w.once.Do(func() {
		close(w.stop)
		for _, p := range w.Parties {
			_ = p.Client.Close()
		}
		w.Bus.Close()
	})
}

func (w *World) quiesceForClose() bool {
	deadline := time.Now().Add(3 * time.Second)
	stable := 0
	for {
		ok := w.Bus.Drained() && w.Ledger.Idle() && atomic.LoadInt64(&w.Busy) == 0
		if ok {
			for _, p := range w.Parties {
				if p.libraryBusy() {
					ok = false
					break
				}
			}
		}
		if ok {
			stable++
			if stable >= 5 {
				return true
			}
		} else {
			stable = 0
		}
		if time.Now().After(deadline) {
			return false
		}
		time.Sleep(100 * time.Microsecond)
	}
}

// libraryBusy tells, from the recorded persister events and publications, whether one of the
// party's channels is in the middle of something only the library's goroutines know about.
func (p *Party) libraryBusy() bool {
	last := map[channel.ID]channel.Phase{}
	newest := map[channel.ID]uint64{}
	for _, e := range p.Rec.Events() {
		if e.Kind == recpr.Removed {
			delete(last, e.ID)
			delete(newest, e.ID)
			continue
		}
		last[e.ID] = e.Phase
		if e.Kind == recpr.Enabled && e.Current.State != nil {
			newest[e.ID] = e.Current.State.Version
		}
	}
	for _, ph := range last {
		if ph == channel.InitSigning || ph == channel.Signing || ph == channel.Funding {
			return true
		}
	}
	p.mu.Lock()
	defer p.mu.Unlock()
	for id, v := range newest {
		pubs := p.published[id]
		if len(pubs) == 0 {
			continue // not watched, or the publisher was installed after this version
		}
		max := uint64(0)
		for _, x := range pubs {
			if x > max {
				max = x
			}
		}
		if max < v {
			return true
		}
	}
	return false
}

// UpdatePolicy decides about an incoming update: accept or reject, after an optional delay.
type UpdatePolicy func(cur *channel.State, u client.ChannelUpdate) (accept bool, before func())

// ProposalPolicy decides about an incoming channel proposal.
type ProposalPolicy func(p client.ChannelProposal) bool

// Party is one client with its keys and recordings.
type Party struct {
	Name    string
	W       *World
	Acc     *simwallet.Account
	Addr    wallet.Address
	WAddr   map[wallet.BackendID]wallet.Address
	Wire    map[wallet.BackendID]wire.Address
	Client  *client.Client
	Watcher *local.Watcher
	Rec     *recpr.Recorder
	Adj     *ledger.Adjudicator

	mu          sync.Mutex
	acceptNonce *client.NonceShare
	watched     map[channel.ID]bool
	published   map[channel.ID][]uint64
	pubStamp    map[channel.ID][]int64
	channels    map[channel.ID]*client.Channel
	newCh       chan *client.Channel
	OnUpdate    UpdatePolicy
	// CancelOnEnable (atomic): the party's OnUpdate notification cancels the context of the
	// request that led to the update (the update is enabled by then).
	CancelOnEnable    int32
	RequestsCancelled int64
	ctxSeq            int
	fundLag           func()
	ctxCancels        map[int]context.CancelFunc
	OnPropose   ProposalPolicy
	// ProposalsSeen records every invocation of the proposal handler.
	ProposalsSeen []client.ChannelProposal
	// UpdatesSeen counts invocations of the update handler.
	UpdatesSeen int64
	// Events are the adjudicator events handed to the client's event handler.
	Events []channel.AdjudicatorEvent
	// WatchErrs collects errors returned by Channel.Watch.
	WatchErrs []error
	// AcceptErrs collects errors of Accept calls on proposals.
	AcceptErrs []error
	// NoWatch disables starting the watcher for new channels.
	NoWatch bool
	Timeout time.Duration
}

// lagFunder lets a party's funding call return late (the deposit is on the ledger, the party's
// client learns it later - a slow node or chain connection).
type lagFunder struct {
	inner channel.Funder
	p     *Party
}

func (f *lagFunder) Fund(ctx context.Context, req channel.FundingReq) error {
	err := f.inner.Fund(ctx, req)
	f.p.mu.Lock()
	lag := f.p.fundLag
	f.p.mu.Unlock()
	if lag != nil {
		lag()
	}
	return err
}

// SetFundLag installs a function that runs after each of the party's funding calls completed and
// before the result reaches its client.
func (p *Party) SetFundLag(f func()) { p.mu.Lock(); p.fundLag = f; p.mu.Unlock() }

// NewParty creates a client with the given on-chain funds per asset.
func (w *World) NewParty(name string, funds int64) *Party {
	acc := gen.Account(w.Rng)
	b, _ := acc.Address().MarshalBinary()
	addr := new(simwallet.Address)
	if err := addr.UnmarshalBinary(b); err != nil {
		panic(err)
	}
	wireAddr := gen.WireAddr(w.Rng)
	if w.MultiWire {
		wireAddr = gen.WireAddrAny(w.Rng)
	}
	p := &Party{Name: name, W: w, Acc: acc, Addr: addr, WAddr: gen.AddrMap(addr), Wire: wireAddr,
		watched: map[channel.ID]bool{}, published: map[channel.ID][]uint64{}, pubStamp: map[channel.ID][]int64{},
		channels: map[channel.ID]*client.Channel{}, newCh: make(chan *client.Channel, 64), Timeout: 30 * time.Second}
	for _, a := range w.Assets {
		w.Ledger.Mint(addr, a, big.NewInt(funds))
	}
	wal := &simpleWallet{accs: map[wallet.AddrKey]*simwallet.Account{wallet.Key(addr): acc}}
	p.Adj = w.Ledger.NewAdjudicator(addr)
	lw, err := local.NewWatcher(p.Adj.Tagged("watcher:" + name))
	if err != nil {
		panic(err)
	}
	p.Watcher = lw
	c, err := client.New(p.Wire, w.Bus, &lagFunder{inner: w.Ledger.NewFunder(addr), p: p}, p.Adj, map[wallet.BackendID]wallet.Wallet{gen.B: wal}, &watchWrap{inner: lw, p: p})
	if err != nil {
		panic(err)
	}
	p.Client = c
	p.Rec = recpr.New(name, nil, &w.Seq)
	c.EnablePersistence(p.Rec)
	c.OnNewChannel(func(ch *client.Channel) {
		p.mu.Lock()
		p.channels[ch.ID()] = ch
		p.mu.Unlock()
		ch.OnUpdate(func(_, _ *channel.State) {
			if atomic.LoadInt32(&p.CancelOnEnable) == 1 {
				p.cancelRequests()
			}
		})
		nested := ch.Parent() != nil && ch.Parent().Parent() != nil // the local watcher handles one level of sub-channels
		if !p.NoWatch && !ch.IsVirtualChannel() && !nested {
			// until the watcher has accepted the channel the world counts as busy (closing a
			// channel while its Watch call is starting crashes inside the library)
			atomic.AddInt64(&w.Busy, 1)
			var once sync.Once
			release := func() { once.Do(func() { atomic.AddInt64(&w.Busy, -1) }) }
			go func() {
				defer release()
				p.AwaitWatched(ch.ID())
			}()
			go func() {
				defer release()
				// Watch of a sub-channel needs the parent to be watched already; the parent's
				// Watch goroutine may not have got that far yet, so retry for a while.
				for try := 0; ; try++ {
					select {
					case <-w.stop:
						return
					default:
					}
					err := ch.Watch(p)
					if err != nil && try < 2000 && strings.Contains(err.Error(), "parent channel not registered") {
						time.Sleep(100 * time.Microsecond)
						continue
					}
					if err != nil {
						p.mu.Lock()
						p.WatchErrs = append(p.WatchErrs, err)
						p.mu.Unlock()
					}
					return
				}
			}()
		}
		select {
		case p.newCh <- ch:
		default:
		}
	})
	go c.Handle(p, p)
	w.Parties = append(w.Parties, p)
	return p
}

// watchWrap delegates to the real local watcher and lets the harness know when a channel is
// watched and which versions were published to the watcher.
type watchWrap struct {
	inner *local.Watcher
	p     *Party
}

type pubWrap struct {
	inner watcher.StatesPub
	p     *Party
}

func (w *pubWrap) Publish(ctx context.Context, tx channel.Transaction) error {
	err := w.inner.Publish(ctx, tx)
	if tx.State != nil {
		w.p.mu.Lock()
		w.p.published[tx.State.ID] = append(w.p.published[tx.State.ID], tx.State.Version)
		w.p.pubStamp[tx.State.ID] = append(w.p.pubStamp[tx.State.ID], atomic.AddInt64(&w.p.W.Seq, 1))
		w.p.mu.Unlock()
	}
	return err
}

func (w *watchWrap) started(id channel.ID, pub watcher.StatesPub, sub watcher.AdjudicatorSub, err error) (watcher.StatesPub, watcher.AdjudicatorSub, error) {
	if err != nil {
		return pub, sub, err
	}
	w.p.mu.Lock()
	w.p.watched[id] = true
	w.p.mu.Unlock()
	return &pubWrap{pub, w.p}, sub, nil
}

func (w *watchWrap) StartWatchingLedgerChannel(ctx context.Context, ss channel.SignedState) (watcher.StatesPub, watcher.AdjudicatorSub, error) {
	pub, sub, err := w.inner.StartWatchingLedgerChannel(ctx, ss)
	return w.started(ss.State.ID, pub, sub, err)
}

func (w *watchWrap) StartWatchingSubChannel(ctx context.Context, parent channel.ID, ss channel.SignedState) (watcher.StatesPub, watcher.AdjudicatorSub, error) {
	pub, sub, err := w.inner.StartWatchingSubChannel(ctx, parent, ss)
	return w.started(ss.State.ID, pub, sub, err)
}

func (w *watchWrap) StopWatching(ctx context.Context, id channel.ID) error {
	return w.inner.StopWatching(ctx, id)
}

// Published returns the versions of a channel that were handed to the watcher.
func (p *Party) Published(id channel.ID) []uint64 {
	p.mu.Lock()
	defer p.mu.Unlock()
	return append([]uint64(nil), p.published[id]...)
}

// PublishedStamps returns, parallel to Published, the shared-counter stamps taken right after
// each publication returned.
func (p *Party) PublishedStamps(id channel.ID) []int64 {
	p.mu.Lock()
	defer p.mu.Unlock()
	return append([]int64(nil), p.pubStamp[id]...)
}

// AwaitWatched waits until the watcher has accepted the channel (bounded).
func (p *Party) AwaitWatched(id channel.ID) bool {
	deadline := time.Now().Add(p.Timeout)
	for {
		p.mu.Lock()
		ok := p.watched[id]
		p.mu.Unlock()
		if ok {
			// Channel.Watch installs the publisher right after StartWatching returned
			time.Sleep(300 * time.Microsecond)
			return true
		}
		if time.Now().After(deadline) {
			return false
		}
		time.Sleep(100 * time.Microsecond)
	}
}

// Ctx returns a context with the party's generous operation timeout.
func (p *Party) Ctx() (context.Context, context.CancelFunc) {
	p.mu.Lock()
	d := p.Timeout
	p.mu.Unlock()
	ctx, cancel := context.WithTimeout(context.Background(), d)
	p.mu.Lock()
	p.ctxSeq++
	k := p.ctxSeq
	if p.ctxCancels == nil {
		p.ctxCancels = map[int]context.CancelFunc{}
	}
	p.ctxCancels[k] = cancel
	p.mu.Unlock()
	return ctx, func() {
		p.mu.Lock()
		delete(p.ctxCancels, k)
		p.mu.Unlock()
		cancel()
	}
}

// cancelRequests cancels the contexts of all calls the party has in flight (a user that gives up
// its request context from inside the update notification).
func (p *Party) cancelRequests() {
	p.mu.Lock()
	var cs []context.CancelFunc
	for _, c := range p.ctxCancels {
		cs = append(cs, c)
	}
	p.mu.Unlock()
	for _, c := range cs {
		c()
	}
	atomic.AddInt64(&p.RequestsCancelled, int64(len(cs)))
}

// SetTimeout changes the patience of the party's further calls.
func (p *Party) SetTimeout(d time.Duration) { p.mu.Lock(); p.Timeout = d; p.mu.Unlock() }

// AcceptErrors returns the errors of the party's Accept calls on proposals so far.
func (p *Party) AcceptErrors() []error {
	p.mu.Lock()
	defer p.mu.Unlock()
	return append([]error(nil), p.AcceptErrs...)
}

// Channel returns the party's channel object for id.
func (p *Party) Channel(id channel.ID) *client.Channel {
	p.mu.Lock()
	defer p.mu.Unlock()
	return p.channels[id]
}

// AwaitChannelNoWatch is AwaitChannel (virtual channels are never handed to the watcher).
func (p *Party) AwaitChannelNoWatch(id channel.ID) *client.Channel { return p.AwaitChannel(id) }

// SetAcceptNonce fixes the nonce share of the party's next accept messages (nil: random).
func (p *Party) SetAcceptNonce(n *client.NonceShare) { p.mu.Lock(); p.acceptNonce = n; p.mu.Unlock() }

// AwaitChannel waits until the party's client registered the channel.
func (p *Party) AwaitChannel(id channel.ID) *client.Channel {
	deadline := time.After(p.Timeout)
	for {
		if ch := p.Channel(id); ch != nil {
			nested := ch.Parent() != nil && ch.Parent().Parent() != nil
			if !p.NoWatch && !ch.IsVirtualChannel() && !nested {
				p.AwaitWatched(id)
			}
			return ch
		}
		select {
		case <-p.newCh:
		case <-time.After(time.Millisecond):
		case <-deadline:
			return nil
		}
	}
}

// HandleAdjudicatorEvent implements client.AdjudicatorEventHandler.
func (p *Party) HandleAdjudicatorEvent(e channel.AdjudicatorEvent) {
	p.mu.Lock()
	p.Events = append(p.Events, e)
	p.mu.Unlock()
}

// HandleProposal implements client.ProposalHandler. The responder is handed to another
// goroutine (the library holds the parent channel's lock until this handler returns).
func (p *Party) HandleProposal(prop client.ChannelProposal, r *client.ProposalResponder) {
	p.mu.Lock()
	p.ProposalsSeen = append(p.ProposalsSeen, prop)
	pol := p.OnPropose
	p.mu.Unlock()
	accept := pol == nil || pol(prop)
	atomic.AddInt64(&p.W.Busy, 1)
	go func() {
		defer atomic.AddInt64(&p.W.Busy, -1)
		ctx, cancel := p.Ctx()
		defer cancel()
		if !accept {
			_ = r.Reject(ctx, "rejected by policy")
			return
		}
		var acc client.ChannelProposalAccept
		nonce := client.WithRandomNonce()
		p.mu.Lock()
		if p.acceptNonce != nil {
			nonce = client.WithNonce(*p.acceptNonce)
		}
		p.mu.Unlock()
		switch x := prop.(type) {
		case *client.LedgerChannelProposalMsg:
			acc = x.Accept(p.WAddr, nonce)
		case *client.SubChannelProposalMsg:
			acc = x.Accept(nonce)
		case *client.VirtualChannelProposalMsg:
			acc = x.Accept(p.WAddr, nonce)
		}
		if _, err := r.Accept(ctx, acc); err != nil {
			p.mu.Lock()
			p.AcceptErrs = append(p.AcceptErrs, err)
			p.mu.Unlock()
		}
	}()
}

// HandleUpdate implements client.UpdateHandler.
func (p *Party) HandleUpdate(cur *channel.State, u client.ChannelUpdate, r *client.UpdateResponder) {
	atomic.AddInt64(&p.UpdatesSeen, 1)
	atomic.AddInt64(&p.W.Busy, 1)
	defer atomic.AddInt64(&p.W.Busy, -1)
	p.mu.Lock()
	pol := p.OnUpdate
	p.mu.Unlock()
	accept := true
	var before func()
	if pol != nil {
		accept, before = pol(cur, u)
	}
	if before != nil {
		before()
	}
	ctx, cancel := p.Ctx()
	defer cancel()
	if accept {
		_ = r.Accept(ctx)
	} else {
		_ = r.Reject(ctx, "rejected by policy")
	}
}

// SetUpdatePolicy installs the update policy.
func (p *Party) SetUpdatePolicy(pol UpdatePolicy) { p.mu.Lock(); p.OnUpdate = pol; p.mu.Unlock() }

// SetProposalPolicy installs the proposal policy.
func (p *Party) SetProposalPolicy(pol ProposalPolicy) { p.mu.Lock(); p.OnPropose = pol; p.mu.Unlock() }

// Proposals returns the proposals the handler has seen.
func (p *Party) Proposals() []client.ChannelProposal {
	p.mu.Lock()
	defer p.mu.Unlock()
	return append([]client.ChannelProposal(nil), p.ProposalsSeen...)
}

// OpenLedgerChannel lets p propose a ledger channel to q with the given initial balances
// ([asset][participant], p is participant 0).
func (p *Party) OpenLedgerChannel(q *Party, bals [][]int64, dur uint64, opts ...client.ProposalOpts) (*client.Channel, error) {
	alloc := channel.NewAllocation(2, backends(len(p.W.Assets)), append([]channel.Asset(nil), p.W.Assets...)...)
	for a := range bals {
		for i := range bals[a] {
			alloc.Balances[a][i] = big.NewInt(bals[a][i])
		}
	}
	prop, err := client.NewLedgerChannelProposal(dur, p.WAddr, alloc, []map[wallet.BackendID]wire.Address{p.Wire, q.Wire}, opts...)
	if err != nil {
		return nil, err
	}
	ctx, cancel := p.Ctx()
	defer cancel()
	return p.Client.ProposeChannel(ctx, prop)
}

func backends(n int) []wallet.BackendID {
	b := make([]wallet.BackendID, n)
	for i := range b {
		b[i] = gen.B
	}
	return b
}

// OpenSubChannel lets p (participant 0 of parent) propose a sub-channel.
func (p *Party) OpenSubChannel(parent *client.Channel, bals [][]int64, dur uint64, opts ...client.ProposalOpts) (*client.Channel, error) {
	alloc := channel.NewAllocation(2, backends(len(p.W.Assets)), append([]channel.Asset(nil), p.W.Assets...)...)
	for a := range bals {
		for i := range bals[a] {
			alloc.Balances[a][i] = big.NewInt(bals[a][i])
		}
	}
	prop, err := client.NewSubChannelProposal(parent.ID(), dur, alloc, opts...)
	if err != nil {
		return nil, err
	}
	ctx, cancel := p.Ctx()
	defer cancel()
	return p.Client.ProposeChannel(ctx, prop)
}

// Pay transfers amount of asset a from the caller to the peer in ch.
func (p *Party) Pay(ch *client.Channel, a int, amount int64, final bool) error {
	ctx, cancel := p.Ctx()
	defer cancel()
	me := int(ch.Idx())
	return ch.Update(ctx, func(s *channel.State) {
		s.Balances[a][me] = new(big.Int).Sub(s.Balances[a][me], big.NewInt(amount))
		s.Balances[a][1-me] = new(big.Int).Add(s.Balances[a][1-me], big.NewInt(amount))
		if final {
			s.IsFinal = true
		}
	})
}

// Quiesce waits until the bus is drained and the ledger idle (bounded; returns false on watchdog).
func (w *World) Quiesce() bool { return w.QuiesceBusy(0) }

// QuiesceFor is Quiesce with a short patience.
func (w *World) QuiesceFor(d time.Duration) bool {
	deadline := time.Now().Add(d)
	stable := 0
	for {
		if w.Bus.Drained() && w.Ledger.Idle() && atomic.LoadInt64(&w.Busy) == 0 {
			stable++
			if stable >= 5 {
				return true
			}
		} else {
			stable = 0
		}
		if time.Now().After(deadline) {
			return false
		}
		time.Sleep(100 * time.Microsecond)
	}
}

// QuiesceBusy is Quiesce for callers that run inside a handler themselves: allowed is the number
// of handler invocations that may be in flight.
func (w *World) QuiesceBusy(allowed int64) bool {
	deadline := time.Now().Add(20 * time.Second)
	stable := 0
	for {
		if w.Bus.Drained() && w.Ledger.Idle() && atomic.LoadInt64(&w.Busy) <= allowed {
			stable++
			if stable >= 5 {
				return true
			}
		} else {
			stable = 0
		}
		if time.Now().After(deadline) {
			return false
		}
		time.Sleep(100 * time.Microsecond)
	}
}
