// Package ptrgraph walks the memory reachable from a value (including unexported fields) to
// find mutable memory shared between two values and to scribble over every leaf of one value.
package ptrgraph

import (
	"fmt"
	"reflect"
	"unsafe"
)

// Skip decides whether a field/element is part of the documented shared set and must not be
// followed. path is the access path, t the static type at that position.
type Skip func(path string, t reflect.Type) bool

type visitKey struct {
	addr uintptr
	t    reflect.Type
}

type walker struct {
	skip    Skip
	regions map[uintptr]string // address of a mutable memory region -> path
	seen    map[visitKey]bool
	scrib   bool
	leaves  int
}

// Regions returns the addresses of all mutable memory regions reachable from root (a non-nil
// pointer): backing arrays of non-empty slices, maps, and pointed-to non-zero-size values.
func Regions(root any, skip Skip) map[uintptr]string {
	w := &walker{skip: skip, regions: map[uintptr]string{}, seen: map[visitKey]bool{}}
	w.walk(reflect.ValueOf(root), "")
	return w.regions
}

// Scribble modifies, in place, every leaf reachable from root (a non-nil pointer): every
// integer-like slice element and array element is bit-flipped, every scalar field changed,
// every map emptied. It returns the number of leaves modified.
func Scribble(root any, skip Skip) int {
	w := &walker{skip: skip, regions: map[uintptr]string{}, seen: map[visitKey]bool{}, scrib: true}
	w.walk(reflect.ValueOf(root), "")
	return w.leaves
}

// Shared returns the paths of memory regions reachable from both a and b.
func Shared(a, b any, skip Skip) []string {
	ra, rb := Regions(a, skip), Regions(b, skip)
	var out []string
	for addr, pa := range ra {
		if pb, ok := rb[addr]; ok {
			out = append(out, fmt.Sprintf("%s <-> %s", pa, pb))
		}
	}
	return out
}

func access(v reflect.Value) reflect.Value {
	if v.CanInterface() || !v.CanAddr() {
		return v
	}
	return reflect.NewAt(v.Type(), unsafe.Pointer(v.UnsafeAddr())).Elem()
}

func (w *walker) walk(v reflect.Value, path string) {
	if !v.IsValid() {
		return
	}
	v = access(v)
	t := v.Type()
	if w.skip != nil && path != "" && w.skip(path, t) {
		return
	}
	switch t.Kind() {
	case reflect.Ptr:
		if v.IsNil() || t.Elem().Size() == 0 {
			return
		}
		k := visitKey{v.Pointer(), t}
		if w.seen[k] {
			return
		}
		w.seen[k] = true
		w.regions[v.Pointer()] = path + "(*" + t.Elem().String() + ")"
		w.walk(v.Elem(), path+"*")
	case reflect.Interface:
		if v.IsNil() {
			return
		}
		e := v.Elem()
		if e.Kind() == reflect.Ptr || e.Kind() == reflect.Map || e.Kind() == reflect.Slice {
			w.walk(e, path)
			return
		}
		// a non-pointer value inside an interface lives in memory owned by the interface;
		// copy it to something addressable to look inside (cannot be scribbled in place)
		c := reflect.New(e.Type()).Elem()
		c.Set(e)
		sc := w.scrib
		w.scrib = false
		w.walk(c, path)
		w.scrib = sc
	case reflect.Slice:
		if v.IsNil() || v.Cap() == 0 || t.Elem().Size() == 0 {
			return
		}
		k := visitKey{v.Pointer(), t}
		if !w.seen[k] {
			w.regions[v.Pointer()] = path + "[]"
		}
		w.seen[k] = true
		for i := 0; i < v.Len(); i++ {
			w.walk(v.Index(i), fmt.Sprintf("%s[%d]", path, i))
		}
	case reflect.Array:
		for i := 0; i < v.Len(); i++ {
			w.walk(v.Index(i), fmt.Sprintf("%s[%d]", path, i))
		}
	case reflect.Map:
		if v.IsNil() {
			return
		}
		k := visitKey{v.Pointer(), t}
		if w.seen[k] {
			return
		}
		w.seen[k] = true
		w.regions[v.Pointer()] = path + "(map)"
		keys := v.MapKeys()
		for _, key := range keys {
			w.walk(v.MapIndex(key), fmt.Sprintf("%s[%v]", path, key))
		}
		if w.scrib && v.CanSet() || w.scrib && v.CanInterface() {
			for _, key := range keys {
				v.SetMapIndex(key, reflect.Value{})
				w.leaves++
			}
		}
	case reflect.Struct:
		for i := 0; i < t.NumField(); i++ {
			w.walk(v.Field(i), path+"."+t.Field(i).Name)
		}
	default:
		if !w.scrib || !v.CanSet() {
			return
		}
		switch t.Kind() {
		case reflect.Bool:
			v.SetBool(!v.Bool())
		case reflect.Int, reflect.Int8, reflect.Int16, reflect.Int32, reflect.Int64:
			v.SetInt(v.Int() ^ 1)
		case reflect.Uint, reflect.Uint8, reflect.Uint16, reflect.Uint32, reflect.Uint64, reflect.Uintptr:
			v.SetUint(v.Uint() ^ 1)
		case reflect.String:
			v.SetString(v.String() + "!")
		default:
			return
		}
		w.leaves++
	}
}
