// Package ledger is the strict reference ledger of the harness: a funder and adjudicator that
// verifies what a real adjudicator verifies (signatures, versions, challenge period, conservation)
// on a logical clock, logs every call and exposes idleness so that the harness can advance the
// clock without sleeping. It implements only go-perun's injectable interfaces.
package ledger

import (
	"context"
	"fmt"
	"math/big"
	"sync"
	"time"

	"perun.network/go-perun/channel"
	"perun.network/go-perun/wallet"
)

// Call is one logged ledger call.
type Call struct {
	Seq     int
	Time    int64 // logical time
	Method  string
	Account string
	Channel channel.ID
	Version uint64
	SubVers map[channel.ID]uint64
	Err     string
	// Idle: the call was refused only because it would not have changed anything (strict mode).
	Idle bool
	// OnBehalf is set by the harness for calls it makes itself (the adversary).
	Adversary bool
	// Stamp orders the call among other harness-observed events (see Ledger.Stamp).
	Stamp int64
}

func (c Call) String() string {
	s := fmt.Sprintf("#%d t=%d %s(ch %x v%d", c.Seq, c.Time, c.Method, c.Channel[:3], c.Version)
	for id, v := range c.SubVers {
		s += fmt.Sprintf(", sub %x v%d", id[:3], v)
	}
	s += ")"
	if c.Adversary {
		s += " [adversary]"
	}
	if c.Err != "" {
		s += " -> " + c.Err
	}
	return s
}

type registration struct {
	state   *channel.State
	sigs    []wallet.Sig
	params  *channel.Params
	timeout int64
}

type chanState struct {
	params    *channel.Params
	nAssets   int
	assets    []channel.Asset
	funded    [][]*big.Int // [asset][participant] amounts paid in
	fundedBy  []bool
	holdings  []*big.Int // per asset
	reg       *registration
	concluded bool
	conclVer  uint64
	outcome   [][]*big.Int
	withdrawn []bool
	allFunded chan struct{}
}

// Ledger is the strict reference ledger.
type Ledger struct {
	mu       sync.Mutex
	clock    int64
	balances map[string]map[string]*big.Int // account -> asset -> balance
	chans    map[channel.ID]*chanState
	subs     map[channel.ID][]*Subscription
	latest   map[channel.ID]channel.AdjudicatorEvent
	calls    []Call
	inflight int
	waiting  int // goroutines inside Timeout.Wait
	waitAt   []int64
	wake     chan struct{} // closed and replaced on every clock change
	// Stamp, if set, returns the next value of a counter shared with other observers, so that
	// ledger events can be ordered against e.g. publications to the watcher.
	Stamp      func() int64
	waits      []WaitRecord
	deliveries []DeliveryRecord
	hold       func(cause Call, e channel.AdjudicatorEvent) bool
	refuseIdle bool
	held       []heldEvent
	cause      Call // the call being executed (valid while l.mu is held by Register/Withdraw)
	// Complaints are things a ledger call did that an honest client must never do
	// (e.g. a register call with an invalid signature). The checks decide who made the call.
	changed chan struct{}
}

// New creates an empty ledger.
func New() *Ledger {
	return &Ledger{
		balances: map[string]map[string]*big.Int{},
		chans:    map[channel.ID]*chanState{},
		subs:     map[channel.ID][]*Subscription{},
		latest:   map[channel.ID]channel.AdjudicatorEvent{},
		wake:     make(chan struct{}),
		clock:    1,
	}
}

func key(m interface{ MarshalBinary() ([]byte, error) }) string {
	b, err := m.MarshalBinary()
	if err != nil {
		panic(err)
	}
	return string(b)
}

// Mint gives an account an initial balance.
func (l *Ledger) Mint(acc wallet.Address, asset channel.Asset, amount *big.Int) {
	l.mu.Lock()
	defer l.mu.Unlock()
	l.add(key(acc), key(asset), amount)
}

func (l *Ledger) add(acc, asset string, amount *big.Int) {
	m := l.balances[acc]
	if m == nil {
		m = map[string]*big.Int{}
		l.balances[acc] = m
	}
	if m[asset] == nil {
		m[asset] = new(big.Int)
	}
	m[asset].Add(m[asset], amount)
}

// Balance returns an account's balance.
func (l *Ledger) Balance(acc wallet.Address, asset channel.Asset) *big.Int {
	l.mu.Lock()
	defer l.mu.Unlock()
	if b := l.balances[key(acc)][key(asset)]; b != nil {
		return new(big.Int).Set(b)
	}
	return new(big.Int)
}

// Holdings returns what the ledger holds for a channel per asset (nil if unknown).
func (l *Ledger) Holdings(id channel.ID) []*big.Int {
	l.mu.Lock()
	defer l.mu.Unlock()
	c := l.chans[id]
	if c == nil {
		return nil
	}
	out := make([]*big.Int, len(c.holdings))
	for i, h := range c.holdings {
		out[i] = new(big.Int).Set(h)
	}
	return out
}

// Funded returns what participant idx paid into the channel per asset.
func (l *Ledger) Funded(id channel.ID, idx int) []*big.Int {
	l.mu.Lock()
	defer l.mu.Unlock()
	c := l.chans[id]
	if c == nil {
		return nil
	}
	out := make([]*big.Int, c.nAssets)
	for a := range out {
		out[a] = new(big.Int).Set(c.funded[a][idx])
	}
	return out
}

// Registered returns the registered version and timeout of a channel.
func (l *Ledger) Registered(id channel.ID) (version uint64, timeout int64, ok bool) {
	l.mu.Lock()
	defer l.mu.Unlock()
	c := l.chans[id]
	if c == nil || c.reg == nil {
		return 0, 0, false
	}
	return c.reg.state.Version, c.reg.timeout, true
}

// Concluded tells whether the channel was concluded and with which version.
func (l *Ledger) Concluded(id channel.ID) (uint64, bool) {
	l.mu.Lock()
	defer l.mu.Unlock()
	c := l.chans[id]
	if c == nil {
		return 0, false
	}
	return c.conclVer, c.concluded
}

// Calls returns a copy of the call log.
func (l *Ledger) Calls() []Call {
	l.mu.Lock()
	defer l.mu.Unlock()
	return append([]Call(nil), l.calls...)
}

// Now returns the logical time.
func (l *Ledger) Now() int64 {
	l.mu.Lock()
	defer l.mu.Unlock()
	return l.clock
}

// WaitRecord notes that a subscriber of a channel finished what it was doing and blocked in Next.
type WaitRecord struct {
	ID    channel.ID
	Stamp int64
	Tag   string // tag of the adjudicator handle the subscription was made through
}

// DeliveryRecord notes that Next handed an event to a subscriber.
type DeliveryRecord struct {
	ID         channel.ID
	Stamp      int64
	Tag        string
	Registered bool   // a RegisteredEvent
	Version    uint64 // its version
}

// Deliveries returns the record of events handed to subscribers.
func (l *Ledger) Deliveries() []DeliveryRecord {
	l.mu.Lock()
	defer l.mu.Unlock()
	return append([]DeliveryRecord(nil), l.deliveries...)
}

// SetHold installs a filter for newly emitted events: events for which it returns true are kept
// back (as on a chain whose events arrive with block latency) until ReleaseHeld; nil removes it.
// cause is the call that produced the event.
func (l *Ledger) SetHold(f func(cause Call, e channel.AdjudicatorEvent) bool) {
	l.mu.Lock()
	l.hold = f
	l.mu.Unlock()
}

// ReleaseHeld removes the hold filter and delivers the held events in their original order.
func (l *Ledger) ReleaseHeld() int {
	l.mu.Lock()
	defer l.mu.Unlock()
	l.hold = nil
	n := len(l.held)
	for _, h := range l.held {
		l.deliver(h.id, h.e)
	}
	l.held = nil
	return n
}

// Held returns the number of events kept back.
func (l *Ledger) Held() int {
	l.mu.Lock()
	defer l.mu.Unlock()
	return len(l.held)
}

type heldEvent struct {
	id channel.ID
	e  channel.AdjudicatorEvent
}

// Waits returns the record of subscribers going back to waiting.
func (l *Ledger) Waits() []WaitRecord {
	l.mu.Lock()
	defer l.mu.Unlock()
	return append([]WaitRecord(nil), l.waits...)
}

func (l *Ledger) stamp() int64 {
	if l.Stamp != nil {
		return l.Stamp()
	}
	return 0
}

func (l *Ledger) logCall(c Call) {
	c.Seq = len(l.calls)
	c.Stamp = l.stamp()
	c.Time = l.clock
	l.calls = append(l.calls, c)
}

func (l *Ledger) enter() { l.mu.Lock(); l.inflight++; l.mu.Unlock() }
func (l *Ledger) leave() { l.mu.Lock(); l.inflight--; l.mu.Unlock() }

// ---------------------------------------------------------------------------------------------
// clock and idleness

// Idle tells whether no call is in flight, every subscription's queue is empty and every
// subscriber is either blocked in Next or waiting for a timeout.
func (l *Ledger) Idle() bool {
	l.mu.Lock()
	defer l.mu.Unlock()
	return l.idleLocked()
}

func (l *Ledger) idleLocked() bool {
	if l.inflight != 0 {
		return false
	}
	busy := 0
	for _, ss := range l.subs {
		for _, s := range ss {
			switch {
			case s.inNext && len(s.queue) != 0:
				return false // about to wake up
			case !s.inNext:
				// handling an event, waiting for a timeout, or no longer reading (a client that
				// has seen the one event it wanted leaves later events in the queue)
				busy++
			}
		}
	}
	return busy <= l.waiting
}

// Waiters returns the number of goroutines blocked in Timeout.Wait and the earliest target.
func (l *Ledger) Waiters() (n int, earliest int64) {
	l.mu.Lock()
	defer l.mu.Unlock()
	earliest = -1
	for _, t := range l.waitAt {
		if earliest < 0 || t < earliest {
			earliest = t
		}
	}
	return l.waiting, earliest
}

// Advance moves the logical clock to t (if later than now).
func (l *Ledger) Advance(t int64) {
	l.mu.Lock()
	if t > l.clock {
		l.clock = t
		close(l.wake)
		l.wake = make(chan struct{})
	}
	l.mu.Unlock()
}

// Timeout is a timeout on the ledger's logical clock.
type Timeout struct {
	l  *Ledger
	At int64
}

// IsElapsed implements channel.Timeout.
func (t *Timeout) IsElapsed(context.Context) bool { return t.l.Now() >= t.At }

// Wait implements channel.Timeout.
func (t *Timeout) Wait(ctx context.Context) error {
	l := t.l
	l.mu.Lock()
	l.waiting++
	l.waitAt = append(l.waitAt, t.At)
	defer func() {
		l.mu.Lock()
		l.waiting--
		for i, a := range l.waitAt {
			if a == t.At {
				l.waitAt = append(l.waitAt[:i], l.waitAt[i+1:]...)
				break
			}
		}
		l.mu.Unlock()
	}()
	for l.clock < t.At {
		w := l.wake
		l.mu.Unlock()
		select {
		case <-w:
		case <-ctx.Done():
			return ctx.Err()
		}
		l.mu.Lock()
	}
	l.mu.Unlock()
	return nil
}

func (t *Timeout) String() string { return fmt.Sprintf("<ledger time %d>", t.At) }

// RunClock advances the clock to the earliest awaited timeout whenever somebody waits and the
// ledger (and, through extraIdle, the rest of the system) is idle. It returns when stop closes.
// Polling here only paces the harness; no verdict depends on it.
func (l *Ledger) RunClock(stop <-chan struct{}, extraIdle func() bool) {
	stable := 0
	for {
		select {
		case <-stop:
			return
		default:
		}
		n, at := l.Waiters()
		if n > 0 && l.Idle() && (extraIdle == nil || extraIdle()) {
			stable++
			if stable >= 3 {
				l.Advance(at)
				stable = 0
			}
		} else {
			stable = 0
		}
		if n == 0 {
			time.Sleep(time.Millisecond) // nobody waits for the clock
			continue
		}
		time.Sleep(150 * time.Microsecond)
	}
}

// ---------------------------------------------------------------------------------------------
// subscriptions

// Subscription is an adjudicator event subscription.
type Subscription struct {
	l      *Ledger
	id     channel.ID
	tag    string
	queue  []channel.AdjudicatorEvent
	inNext bool
	closed bool
	sig    chan struct{}
}

// Subscribe implements channel.EventSubscriber: a new subscriber first gets the latest event.
func (l *Ledger) Subscribe(ctx context.Context, id channel.ID) (channel.AdjudicatorSubscription, error) {
	return l.subscribe(id, "")
}

// Subscribe implements channel.EventSubscriber; the subscription carries the handle's tag.
func (a *Adjudicator) Subscribe(_ context.Context, id channel.ID) (channel.AdjudicatorSubscription, error) {
	return a.Ledger.subscribe(id, a.Tag)
}

func (l *Ledger) subscribe(id channel.ID, tag string) (channel.AdjudicatorSubscription, error) {
	l.mu.Lock()
	defer l.mu.Unlock()
	s := &Subscription{l: l, id: id, tag: tag, sig: make(chan struct{}, 1)}
	if e, ok := l.latest[id]; ok {
		s.queue = append(s.queue, e)
	}
	l.subs[id] = append(l.subs[id], s)
	return s, nil
}

// Next implements channel.AdjudicatorSubscription.
func (s *Subscription) Next() channel.AdjudicatorEvent {
	l := s.l
	l.mu.Lock()
	for {
		if len(s.queue) > 0 {
			e := s.queue[0]
			s.queue = s.queue[1:]
			s.inNext = false
			d := DeliveryRecord{ID: s.id, Stamp: l.stamp(), Tag: s.tag}
			if re, ok := e.(*channel.RegisteredEvent); ok {
				d.Registered, d.Version = true, re.Version()
			}
			l.deliveries = append(l.deliveries, d)
			l.mu.Unlock()
			return e
		}
		if s.closed {
			s.inNext = false
			l.mu.Unlock()
			return nil
		}
		if !s.inNext {
			l.waits = append(l.waits, WaitRecord{s.id, l.stamp(), s.tag})
		}
		s.inNext = true
		l.mu.Unlock()
		<-s.sig
		l.mu.Lock()
	}
}

// Err implements channel.AdjudicatorSubscription.
func (s *Subscription) Err() error { return nil }

// Close implements channel.AdjudicatorSubscription.
func (s *Subscription) Close() error {
	l := s.l
	l.mu.Lock()
	if !s.closed {
		s.closed = true
		ss := l.subs[s.id]
		for i, x := range ss {
			if x == s {
				l.subs[s.id] = append(ss[:i:i], ss[i+1:]...)
				break
			}
		}
	}
	l.mu.Unlock()
	select {
	case s.sig <- struct{}{}:
	default:
	}
	return nil
}

func (l *Ledger) emit(id channel.ID, e channel.AdjudicatorEvent) {
	if l.hold != nil && l.hold(l.cause, e) {
		l.held = append(l.held, heldEvent{id, e})
		return
	}
	l.deliver(id, e)
}

func (l *Ledger) deliver(id channel.ID, e channel.AdjudicatorEvent) {
	l.latest[id] = e
	for _, s := range l.subs[id] {
		s.queue = append(s.queue, e)
		select {
		case s.sig <- struct{}{}:
		default:
		}
	}
}

// ---------------------------------------------------------------------------------------------
// funding

// Funder is a channel.Funder bound to an on-chain account.
type Funder struct {
	l   *Ledger
	acc wallet.Address
}

// NewFunder returns a funder paying from acc.
func (l *Ledger) NewFunder(acc wallet.Address) *Funder { return &Funder{l, acc} }

func (l *Ledger) channelFor(p *channel.Params, st *channel.State) *chanState {
	c := l.chans[p.ID()]
	if c == nil {
		n := len(p.Parts)
		c = &chanState{params: p, nAssets: len(st.Assets), assets: st.Assets, fundedBy: make([]bool, n), withdrawn: make([]bool, n), allFunded: make(chan struct{})}
		c.funded = make([][]*big.Int, c.nAssets)
		c.holdings = make([]*big.Int, c.nAssets)
		for a := range c.funded {
			c.holdings[a] = new(big.Int)
			c.funded[a] = make([]*big.Int, n)
			for i := range c.funded[a] {
				c.funded[a][i] = new(big.Int)
			}
		}
		l.chans[p.ID()] = c
	}
	return c
}

// Fund implements channel.Funder.
func (f *Funder) Fund(ctx context.Context, req channel.FundingReq) error {
	l := f.l
	l.enter()
	l.mu.Lock()
	call := Call{Method: "Fund", Account: f.acc.String(), Channel: req.Params.ID()}
	err := func() error {
		if req.Params.ID() != req.State.ID {
			return fmt.Errorf("state does not belong to the parameters")
		}
		n := len(req.Params.Parts)
		if int(req.Idx) >= n {
			return fmt.Errorf("participant index out of range")
		}
		if len(req.Agreement) != len(req.State.Assets) {
			return fmt.Errorf("funding agreement has %d rows for %d assets", len(req.Agreement), len(req.State.Assets))
		}
		c := l.channelFor(req.Params, req.State)
		if c.fundedBy[req.Idx] {
			return fmt.Errorf("participant %d funded twice", req.Idx)
		}
		acc := key(f.acc)
		for a, row := range req.Agreement {
			if len(row) != n || row[req.Idx].Sign() < 0 {
				return fmt.Errorf("malformed funding agreement")
			}
			have := l.balances[acc][key(req.State.Assets[a])]
			if have == nil || have.Cmp(row[req.Idx]) < 0 {
				return fmt.Errorf("overdraft: account has %v of asset %d, funding needs %v", have, a, row[req.Idx])
			}
		}
		for a, row := range req.Agreement {
			l.add(acc, key(req.State.Assets[a]), new(big.Int).Neg(row[req.Idx]))
			c.funded[a][req.Idx].Add(c.funded[a][req.Idx], row[req.Idx])
			c.holdings[a].Add(c.holdings[a], row[req.Idx])
		}
		c.fundedBy[req.Idx] = true
		all := true
		for _, b := range c.fundedBy {
			all = all && b
		}
		if all {
			close(c.allFunded)
		}
		return nil
	}()
	if err != nil {
		call.Err = err.Error()
	}
	l.logCall(call)
	var done chan struct{}
	if c := l.chans[req.Params.ID()]; c != nil {
		done = c.allFunded
	}
	l.mu.Unlock()
	l.leave()
	if err != nil {
		return err
	}
	select {
	case <-done:
		return nil
	case <-ctx.Done():
		return channel.NewFundingTimeoutError([]*channel.AssetFundingError{{Asset: 0, TimedOutPeers: []channel.Index{0}}})
	}
}

// ---------------------------------------------------------------------------------------------
// adjudication

// Adjudicator is a channel.Adjudicator bound to an on-chain account.
type Adjudicator struct {
	*Ledger
	acc       wallet.Address
	adversary bool
	// Tag marks the subscriptions made through this handle (e.g. "watcher:A").
	Tag string
}

// Tagged returns a handle for the same account whose subscriptions carry tag.
func (a *Adjudicator) Tagged(tag string) *Adjudicator {
	return &Adjudicator{Ledger: a.Ledger, acc: a.acc, adversary: a.adversary, Tag: tag}
}

// NewAdjudicator returns an adjudicator paying out to acc.
func (l *Ledger) NewAdjudicator(acc wallet.Address) *Adjudicator {
	return &Adjudicator{Ledger: l, acc: acc}
}

// NewAdversaryAdjudicator is like NewAdjudicator but marks its calls in the log.
func (l *Ledger) NewAdversaryAdjudicator(acc wallet.Address) *Adjudicator {
	return &Adjudicator{Ledger: l, acc: acc, adversary: true}
}

func verifySigned(p *channel.Params, st *channel.State, sigs []wallet.Sig) error {
	if st == nil || p == nil {
		return fmt.Errorf("missing state or parameters")
	}
	if p.ID() != st.ID {
		return fmt.Errorf("state %x does not belong to parameters %x", st.ID[:3], p.ID())
	}
	if err := st.Valid(); err != nil {
		return fmt.Errorf("invalid allocation: %v", err)
	}
	if len(sigs) != len(p.Parts) {
		return fmt.Errorf("%d signatures for %d participants", len(sigs), len(p.Parts))
	}
	for i, s := range sigs {
		if s == nil {
			return fmt.Errorf("signature %d missing", i)
		}
		for _, a := range p.Parts[i] {
			ok, err := channel.Verify(a, st, s)
			if err != nil || !ok {
				return fmt.Errorf("signature %d invalid", i)
			}
		}
	}
	return nil
}

// Register implements channel.Registerer.
func (a *Adjudicator) Register(_ context.Context, req channel.AdjudicatorReq, subs []channel.SignedState) error {
	l := a.Ledger
	l.enter()
	defer l.leave()
	l.mu.Lock()
	defer l.mu.Unlock()
	call := Call{Method: "Register", Account: a.acc.String(), Channel: req.Tx.ID, Version: req.Tx.Version, SubVers: map[channel.ID]uint64{}, Adversary: a.adversary}
	for _, s := range subs {
		if s.State != nil {
			call.SubVers[s.State.ID] = s.State.Version
		}
	}
	l.cause = call
	err := l.register(req, subs)
	if err != nil {
		call.Err = err.Error()
		call.Idle = err == errIdle
	}
	l.logCall(call)
	return err
}

var errIdle = fmt.Errorf("nothing to register: every given state is registered already or its channel is concluded")

// RefuseIdleRegistrations makes the ledger refuse, like adjudicators that only accept refutations,
// a Register call that would change nothing (same versions as registered, or concluded channels).
func (l *Ledger) RefuseIdleRegistrations() { l.mu.Lock(); l.refuseIdle = true; l.mu.Unlock() }

func (l *Ledger) register(req channel.AdjudicatorReq, subs []channel.SignedState) error {
	if req.Tx.State == nil {
		return fmt.Errorf("no state")
	}
	all := []channel.SignedState{{Params: req.Params, State: req.Tx.State, Sigs: req.Tx.Sigs}}
	byID := map[channel.ID]channel.SignedState{}
	for _, s := range subs {
		if s.State == nil {
			return fmt.Errorf("empty sub-channel state")
		}
		byID[s.State.ID] = s
	}
	// every locked sub-allocation needs its sub-channel state (recursively), with matching totals
	var walk func(st *channel.State) error
	used := map[channel.ID]bool{}
	walk = func(st *channel.State) error {
		for _, la := range st.Locked {
			s, ok := byID[la.ID]
			if !ok {
				return fmt.Errorf("state of locked sub-channel %x missing", la.ID[:3])
			}
			if used[la.ID] {
				return fmt.Errorf("sub-channel %x locked twice", la.ID[:3])
			}
			used[la.ID] = true
			tot := s.State.Allocation.Sum()
			if len(tot) != len(la.Bals) {
				return fmt.Errorf("sub-channel %x has other assets", la.ID[:3])
			}
			for i := range tot {
				if tot[i].Cmp(la.Bals[i]) != 0 {
					return fmt.Errorf("sub-channel %x holds %v of asset %d but %v are locked for it", la.ID[:3], tot[i], i, la.Bals[i])
				}
			}
			all = append(all, s)
			if err := walk(s.State); err != nil {
				return err
			}
		}
		return nil
	}
	if err := walk(req.Tx.State); err != nil {
		return err
	}
	if len(used) != len(byID) {
		return fmt.Errorf("%d sub-channel states given, %d locked", len(byID), len(used))
	}
	for _, s := range all {
		if err := verifySigned(s.Params, s.State, s.Sigs); err != nil {
			return fmt.Errorf("channel %x: %v", s.State.ID[:3], err)
		}
	}
	// version rules, per channel; all or nothing
	type upd struct {
		c *chanState
		s channel.SignedState
	}
	var updates []upd
	for _, s := range all {
		c := l.chans[s.State.ID]
		if c == nil {
			// sub-channels are funded off-chain: the ledger learns about them here
			c = l.channelFor(s.Params, s.State)
		}
		if c.concluded {
			continue
		}
		switch {
		case c.reg == nil:
			updates = append(updates, upd{c, s})
		case s.State.Version < c.reg.state.Version:
			return fmt.Errorf("channel %x: version %d is older than the registered version %d", s.State.ID[:3], s.State.Version, c.reg.state.Version)
		case s.State.Version == c.reg.state.Version:
			// re-registration of the registered version: accepted no-op
		default:
			if l.clock >= c.reg.timeout {
				return fmt.Errorf("channel %x: refutation after the challenge period ended", s.State.ID[:3])
			}
			updates = append(updates, upd{c, s})
		}
	}
	if l.refuseIdle && len(updates) == 0 {
		return errIdle
	}
	for _, u := range updates {
		to := l.clock + int64(u.s.Params.ChallengeDuration)
		u.c.reg = &registration{state: u.s.State.Clone(), sigs: u.s.Sigs, params: u.s.Params, timeout: to}
		l.emit(u.s.State.ID, channel.NewRegisteredEvent(u.s.State.ID, &Timeout{l, to}, u.s.State.Version, u.s.State.Clone(), u.s.Sigs))
	}
	return nil
}

// Progress implements channel.Progresser (not part of the scenarios: refused).
func (a *Adjudicator) Progress(context.Context, channel.ProgressReq) error {
	return fmt.Errorf("reference ledger: on-chain progression is not scripted")
}

func sameState(a, b *channel.State) bool { return a != nil && b != nil && a.Equal(b) == nil }

// Withdraw implements channel.Withdrawer.
func (a *Adjudicator) Withdraw(ctx context.Context, req channel.AdjudicatorReq, subStates channel.StateMap) error {
	l := a.Ledger
	// Like a real adjudicator backend, Withdraw waits for the end of the challenge period of a
	// registered channel before it concludes (the client does not wait itself when it learnt
	// about the registration from the watcher).
	for {
		l.mu.Lock()
		at := int64(-1)
		if st := req.Tx.State; st != nil {
			if c := l.chans[st.ID]; c != nil && !c.concluded && c.reg != nil && l.clock < c.reg.timeout {
				at = c.reg.timeout
			}
			if at < 0 {
				for id := range subStates {
					if c := l.chans[id]; c != nil && !c.concluded && c.reg != nil && l.clock < c.reg.timeout {
						at = c.reg.timeout
					}
				}
			}
		}
		l.mu.Unlock()
		if at < 0 {
			break
		}
		if err := (&Timeout{l, at}).Wait(ctx); err != nil {
			return fmt.Errorf("waiting for the end of the challenge period: %v", err)
		}
	}
	l.enter()
	defer l.leave()
	l.mu.Lock()
	defer l.mu.Unlock()
	call := Call{Method: "Withdraw", Account: a.acc.String(), Channel: req.Tx.ID, Version: req.Tx.Version, SubVers: map[channel.ID]uint64{}, Adversary: a.adversary}
	for id, s := range subStates {
		if s != nil {
			call.SubVers[id] = s.Version
		}
	}
	l.cause = call
	err := l.withdraw(a.acc, req, subStates)
	if err != nil {
		call.Err = err.Error()
	}
	l.logCall(call)
	return err
}

func (l *Ledger) withdraw(acc wallet.Address, req channel.AdjudicatorReq, subStates channel.StateMap) error {
	st := req.Tx.State
	if st == nil || req.Params == nil || req.Params.ID() != st.ID {
		return fmt.Errorf("malformed request")
	}
	c := l.chans[st.ID]
	if c == nil {
		return fmt.Errorf("channel was never funded")
	}
	if int(req.Idx) >= len(req.Params.Parts) {
		return fmt.Errorf("participant index out of range")
	}
	// the account must be the participant's
	if p := req.Params.Parts[req.Idx]; len(p) == 0 {
		return fmt.Errorf("no participant")
	}
	if !c.concluded {
		switch {
		case c.reg != nil:
			if st.Version != c.reg.state.Version || !sameState(st, c.reg.state) {
				return fmt.Errorf("withdrawal with version %d but version %d is registered", st.Version, c.reg.state.Version)
			}
			if l.clock < c.reg.timeout {
				return fmt.Errorf("challenge period has not ended (now %d, timeout %d)", l.clock, c.reg.timeout)
			}
		case st.IsFinal:
			if err := verifySigned(req.Params, st, req.Tx.Sigs); err != nil {
				return fmt.Errorf("final state: %v", err)
			}
		default:
			return fmt.Errorf("state is neither registered nor final")
		}
		// outcome
		out := make([][]*big.Int, len(st.Balances))
		for i := range out {
			out[i] = make([]*big.Int, len(st.Balances[i]))
			for j := range out[i] {
				out[i][j] = new(big.Int).Set(st.Balances[i][j])
			}
		}
		var walk func(s *channel.State) error
		walk = func(s *channel.State) error {
			for _, la := range s.Locked {
				sub := subStates[la.ID]
				if sub == nil {
					return fmt.Errorf("state of locked sub-channel %x missing", la.ID[:3])
				}
				sc := l.chans[la.ID]
				if sc == nil || sc.reg == nil {
					return fmt.Errorf("locked sub-channel %x is not registered", la.ID[:3])
				}
				if !sameState(sub, sc.reg.state) {
					return fmt.Errorf("sub-channel %x: version %d given, version %d registered", la.ID[:3], sub.Version, sc.reg.state.Version)
				}
				if l.clock < sc.reg.timeout {
					return fmt.Errorf("sub-channel %x: challenge period has not ended", la.ID[:3])
				}
				for ai, row := range sub.Balances {
					for p, bal := range row {
						pp := p
						if len(la.IndexMap) > 0 {
							if p >= len(la.IndexMap) {
								return fmt.Errorf("index map too short")
							}
							pp = int(la.IndexMap[p])
						}
						if ai >= len(out) || pp >= len(out[ai]) {
							return fmt.Errorf("sub-channel dimensions")
						}
						out[ai][pp].Add(out[ai][pp], bal)
					}
				}
				sc.concluded, sc.conclVer = true, sub.Version
				if err := walk(sub); err != nil {
					return err
				}
			}
			return nil
		}
		if err := walk(st); err != nil {
			return err
		}
		for ai := range out {
			tot := new(big.Int)
			for _, b := range out[ai] {
				tot.Add(tot, b)
			}
			if ai >= len(c.holdings) || tot.Cmp(c.holdings[ai]) != 0 {
				return fmt.Errorf("outcome of asset %d totals %v but the channel holds %v", ai, tot, c.holdings[ai])
			}
		}
		c.concluded, c.conclVer, c.outcome = true, st.Version, out
		l.emit(st.ID, channel.NewConcludedEvent(st.ID, &Timeout{l, l.clock}, st.Version))
	} else if st.Version != c.conclVer {
		return fmt.Errorf("channel was concluded with version %d, withdrawal uses version %d", c.conclVer, st.Version)
	}
	if c.withdrawn[req.Idx] {
		return nil
	}
	c.withdrawn[req.Idx] = true
	for ai := range c.outcome {
		amt := c.outcome[ai][req.Idx]
		if c.holdings[ai].Cmp(amt) < 0 {
			return fmt.Errorf("withdrawal exceeds holdings")
		}
		c.holdings[ai].Sub(c.holdings[ai], amt)
		l.add(key(acc), key(c.assets[ai]), amt)
	}
	return nil
}
