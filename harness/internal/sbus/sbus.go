// Package sbus is the scheduling bus of the harness: a wire.Bus with one FIFO link per
// (sender, recipient) like a TCP connection, PRNG-chosen yields before each delivery, a tap that
// records every envelope, injection of crafted envelopes and rewriting of a sender's own
// outgoing envelopes (an adversary controls its own network link).
package sbus

import (
	"bytes"
	"context"
	"math/rand"
	"runtime"
	"sync"
	"sync/atomic"
	"time"

	"perun.network/go-perun/wallet"
	"perun.network/go-perun/wire"
)

// Rewriter may replace (return other envelopes) or drop (return nil) an outgoing envelope.
type Rewriter func(e *wire.Envelope) []*wire.Envelope

// Tap observes an envelope right before it is handed to the recipient.
type Tap func(e *wire.Envelope)

type link struct {
	mu    sync.Mutex
	queue []*wire.Envelope
	sig   chan struct{}
	rng   *rand.Rand
}

type endpoint struct {
	c     wire.Consumer
	ready chan struct{}
}

// Bus is the scheduling bus.
type Bus struct {
	mu        sync.Mutex
	eps       map[wire.AddrKey]*endpoint
	links     map[string]*link
	rewriters map[wire.AddrKey]Rewriter
	taps      []Tap
	seed      int64
	noise     int // max number of yields before a delivery
	pending   int64
	closed    chan struct{}
	serial    wire.EnvelopeSerializer // optional: every envelope goes through this serializer
	sendFault func(context.Context, *wire.Envelope) error
	drop      func(*wire.Envelope) bool
	wg        sync.WaitGroup
	delivered int64
	lagMu     sync.Mutex
	lagRng    *rand.Rand
}

// New creates a bus. noise is the maximal number of scheduler yields before each delivery.
func New(seed int64, noise int) *Bus {
	return &Bus{eps: map[wire.AddrKey]*endpoint{}, links: map[string]*link{}, rewriters: map[wire.AddrKey]Rewriter{}, seed: seed, noise: noise, closed: make(chan struct{}),
		lagRng: rand.New(rand.NewSource(seed ^ 0x1a6))}
}

// SetSerializer makes every envelope take a round trip through ser before delivery.
func (b *Bus) SetSerializer(ser wire.EnvelopeSerializer) { b.serial = ser }

// SetDrop installs a filter; envelopes for which it returns true are discarded at publication.
func (b *Bus) SetDrop(f func(*wire.Envelope) bool) { b.mu.Lock(); b.drop = f; b.mu.Unlock() }

// SetSendFault installs a function that makes Publish fail for the selected envelopes (a peer
// that closed its connection): nothing is delivered and the sender gets the error. The function
// may also block until the sender's context ends (a recipient that cannot be reached: real buses
// return from Publish only when the message was taken or the context is done).
func (b *Bus) SetSendFault(f func(context.Context, *wire.Envelope) error) {
	b.mu.Lock()
	b.sendFault = f
	b.mu.Unlock()
}

// AddTap registers an observer of delivered envelopes.
func (b *Bus) AddTap(t Tap) { b.mu.Lock(); b.taps = append(b.taps, t); b.mu.Unlock() }

// SetRewriter installs a rewriter for everything the given sender publishes itself.
func (b *Bus) SetRewriter(sender map[wallet.BackendID]wire.Address, r Rewriter) {
	b.mu.Lock()
	if r == nil {
		delete(b.rewriters, wire.Keys(sender))
	} else {
		b.rewriters[wire.Keys(sender)] = r
	}
	b.mu.Unlock()
}

// Delivered returns the number of envelopes handed to recipients so far.
func (b *Bus) Delivered() int64 { return atomic.LoadInt64(&b.delivered) }

// Drained tells whether no envelope is queued or being delivered.
func (b *Bus) Drained() bool { return atomic.LoadInt64(&b.pending) == 0 }

// Close stops the delivery goroutines.
func (b *Bus) Close() {
	select {
	case <-b.closed:
	default:
		close(b.closed)
	}
}

func (b *Bus) endpoint(a map[wallet.BackendID]wire.Address) *endpoint {
	k := wire.Keys(a)
	b.mu.Lock()
	defer b.mu.Unlock()
	ep := b.eps[k]
	if ep == nil {
		ep = &endpoint{ready: make(chan struct{})}
		b.eps[k] = ep
	}
	return ep
}

// SubscribeClient implements wire.Bus.
func (b *Bus) SubscribeClient(c wire.Consumer, addr map[wallet.BackendID]wire.Address) error {
	ep := b.endpoint(addr)
	b.mu.Lock()
	ep.c = c
	select {
	case <-ep.ready:
	default:
		close(ep.ready)
	}
	b.mu.Unlock()
	c.OnCloseAlways(func() {
		b.mu.Lock()
		delete(b.eps, wire.Keys(addr))
		b.mu.Unlock()
	})
	return nil
}

// Publish implements wire.Publisher: the envelope is queued on the sender's link to the
// recipient and delivered asynchronously, in order.
func (b *Bus) Publish(ctx context.Context, e *wire.Envelope) error {
	b.mu.Lock()
	rw := b.rewriters[wire.Keys(e.Sender)]
	drop := b.drop
	fault := b.sendFault
	b.mu.Unlock()
	if fault != nil {
		if err := fault(ctx, e); err != nil {
			return err // the recipient is unreachable: nothing is delivered and the sender is told
		}
	}
	if drop != nil && drop(e) {
		return nil
	}
	out := []*wire.Envelope{e}
	if rw != nil {
		out = rw(e)
	}
	for _, x := range out {
		b.enqueue(x)
	}
	b.sendLag()
	return nil
}

// sendLag models a network write that returns late: the message is already on its way (and may
// be answered) while the sender has not yet got control back. Only schedule noise, never a verdict.
func (b *Bus) sendLag() {
	if b.noise == 0 {
		return
	}
	b.lagMu.Lock()
	y, sl := b.lagRng.Intn(b.noise+1), 0
	if b.lagRng.Intn(4) == 0 {
		sl = 50 + b.lagRng.Intn(250)
	}
	b.lagMu.Unlock()
	for ; y > 0; y-- {
		runtime.Gosched()
	}
	if sl > 0 {
		time.Sleep(time.Duration(sl) * time.Microsecond)
	}
}

// Inject queues a crafted envelope as if its sender had published it (no rewriting).
func (b *Bus) Inject(e *wire.Envelope) { b.enqueue(e) }

func (b *Bus) enqueue(e *wire.Envelope) {
	key := string(wire.Keys(e.Sender)) + "->" + string(wire.Keys(e.Recipient))
	b.mu.Lock()
	l := b.links[key]
	if l == nil {
		h := int64(0)
		for _, c := range []byte(key) {
			h = h*131 + int64(c)
		}
		l = &link{sig: make(chan struct{}, 1), rng: rand.New(rand.NewSource(b.seed ^ h))}
		b.links[key] = l
		go b.run(l)
	}
	b.mu.Unlock()
	atomic.AddInt64(&b.pending, 1)
	l.mu.Lock()
	l.queue = append(l.queue, e)
	l.mu.Unlock()
	select {
	case l.sig <- struct{}{}:
	default:
	}
}

func (b *Bus) run(l *link) {
	for {
		l.mu.Lock()
		var e *wire.Envelope
		if len(l.queue) > 0 {
			e = l.queue[0]
			l.queue = l.queue[1:]
		}
		l.mu.Unlock()
		if e == nil {
			select {
			case <-l.sig:
				continue
			case <-b.closed:
				return
			}
		}
		b.deliver(l, e)
		atomic.AddInt64(&b.pending, -1)
	}
}

func (b *Bus) deliver(l *link, e *wire.Envelope) {
	ep := b.endpoint(e.Recipient)
	select {
	case <-ep.ready:
	case <-b.closed:
		return
	}
	if b.noise > 0 {
		for k := l.rng.Intn(b.noise + 1); k > 0; k-- {
			runtime.Gosched()
		}
	}
	if b.serial != nil {
		var buf bytes.Buffer
		if err := b.serial.Encode(&buf, e); err == nil {
			if d, err := b.serial.Decode(&buf); err == nil {
				e = d
			} else {
				return // an envelope that does not decode never reaches the client
			}
		} else {
			return
		}
	}
	b.mu.Lock()
	taps := b.taps
	c := ep.c
	b.mu.Unlock()
	for _, t := range taps {
		t(e)
	}
	if c != nil {
		c.Put(e)
		atomic.AddInt64(&b.delivered, 1)
	}
}
