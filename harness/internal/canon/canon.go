// Package canon renders any go-perun value as a canonical string for structural comparison.
// nil and empty slices are identified (the wire formats cannot distinguish them) except for the
// elements of a [][]byte (signature vectors), where nil means "no signature".
package canon

import (
	"encoding"
	"encoding/hex"
	"fmt"
	"math/big"
	"reflect"
	"sort"
	"strings"
	"time"
)

var (
	bigIntT = reflect.TypeOf((*big.Int)(nil))
	timeT   = reflect.TypeOf(time.Time{})
	bmT     = reflect.TypeOf((*encoding.BinaryMarshaler)(nil)).Elem()
)

// String returns the canonical rendering of v.
func String(v any) (out string) {
	var b strings.Builder
	// A value damaged through memory it shares with something else may not even be printable
	// (e.g. a big integer whose words were overwritten): render that as a difference, not a crash.
	defer func() {
		if p := recover(); p != nil {
			out = b.String() + fmt.Sprintf("<UNPRINTABLE: %v>", p)
		}
	}()
	walk(&b, reflect.ValueOf(v), false, 0)
	return b.String()
}

func walk(b *strings.Builder, v reflect.Value, sigElem bool, depth int) {
	if depth > 40 {
		b.WriteString("<deep>")
		return
	}
	if !v.IsValid() {
		b.WriteString("nil")
		return
	}
	t := v.Type()
	if t == bigIntT {
		if v.IsNil() {
			b.WriteString("bignil")
			return
		}
		if v.CanInterface() {
			b.WriteString(v.Interface().(*big.Int).String())
			return
		}
	}
	if t == timeT && v.CanInterface() {
		fmt.Fprintf(b, "t%d", v.Interface().(time.Time).UnixNano())
		return
	}
	// Binary marshalers (addresses, assets, app ids, data) are compared by their encoding.
	if v.CanInterface() && t.Kind() != reflect.Interface {
		if t.Implements(bmT) && !(t.Kind() == reflect.Ptr && v.IsNil()) {
			if data, err := safeMarshal(v.Interface().(encoding.BinaryMarshaler)); err == nil {
				fmt.Fprintf(b, "%s<%s>", typeName(t), hex.EncodeToString(data))
				return
			}
		} else if v.CanAddr() && reflect.PointerTo(t).Implements(bmT) {
			if data, err := safeMarshal(v.Addr().Interface().(encoding.BinaryMarshaler)); err == nil {
				fmt.Fprintf(b, "%s<%s>", typeName(t), hex.EncodeToString(data))
				return
			}
		}
	}
	switch t.Kind() {
	case reflect.Interface:
		if v.IsNil() {
			b.WriteString("nil")
			return
		}
		walk(b, v.Elem(), false, depth+1)
	case reflect.Ptr:
		if v.IsNil() {
			b.WriteString("nil")
			return
		}
		b.WriteString("&")
		walk(b, v.Elem(), false, depth+1)
	case reflect.Struct:
		b.WriteString(typeName(t))
		b.WriteString("{")
		for i := 0; i < t.NumField(); i++ {
			f := t.Field(i)
			if f.Name == "Embedding" || f.Name == "Curve" || f.Name == "acc" {
				continue
			}
			b.WriteString(f.Name)
			b.WriteString(":")
			walk(b, v.Field(i), false, depth+1)
			b.WriteString(",")
		}
		b.WriteString("}")
	case reflect.Slice:
		if t.Elem().Kind() == reflect.Uint8 {
			if sigElem && v.IsNil() {
				b.WriteString("nosig")
				return
			}
			b.WriteString("x")
			b.WriteString(hex.EncodeToString(v.Bytes()))
			return
		}
		isSigs := t.Elem().Kind() == reflect.Slice && t.Elem().Elem().Kind() == reflect.Uint8
		b.WriteString("[")
		for i := 0; i < v.Len(); i++ {
			walk(b, v.Index(i), isSigs, depth+1)
			b.WriteString(",")
		}
		b.WriteString("]")
	case reflect.Array:
		if t.Elem().Kind() == reflect.Uint8 {
			bs := make([]byte, v.Len())
			for i := range bs {
				bs[i] = byte(v.Index(i).Uint())
			}
			b.WriteString("a")
			b.WriteString(hex.EncodeToString(bs))
			return
		}
		b.WriteString("[")
		for i := 0; i < v.Len(); i++ {
			walk(b, v.Index(i), false, depth+1)
			b.WriteString(",")
		}
		b.WriteString("]")
	case reflect.Map:
		keys := v.MapKeys()
		strs := make([]string, len(keys))
		for i, k := range keys {
			var kb, vb strings.Builder
			walk(&kb, k, false, depth+1)
			walk(&vb, v.MapIndex(k), false, depth+1)
			strs[i] = kb.String() + "=>" + vb.String()
		}
		sort.Strings(strs)
		b.WriteString("map{")
		b.WriteString(strings.Join(strs, ";"))
		b.WriteString("}")
	case reflect.Bool:
		fmt.Fprintf(b, "%v", v.Bool())
	case reflect.Int, reflect.Int8, reflect.Int16, reflect.Int32, reflect.Int64:
		fmt.Fprintf(b, "%d", v.Int())
	case reflect.Uint, reflect.Uint8, reflect.Uint16, reflect.Uint32, reflect.Uint64, reflect.Uintptr:
		fmt.Fprintf(b, "%d", v.Uint())
	case reflect.String:
		fmt.Fprintf(b, "%q", v.String())
	case reflect.Func, reflect.Chan, reflect.UnsafePointer:
		b.WriteString("<" + t.Kind().String() + ">")
	default:
		fmt.Fprintf(b, "<%s>", t.Kind())
	}
}

func typeName(t reflect.Type) string {
	if t.Kind() == reflect.Ptr {
		return "*" + typeName(t.Elem())
	}
	return t.PkgPath() + "." + t.Name()
}

func safeMarshal(m encoding.BinaryMarshaler) (data []byte, err error) {
	defer func() {
		if r := recover(); r != nil {
			err = fmt.Errorf("panic: %v", r)
		}
	}()
	return m.MarshalBinary()
}

// Shape renders only the structure of v: type names, nil-ness and the lengths of slices, maps
// and byte strings, but no leaf values. It is used as the case descriptor for distinctness.
func Shape(v any) string {
	var b strings.Builder
	shape(&b, reflect.ValueOf(v), 0)
	return b.String()
}

func shape(b *strings.Builder, v reflect.Value, depth int) {
	if depth > 40 || !v.IsValid() {
		b.WriteString("_")
		return
	}
	t := v.Type()
	if t == bigIntT {
		if v.IsNil() {
			b.WriteString("n")
		} else if v.CanInterface() {
			fmt.Fprintf(b, "i%d", (v.Interface().(*big.Int).BitLen()+7)/8)
		}
		return
	}
	switch t.Kind() {
	case reflect.Interface, reflect.Ptr:
		if v.IsNil() {
			b.WriteString("n")
			return
		}
		if t.Kind() == reflect.Interface {
			b.WriteString(v.Elem().Type().String())
		}
		shape(b, v.Elem(), depth+1)
	case reflect.Struct:
		if t == timeT {
			b.WriteString("t")
			return
		}
		b.WriteString("{")
		for i := 0; i < t.NumField(); i++ {
			if n := t.Field(i).Name; n == "Embedding" || n == "Curve" || n == "acc" {
				continue
			}
			shape(b, v.Field(i), depth+1)
		}
		b.WriteString("}")
	case reflect.Slice:
		if t.Elem().Kind() == reflect.Uint8 {
			fmt.Fprintf(b, "x%d", v.Len())
			return
		}
		fmt.Fprintf(b, "[%d:", v.Len())
		for i := 0; i < v.Len() && i < 8; i++ {
			shape(b, v.Index(i), depth+1)
		}
		b.WriteString("]")
	case reflect.Array:
		b.WriteString("a")
	case reflect.Map:
		fmt.Fprintf(b, "m%d", v.Len())
	case reflect.Bool:
		if v.Bool() {
			b.WriteString("T")
		} else {
			b.WriteString("F")
		}
	case reflect.String:
		fmt.Fprintf(b, "s%d", v.Len())
	default:
		b.WriteString(".")
	}
}
