package mexplore

import (
	"bytes"
	"fmt"
	"math/rand"
	"strings"
	"sync"
	"sync/atomic"
	"verif/internal/gen"

	"perun.network/go-perun/channel"
	"perun.network/go-perun/wallet"

	"verif/internal/canon"
)

// Observer sees every applicable step of one execution.
type Observer func(e *Exec, st *Step)

// SeqString renders an operation sequence.
func SeqString(seq []Op) string {
	s := make([]string, len(seq))
	for i, o := range seq {
		s[i] = o.String()
	}
	return strings.Join(s, " ; ")
}

// source is a harness-side channel.Source used to fork plain machines.
type source struct {
	idx    channel.Index
	params *channel.Params
	snap   Snapshot
}

func (s *source) ID() channel.ID                 { return s.params.ID() }
func (s *source) Idx() channel.Index             { return s.idx }
func (s *source) Params() *channel.Params        { return s.params }
func (s *source) StagingTX() channel.Transaction { return cloneTx(s.snap.Staging) }
func (s *source) CurrentTX() channel.Transaction { return cloneTx(s.snap.Current) }
func (s *source) Phase() channel.Phase           { return s.snap.Phase }

// RestoreWithPhase rebuilds a state machine from the given one as a restarted client does
// (channel.RestoreStateMachine), but reporting the given phase: the persisted phase may be older
// than the transactions, and the client's channel sync revises it to Acting.
func RestoreWithPhase(m *channel.StateMachine, params *channel.Params, acc map[wallet.BackendID]wallet.Account, ph channel.Phase) (*channel.StateMachine, error) {
	sn := Snap(m)
	sn.Phase = ph
	return channel.RestoreStateMachine(acc, &source{idx: m.Idx(), params: params, snap: sn})
}

// Fork returns an independent execution in the same state. Only plain machines can be forked:
// the copy is rebuilt with channel.RestoreStateMachine from a harness-made snapshot (states are
// immutable in the explorer, signature vectors are copied).
func (e *Exec) Fork() *Exec {
	p, ok := e.D.(Plain)
	if !ok {
		panic("mexplore: only plain machines can be forked")
	}
	src := &source{idx: p.Idx(), params: e.W.Params, snap: Snap(p)}
	m, err := channel.RestoreStateMachine(e.W.Parties[e.W.Idx].AccMap(), src)
	if err != nil {
		panic(fmt.Sprintf("mexplore: fork: %v", err))
	}
	f := &Exec{W: e.W, D: Plain{m}, M: e.M, Seq: append([]Op(nil), e.Seq...), otherStaged: e.otherStaged, counter: e.counter}
	f.M.StagedSig = append([]bool(nil), e.M.StagedSig...)
	return f
}

// Stats of an exploration.
type Stats struct {
	States      int
	Transitions int
	Calls       int64
	MaxDepth    int
}

type node struct {
	e     *Exec
	depth int
}

// Explore enumerates, breadth first and de-duplicated by abstract state, every operation of
// the alphabet from every reachable abstract state up to the given depth; from every state
// discovered it additionally runs all operation sequences of length suffix (>= 1).
// newObs is called once per execution branch to create its observers; fork of observers is the
// caller's business via the returned clone function.
func Explore(w *World, depth, suffix, workers int, newObs func() ForkableObserver) Stats {
	alpha := Alphabet(w.N())
	root := NewExec(w, Plain{w.NewMachine()})
	seen := map[string]bool{root.AbstractKey(): true}
	frontier := []obsNode{{node{root, 0}, newObs()}}
	var stats Stats
	stats.States = 1
	var mu sync.Mutex
	for d := 0; d < depth && len(frontier) > 0; d++ {
		var next []obsNode
		var wg sync.WaitGroup
		sem := make(chan struct{}, workers)
		for _, n := range frontier {
			n := n
			wg.Add(1)
			sem <- struct{}{}
			go func() {
				defer wg.Done()
				defer func() { <-sem }()
				var calls int64
				var local []obsNode
				var keys []string
				for _, op := range alpha {
					f := n.e.Fork()
					o := n.obs.Fork()
					st := f.Apply(op)
					if !st.Applicable {
						continue
					}
					calls++
					o.Observe(f, st)
					local = append(local, obsNode{node{f, d + 1}, o})
					keys = append(keys, f.AbstractKey())
					if suffix > 1 {
						calls += suffixes(f, o, alpha, suffix-1)
					}
				}
				mu.Lock()
				stats.Calls += calls
				stats.Transitions += len(local)
				for i, k := range keys {
					if !seen[k] {
						seen[k] = true
						stats.States++
						next = append(next, local[i])
						if d+1 > stats.MaxDepth {
							stats.MaxDepth = d + 1
						}
					}
				}
				mu.Unlock()
			}()
		}
		wg.Wait()
		frontier = next
	}
	return stats
}

func suffixes(e *Exec, o ForkableObserver, alpha []Op, left int) int64 {
	var calls int64
	for _, op := range alpha {
		f := e.Fork()
		fo := o.Fork()
		st := f.Apply(op)
		if !st.Applicable {
			continue
		}
		calls++
		fo.Observe(f, st)
		if left > 1 {
			calls += suffixes(f, fo, alpha, left-1)
		}
	}
	return calls
}

type obsNode struct {
	node
	obs ForkableObserver
}

// ForkableObserver is an observer with per-execution state that can follow a Fork.
type ForkableObserver interface {
	Observe(e *Exec, st *Step)
	Fork() ForkableObserver
}

// Clones counts the machine copies random walks continued on.
var Clones int64

// RandomWalk executes a random operation sequence of the given length from a fresh machine
// (no forking: the machine is driven by calls only).
func RandomWalk(w *World, r *rand.Rand, length int, d Driver, obs ForkableObserver) *Exec {
	alpha := Alphabet(w.N())
	e := NewExec(w, d)
	// bias towards operations that make progress so that deep phases are reached
	for i := 0; i < length; i++ {
		// now and then the walk continues on a copy of the machine: Clone must be
		// indistinguishable from the original for everything that follows
		if p, ok := e.D.(Plain); ok && r.Intn(12) == 0 {
			e.D = Plain{StateMachine: p.StateMachine.Clone()}
			atomic.AddInt64(&Clones, 1)
		}
		var op Op
		if r.Intn(3) == 0 {
			op = alpha[r.Intn(len(alpha))]
		} else {
			op = Progressive(e, r)
		}
		st := e.Apply(op)
		if st.Applicable && obs != nil {
			obs.Observe(e, st)
		}
	}
	return e
}

// Progressive picks an operation that the model expects to succeed in the current phase (a
// random one of them), so random walks do not get stuck in the first phases.
func Progressive(e *Exec, r *rand.Rand) Op {
	n := e.W.N()
	var c []Op
	m := e.M
	missing := func() []int {
		var out []int
		for i, b := range m.StagedSig {
			if !b {
				out = append(out, i)
			}
		}
		return out
	}
	switch m.Phase {
	case channel.InitActing:
		c = append(c, Op{Kind: OpInit, Class: InitValid})
	case channel.InitSigning, channel.Signing, channel.Progressing:
		for _, i := range missing() {
			c = append(c, Op{Kind: OpAddSig, I: i, Class: SigValid})
		}
		c = append(c, Op{Kind: OpSig})
		if len(missing()) == 0 {
			switch {
			case m.Phase == channel.InitSigning:
				c = []Op{{Kind: OpEnableInit}}
			case m.Phase == channel.Signing && m.Staged != nil && m.Staged.IsFinal:
				c = []Op{{Kind: OpEnableFinal}}
			case m.Phase == channel.Signing:
				c = []Op{{Kind: OpEnableUpdate}}
			default:
				c = append(c, Op{Kind: OpSetProgressed, Class: UpdValid})
			}
		}
		if m.Phase == channel.Signing && r.Intn(6) == 0 {
			c = append(c, Op{Kind: OpDiscard})
		}
	case channel.Funding:
		c = append(c, Op{Kind: OpSetFunded})
	case channel.Acting:
		c = append(c, Op{Kind: OpUpdate, Class: UpdValid}, Op{Kind: OpUpdate, Class: UpdValid}, Op{Kind: OpUpdate, Class: UpdValidByPeer})
		if r.Intn(5) == 0 {
			c = append(c, Op{Kind: OpUpdate, Class: UpdValidFinal}, Op{Kind: OpSetRegistering}, Op{Kind: OpSetRegistered}, Op{Kind: OpForceUpdate, Class: UpdValid})
		}
	case channel.Final:
		c = append(c, Op{Kind: OpSetRegistering}, Op{Kind: OpSetWithdrawing}, Op{Kind: OpSetRegistered})
	case channel.Registering:
		c = append(c, Op{Kind: OpSetRegistered})
	case channel.Registered:
		c = append(c, Op{Kind: OpSetProgressing, Class: UpdValid}, Op{Kind: OpSetWithdrawing}, Op{Kind: OpSetProgressed, Class: UpdValid})
	case channel.Progressed:
		c = append(c, Op{Kind: OpSetProgressing, Class: UpdValid}, Op{Kind: OpSetWithdrawing}, Op{Kind: OpForceUpdate, Class: UpdValid})
	case channel.Withdrawing:
		c = append(c, Op{Kind: OpSetWithdrawn}, Op{Kind: OpForceUpdate, Class: UpdValid})
	case channel.Withdrawn:
		c = append(c, Op{Kind: OpForceUpdate, Class: UpdValid}, Op{Kind: OpSetProgressed, Class: UpdValid})
	}
	_ = n
	if len(c) == 0 {
		a := Alphabet(n)
		return a[r.Intn(len(a))]
	}
	return c[r.Intn(len(c))]
}

// ---------------------------------------------------------------------------------------------
// Monitors

// Finding is a monitor report.
type Finding struct {
	Class string
	What  string
}

// verifier caches signature verification results (states are immutable in the explorer).
type verifier struct {
	w     *World
	mu    sync.Mutex
	cache map[vkey]bool
}

type vkey struct {
	st  *channel.State
	i   int
	sig string
}

func (v *verifier) ok(st *channel.State, i int, sig wallet.Sig) bool {
	k := vkey{st, i, string(sig)}
	v.mu.Lock()
	r, hit := v.cache[k]
	v.mu.Unlock()
	if hit {
		return r
	}
	res := false
	func() {
		defer func() { _ = recover() }()
		ok, err := channel.Verify(v.w.Parties[i].Any(), st, sig)
		res = ok && err == nil
		// a signature that is part of a transaction must also survive the transaction's own wire
		// format unchanged (it is stored, synced and handed to the adjudicator in that form)
		if res {
			var buf bytes.Buffer
			if wallet.EncodeSparseSigs(&buf, []wallet.Sig{sig}) != nil {
				res = false
				return
			}
			back := make([]wallet.Sig, 1)
			if wallet.DecodeSparseSigs(&buf, &back) != nil || buf.Len() != 0 || !bytes.Equal(back[0], sig) {
				res = false
			}
		}
	}()
	v.mu.Lock()
	if len(v.cache) > 4096 {
		v.cache = map[vkey]bool{}
	}
	v.cache[k] = res
	v.mu.Unlock()
	return res
}

// SignedMonitor is the C01 oracle: after every call the current transaction must carry a
// verified signature of every participant over exactly the current state (unless that state was
// adopted by SetProgressed), and every stored staging signature must verify for the staged state.
type SignedMonitor struct {
	v        *verifier
	exempt   *channel.State // state adopted from the last on-chain progression event
	Report   func(e *Exec, st *Step, f Finding)
	OnCheck  func(fullySigned, exempt, stagedSigs int)
	lastCurr *channel.State
}

// NewSignedMonitor creates the C01 monitor.
func NewSignedMonitor(w *World, report func(e *Exec, st *Step, f Finding), onCheck func(fullySigned, exempt, stagedSigs int)) *SignedMonitor {
	return &SignedMonitor{v: &verifier{w: w, cache: map[vkey]bool{}}, Report: report, OnCheck: onCheck}
}

// Fork implements ForkableObserver.
func (m *SignedMonitor) Fork() ForkableObserver {
	c := *m
	return &c // the verification cache is shared deliberately (pure function of its key)
}

// Observe implements ForkableObserver.
func (m *SignedMonitor) Observe(e *Exec, st *Step) {
	if st.Op.Kind == OpSetProgressed && st.Err == nil && st.Panic == nil {
		m.exempt = st.After.Current.State
	}
	n := e.W.N()
	cur := st.After.Current
	full, ex, ss := 0, 0, 0
	if cur.State != nil {
		if cur.State == m.exempt || (m.exempt != nil && bytes.Equal(gen.EncodeState(cur.State), gen.EncodeState(m.exempt))) {
			// (by content, not only by pointer: the walk may continue on a clone of the machine)
			ex = 1
		} else {
			if len(cur.Sigs) != n {
				m.Report(e, st, Finding{"C01/current-sig-count", fmt.Sprintf("current transaction has %d signature slots for %d participants", len(cur.Sigs), n)})
			} else {
				for i, s := range cur.Sigs {
					if s == nil {
						m.Report(e, st, Finding{"C01/current-missing-sig/after-" + st.Op.Kind.String(), fmt.Sprintf("current state (version %d) lacks the signature of participant %d", cur.State.Version, i)})
						break
					}
					if !m.v.ok(cur.State, i, s) {
						m.Report(e, st, Finding{"C01/current-invalid-sig/after-" + st.Op.Kind.String(), fmt.Sprintf("signature %d stored with the current state (version %d) does not verify for it", i, cur.State.Version)})
						break
					}
				}
				full = 1
			}
		}
	} else if len(cur.Sigs) != 0 {
		for _, s := range cur.Sigs {
			if s != nil {
				m.Report(e, st, Finding{"C01/sig-without-state", "current transaction has a signature but no state"})
				break
			}
		}
	}
	stg := st.After.Staging
	for i, s := range stg.Sigs {
		if s == nil {
			continue
		}
		ss++
		if stg.State == nil {
			m.Report(e, st, Finding{"C01/staged-sig-without-state", "a staging signature is stored but nothing is staged"})
			break
		}
		if i >= n || !m.v.ok(stg.State, i, s) {
			m.Report(e, st, Finding{"C01/staged-invalid-sig/after-" + st.Op.Kind.String(), fmt.Sprintf("staging signature %d does not verify for the staged state (version %d)", i, stg.State.Version)})
			break
		}
	}
	if m.OnCheck != nil {
		m.OnCheck(full, ex, ss)
	}
}

// AutomatonMonitor is the C09 oracle.
type AutomatonMonitor struct {
	v      *verifier
	Report func(e *Exec, st *Step, f Finding)
	OnPair func(phase channel.Phase, op Op, ok bool, afterFailure bool)
	failed bool // a failing call happened earlier in this execution
}

// NewAutomatonMonitor creates the C09 monitor.
func NewAutomatonMonitor(w *World, report func(e *Exec, st *Step, f Finding), onPair func(channel.Phase, Op, bool, bool)) *AutomatonMonitor {
	return &AutomatonMonitor{v: &verifier{w: w, cache: map[vkey]bool{}}, Report: report, OnPair: onPair}
}

// Fork implements ForkableObserver.
func (m *AutomatonMonitor) Fork() ForkableObserver { c := *m; return &c }

func sameState(a, b *channel.State) bool {
	if a == b {
		return true
	}
	if a == nil || b == nil {
		return false
	}
	return canon.String(a) == canon.String(b)
}

func sameSigs(a, b []wallet.Sig) bool {
	if len(a) != len(b) {
		// nil and a vector of nils are the same observation
		for _, s := range a {
			if s != nil {
				return false
			}
		}
		for _, s := range b {
			if s != nil {
				return false
			}
		}
		return true
	}
	for i := range a {
		if (a[i] == nil) != (b[i] == nil) || string(a[i]) != string(b[i]) {
			return false
		}
	}
	return true
}

// Observe implements ForkableObserver.
func (m *AutomatonMonitor) Observe(e *Exec, st *Step) {
	phase := st.Before.Phase
	opn := st.Op.Kind.String()
	ctx := fmt.Sprintf("%s in phase %v", st.Op, phase)
	if m.OnPair != nil {
		m.OnPair(phase, st.Op, st.Err == nil && st.Panic == nil, m.failed)
	}
	resync := false
	defer func() {
		if resync {
			e.Resync()
		}
		if st.Err != nil {
			m.failed = true
		}
	}()
	if st.Panic != nil {
		m.Report(e, st, Finding{"C09/panic/" + opn, fmt.Sprintf("%s panicked: %v", ctx, st.Panic)})
		resync = true
		return
	}
	ok := st.Err == nil
	unchanged := st.Before.Phase == st.After.Phase &&
		st.Before.StagingDigest == st.After.StagingDigest && sameSigs(st.Before.Staging.Sigs, st.After.Staging.Sigs) &&
		st.Before.CurrentDigest == st.After.CurrentDigest && sameSigs(st.Before.Current.Sigs, st.After.Current.Sigs)
	if !ok && !unchanged {
		m.Report(e, st, Finding{"C09/atomicity/" + opn + "/" + phase.String(), fmt.Sprintf("%s returned an error (%v) but changed phase, staged or current transaction (phase now %v)", ctx, st.Err, st.After.Phase)})
		resync = true
	}
	if st.Op.Kind == OpSig {
		if !ok && st.SigOut != nil {
			m.Report(e, st, Finding{"C09/sig-outside-signing-phase", fmt.Sprintf("%s returned a signature together with an error", ctx)})
		}
		if ok {
			stg := st.After.Staging
			if !inS(phase) {
				m.Report(e, st, Finding{"C09/sig-outside-signing-phase", fmt.Sprintf("%s produced an own signature outside the signing phases", ctx)})
			} else if stg.State == nil || !m.v.ok(stg.State, e.W.Idx, st.SigOut) {
				m.Report(e, st, Finding{"C09/sig-not-over-staged", fmt.Sprintf("%s returned a signature that does not verify for the staged state", ctx)})
			} else if len(stg.Sigs) <= e.W.Idx || string(stg.Sigs[e.W.Idx]) != string(st.SigOut) {
				m.Report(e, st, Finding{"C09/sig-not-stored", fmt.Sprintf("%s: returned signature is not the one stored in the own slot", ctx)})
			}
		}
	}
	if st.WantVerdict == 2 { // refmodel.Unspecified
		resync = true
		return
	}
	if ok != st.WantOK {
		want := "fail"
		if st.WantOK {
			want = "succeed"
		}
		m.Report(e, st, Finding{"C09/outcome/" + opn + "/" + phase.String(), fmt.Sprintf("%s: documented precondition says it must %s, but it returned %v (%s)", ctx, want, st.Err, st.WantReason)})
		resync = true
		return
	}
	if !ok {
		return
	}
	// success: compare with the automaton's post-state
	ma := st.ModelAfter
	if st.After.Phase != ma.Phase {
		m.Report(e, st, Finding{"C09/target-phase/" + opn + "/" + phase.String(), fmt.Sprintf("%s succeeded and left the machine in phase %v, documented: %v", ctx, st.After.Phase, ma.Phase)})
		resync = true
	}
	if !sameState(st.After.Staging.State, ma.Staged) {
		m.Report(e, st, Finding{"C09/staging/" + opn, fmt.Sprintf("%s succeeded but the staged state is not the documented one", ctx)})
		resync = true
	} else if ma.Staged != nil {
		for i, want := range ma.StagedSig {
			got := i < len(st.After.Staging.Sigs) && st.After.Staging.Sigs[i] != nil
			if got != want {
				m.Report(e, st, Finding{"C09/staging-sigs/" + opn, fmt.Sprintf("%s succeeded but signature slot %d is filled=%v, documented %v", ctx, i, got, want)})
				resync = true
				break
			}
		}
	} else {
		for _, s := range st.After.Staging.Sigs {
			if s != nil {
				m.Report(e, st, Finding{"C09/staging-sigs/" + opn, fmt.Sprintf("%s cleared the staged state but kept a signature", ctx)})
				resync = true
				break
			}
		}
	}
	if !sameState(st.After.Current.State, ma.Current) {
		m.Report(e, st, Finding{"C09/current/" + opn, fmt.Sprintf("%s succeeded but the current state is not the documented one", ctx)})
		resync = true
	}
	if st.Op.Kind == OpInit {
		s := st.After.Staging.State
		if s == nil || s.ID != e.W.Params.ID() || s.Version != 0 || s.IsFinal ||
			canon.String(&s.Allocation) != canon.String(&st.ArgState.Allocation) {
			m.Report(e, st, Finding{"C09/init-state", fmt.Sprintf("%s: the created initial state is not (params ID, version 0, the given allocation)", ctx)})
		}
	}
}

// Multi fans out to several observers.
type Multi []ForkableObserver

// Observe implements ForkableObserver.
func (m Multi) Observe(e *Exec, st *Step) {
	for _, o := range m {
		o.Observe(e, st)
	}
}

// Fork implements ForkableObserver.
func (m Multi) Fork() ForkableObserver {
	c := make(Multi, len(m))
	for i, o := range m {
		c[i] = o.Fork()
	}
	return c
}
