// Package mexplore drives channel state machines through arbitrary operation sequences and
// lets monitors observe every call. It owns the operation alphabet (with argument classes that
// are resolved against the machine's current state), a reference automaton written from the
// method documentation (refmodel appendix D of DESIGN.md) and an explorer that enumerates
// sequences exhaustively by abstract state.
package mexplore

import (
	"fmt"
	"math/big"
	"math/rand"
	"os"
	"runtime/debug"
	"sync/atomic"

	"perun.network/go-perun/channel"
	"perun.network/go-perun/wallet"

	"verif/internal/canon"
	"verif/internal/gen"
	"verif/internal/refmodel"
)

// Driver is the operation interface of a state machine (plain or persisting).
type Driver interface {
	Init(channel.Allocation, channel.Data) error
	Update(*channel.State, channel.Index) error
	ForceUpdate(*channel.State, channel.Index) error
	Sig() (wallet.Sig, error)
	AddSig(channel.Index, wallet.Sig) error
	EnableInit() error
	EnableUpdate() error
	EnableFinal() error
	DiscardUpdate() error
	SetFunded() error
	SetRegistering() error
	SetRegistered() error
	SetProgressing(*channel.State) error
	SetProgressed(*channel.ProgressedEvent) error
	SetWithdrawing() error
	SetWithdrawn() error
	// Source gives read access to the machine.
	Source() channel.Source
}

// Plain adapts *channel.StateMachine to Driver.
type Plain struct{ *channel.StateMachine }

// Source implements Driver.
func (p Plain) Source() channel.Source { return p.StateMachine }

// World is the fixed context of one machine: parameters, keys, own index.
type World struct {
	Params  *channel.Params
	Parties []gen.Party
	Idx     int
	App     gen.AppKind
	Init    *channel.Allocation
	Data    channel.Data
	// Split is the index of a participant whose two addresses are different keys (-1: none): no
	// signature can be valid for it, every AddSig for that index must fail and change nothing.
	Split int
	// WellFormedOnly: forced updates keep to states whose dimensions fit the parameters (the
	// persistence properties are stated for such histories; an ill-dimensioned forced state
	// cannot be written back by design of the store format).
	WellFormedOnly bool
}

// NewWellFormedWorld is NewWorld with WellFormedOnly set.
func NewWellFormedWorld(r *rand.Rand, n, idx int, app gen.AppKind, assets int) *World {
	w := NewWorld(r, n, idx, app, assets)
	w.WellFormedOnly = true
	return w
}

// NewWorld creates a world with n participants.
func NewWorld(r *rand.Rand, n, idx int, app gen.AppKind, assets int) *World {
	ps := gen.Parties(r, n)
	a := gen.AppOf(app)
	w := &World{Params: gen.Params(r, ps, a), Parties: ps, Idx: idx, App: app, Split: -1}
	w.Init = gen.Allocation(r, gen.Shape{Assets: assets, Parts: n, Small: true})
	for i := range w.Init.Balances {
		for j := range w.Init.Balances[i] {
			w.Init.Balances[i][j] = big.NewInt(int64(5 + r.Intn(50)))
		}
	}
	w.Data = gen.DataFor(r, a)
	return w
}

// NewWorldSplit is NewWorld with a split-key participant (see World.Split); nil if the harness was
// built without extra backends.
func NewWorldSplit(r *rand.Rand, n, idx int, app gen.AppKind, assets, split int) *World {
	ps := gen.SplitKeyParties(r, n, split)
	if ps == nil {
		return nil
	}
	a := gen.AppOf(app)
	w := &World{Params: gen.Params(r, ps, a), Parties: ps, Idx: idx, App: app, Split: split}
	w.Init = gen.Allocation(r, gen.Shape{Assets: assets, Parts: n, Small: true})
	for i := range w.Init.Balances {
		for j := range w.Init.Balances[i] {
			w.Init.Balances[i][j] = big.NewInt(int64(5 + r.Intn(50)))
		}
	}
	w.Data = gen.DataFor(r, a)
	return w
}

// NewMachine returns a fresh real machine for the world.
func (w *World) NewMachine() *channel.StateMachine {
	m, err := channel.NewStateMachine(w.Parties[w.Idx].AccMap(), *w.Params.Clone())
	if err != nil {
		panic(fmt.Sprintf("mexplore: NewStateMachine: %v", err))
	}
	return m
}

// N returns the number of participants.
func (w *World) N() int { return len(w.Parties) }

// ---------------------------------------------------------------------------------------------
// Operations

// Kind of an operation.
type Kind int

// Operation kinds.
const (
	OpInit Kind = iota
	OpUpdate
	OpForceUpdate
	OpSig
	OpAddSig
	OpEnableInit
	OpEnableUpdate
	OpEnableFinal
	OpDiscard
	OpSetFunded
	OpSetRegistering
	OpSetRegistered
	OpSetProgressing
	OpSetProgressed
	OpSetWithdrawing
	OpSetWithdrawn
	NumKinds
)

var kindNames = [...]string{"Init", "Update", "ForceUpdate", "Sig", "AddSig", "EnableInit", "EnableUpdate", "EnableFinal",
	"DiscardUpdate", "SetFunded", "SetRegistering", "SetRegistered", "SetProgressing", "SetProgressed", "SetWithdrawing", "SetWithdrawn"}

func (k Kind) String() string { return kindNames[k] }

// Argument classes.
const (
	// Init
	InitValid = iota
	InitWrongParts
	InitNegative
	InitAppRefuses // well-formed allocation, data the app refuses (not applicable to the payment app, which documents a panic)
	numInit
)

// Update / ForceUpdate classes.
const (
	UpdValid = iota
	UpdValidFinal
	UpdVersionPlus2
	UpdSumPlus1
	UpdValidByPeer // valid successor whose actor is another participant
	UpdAppRefuses  // otherwise valid successor with data the (data) app refuses; other apps: as UpdSumPlus1
	numUpd
	// UpdNarrow (ForceUpdate only): a state with one balance column less than there are
	// participants; the forced update is unchecked, but every participant still has to sign
	UpdNarrow = numUpd
)

// AddSig classes.
const (
	SigValid = iota
	SigBitFlip
	SigForeign
	SigReplay
	SigShort
	SigEmpty
	SigNil
	SigTrailing // a valid signature followed by extra bytes: malformed, must be refused
	numSigClasses
)

var (
	initClassNames = []string{"valid", "wrong-parts", "negative", "app-refuses"}
	updClassNames  = []string{"valid", "valid-final", "version+2", "sum+1", "valid-by-peer", "app-refuses", "one-column-less"}
	sigClassNames  = []string{"valid", "bitflip", "foreign", "replay", "short", "empty", "nil", "valid+trailing-bytes"}
)

// Op is one operation instance.
type Op struct {
	Kind  Kind
	I     int // signature index (AddSig)
	Class int
}

func (o Op) String() string {
	switch o.Kind {
	case OpInit:
		return "Init(" + initClassNames[o.Class] + ")"
	case OpUpdate, OpForceUpdate, OpSetProgressing, OpSetProgressed:
		return o.Kind.String() + "(" + updClassNames[o.Class] + ")"
	case OpAddSig:
		return fmt.Sprintf("AddSig(%d,%s)", o.I, sigClassNames[o.Class])
	}
	return o.Kind.String()
}

// Alphabet returns the complete list of operation instances for n participants.
func Alphabet(n int) []Op {
	var ops []Op
	for c := 0; c < numInit; c++ {
		ops = append(ops, Op{Kind: OpInit, Class: c})
	}
	for c := 0; c < numUpd; c++ {
		ops = append(ops, Op{Kind: OpUpdate, Class: c})
	}
	for _, c := range []int{UpdValid, UpdValidFinal, UpdVersionPlus2, UpdNarrow} {
		ops = append(ops, Op{Kind: OpForceUpdate, Class: c})
	}
	ops = append(ops, Op{Kind: OpSig})
	for i := 0; i < n; i++ {
		for c := 0; c < numSigClasses; c++ {
			ops = append(ops, Op{Kind: OpAddSig, I: i, Class: c})
		}
	}
	for k := OpEnableInit; k <= OpSetRegistered; k++ {
		ops = append(ops, Op{Kind: k})
	}
	ops = append(ops, Op{Kind: OpSetProgressing, Class: UpdValid}, Op{Kind: OpSetProgressed, Class: UpdValid}, Op{Kind: OpSetProgressed, Class: UpdValidFinal})
	ops = append(ops, Op{Kind: OpSetWithdrawing}, Op{Kind: OpSetWithdrawn})
	return ops
}

// ---------------------------------------------------------------------------------------------
// Execution with a shadow model

// Model is the reference automaton's state.
type Model struct {
	Phase     channel.Phase
	Staged    *channel.State // nil = nothing staged
	StagedSig []bool         // slot filled?
	Current   *channel.State // nil = no current state
	CurSigned bool           // current state carries all signatures (false after SetProgressed)
}

// Step is what monitors get to see for one call.
type Step struct {
	Op         Op
	Seq        []Op // operations executed so far including Op
	Applicable bool // false: the op was skipped (e.g. ForceUpdate without a current state)
	Err        error
	Panic      any
	SigOut     wallet.Sig // result of Sig()
	// argument actually used
	ArgState *channel.State
	ArgActor channel.Index
	ArgSig   wallet.Sig
	// reference expectations (computed before the call from the model)
	WantOK      bool
	WantVerdict refmodel.Verdict // for Init/Update: the successor predicate's verdict
	WantReason  string
	Before      Snapshot
	After       Snapshot
	ModelBefore Model
	ModelAfter  Model
}

// Snapshot is a deep copy of the observable machine state.
type Snapshot struct {
	Phase   channel.Phase
	Staging channel.Transaction
	Current channel.Transaction
	// canonical renderings of the two states at snapshot time (detect in-place mutation)
	StagingDigest, CurrentDigest string
}

// Snap takes a snapshot of a source.
func Snap(s channel.Source) Snapshot {
	sn := Snapshot{Phase: s.Phase(), Staging: cloneTx(s.StagingTX()), Current: cloneTx(s.CurrentTX())}
	if sn.Staging.State != nil {
		sn.StagingDigest = canon.String(sn.Staging.State)
	}
	if sn.Current.State != nil {
		sn.CurrentDigest = canon.String(sn.Current.State)
	}
	return sn
}

// cloneTx copies a transaction without using the repository's Clone (C19 checks that one):
// states are immutable in the explorer (never modified after creation), so sharing the state
// pointer is safe; the signature vector is copied.
func cloneTx(t channel.Transaction) channel.Transaction {
	out := channel.Transaction{State: t.State}
	if t.Sigs != nil {
		out.Sigs = make([]wallet.Sig, len(t.Sigs))
		for i, s := range t.Sigs {
			if s != nil {
				out.Sigs[i] = append([]byte{}, s...)
			}
		}
	}
	return out
}

// Exec couples a real machine with the model.
type Exec struct {
	W   *World
	D   Driver
	M   Model
	Seq []Op
	// bookkeeping for argument construction
	otherStaged *channel.State // a state that was staged earlier (for replayed signatures)
	counter     int
}

// NewExec starts from a fresh machine.
func NewExec(w *World, d Driver) *Exec {
	return &Exec{W: w, D: d, M: Model{Phase: channel.InitActing}}
}

// errNarrowBase: a successor was asked of an ill-dimensioned state (a forced narrow state became
// current or staged). The property says nothing about what follows such a state: the step is
// skipped, and this is not counted as a harness failure.
var errNarrowBase = fmt.Errorf("successor of an ill-dimensioned state")

// NarrowSkips counts steps skipped for errNarrowBase.
var NarrowSkips int64

func narrow(s *channel.State, n int) bool {
	for _, row := range s.Balances {
		if len(row) < n {
			return true
		}
	}
	return false
}

func inS(p channel.Phase) bool {
	return p == channel.InitSigning || p == channel.Signing || p == channel.Progressing
}

// successor builds a candidate successor of base.
func (e *Exec) successor(base *channel.State, class int) (*channel.State, channel.Index) {
	if narrow(base, e.W.N()) {
		panic(errNarrowBase)
	}
	s := base.Clone()
	s.Version = base.Version + 1
	s.IsFinal = false
	actor := channel.Index(e.W.Idx)
	n := e.W.N()
	switch class {
	case UpdValidByPeer:
		actor = channel.Index((e.W.Idx + 1) % n)
	}
	// move one unit from the actor to the next participant where possible (valid for every app)
	e.counter++
	for i := range s.Balances {
		from := int(actor)
		to := (from + 1) % n
		if s.Balances[i][from].Sign() > 0 {
			s.Balances[i][from] = new(big.Int).Sub(s.Balances[i][from], big.NewInt(1))
			s.Balances[i][to] = new(big.Int).Add(s.Balances[i][to], big.NewInt(1))
			break
		}
	}
	if d, ok := s.Data.(*gen.BytesData); ok {
		s.Data = &gen.BytesData{B: append(append([]byte(nil), d.B...), byte(e.counter))}
		if len(s.Data.(*gen.BytesData).B) > 32 {
			s.Data = &gen.BytesData{B: []byte{byte(e.counter)}}
		}
	}
	switch class {
	case UpdValidFinal:
		s.IsFinal = true
	case UpdVersionPlus2:
		s.Version = base.Version + 2
	case UpdSumPlus1:
		s.Balances[0][0] = new(big.Int).Add(s.Balances[0][0], big.NewInt(1))
	case UpdNarrow:
		for i := range s.Balances {
			l := len(s.Balances[i]) - 1
			s.Balances[i][0] = new(big.Int).Add(s.Balances[i][0], s.Balances[i][l])
			s.Balances[i] = s.Balances[i][:l]
		}
	case UpdAppRefuses:
		if e.W.App == gen.AppData {
			s.Data = &gen.BytesData{B: append(append([]byte(nil), gen.RefusedMarker...), byte(e.counter))}
		} else {
			s.Balances[0][0] = new(big.Int).Add(s.Balances[0][0], big.NewInt(1))
		}
	}
	return s, actor
}

func (e *Exec) signOver(i int, st *channel.State) wallet.Sig { return gen.Sign(e.W.Parties[i], st) }

// HarnessPanics counts steps skipped because the explorer's bookkeeping panicked.
var HarnessPanics int64

// Apply executes op on the real machine and on the model.
func (e *Exec) Apply(op Op) (ret *Step) {
	// The explorer's own bookkeeping must never bring the check down: after a reported defect the
	// implementation may be in a state the model has no picture of. Such a step is skipped and counted.
	defer func() {
		if p := recover(); p != nil {
			if p == any(errNarrowBase) {
				atomic.AddInt64(&NarrowSkips, 1)
				ret = &Step{Op: op, Applicable: false}
				return
			}
			if os.Getenv("MEXPLORE_DEBUG") != "" && atomic.LoadInt64(&HarnessPanics) < 3 {
				fmt.Printf("HARNESS PANIC %v op=%v\n%s\n", p, op, debug.Stack())
			}
			atomic.AddInt64(&HarnessPanics, 1)
			ret = &Step{Op: op, Applicable: false}
		}
	}()
	if e.W.WellFormedOnly && op.Kind == OpForceUpdate && op.Class == UpdNarrow {
		return &Step{Op: op, Applicable: false}
	}
	src := e.D.Source()
	st := &Step{Op: op, Applicable: true, ModelBefore: e.M}
	st.ModelBefore.StagedSig = append([]bool(nil), e.M.StagedSig...)
	n := e.W.N()
	m := e.M // copy; updated on success
	m.StagedSig = append([]bool(nil), e.M.StagedSig...)
	stage := func(s *channel.State, p channel.Phase) {
		m.Staged, m.StagedSig, m.Phase = s, make([]bool, n), p
	}
	complete := func() bool {
		if m.Staged == nil {
			return false
		}
		for _, b := range m.StagedSig {
			if !b {
				return false
			}
		}
		return true
	}
	var call func() error
	switch op.Kind {
	case OpInit:
		alloc := e.W.Init.Clone()
		switch op.Class {
		case InitWrongParts:
			for i := range alloc.Balances {
				alloc.Balances[i] = append(alloc.Balances[i], big.NewInt(1))
			}
		case InitNegative:
			alloc.Balances[0][0] = big.NewInt(-1)
		}
		v, why := refmodel.ValidInit(e.W.Params, &alloc)
		data := e.W.Data.Clone()
		if op.Class == InitAppRefuses {
			switch e.W.App {
			case gen.AppData:
				data = &gen.BytesData{B: append(append([]byte(nil), gen.RefusedMarker...), 7)}
			case gen.AppNone:
				data = &gen.BytesData{B: []byte{7}}
			default:
				st.Applicable = false
				return st
			}
			v, why = refmodel.Refuse, "the app refuses the initial data"
		}
		st.WantVerdict, st.WantReason = v, why
		st.WantOK = m.Phase == channel.InitActing && v == refmodel.Accept
		st.ArgState = &channel.State{Allocation: alloc, Data: data}
		call = func() error { return e.D.Init(alloc, data) }
		if st.WantOK {
			// the staged state is created by the machine; the model copies it after the call
			stage(nil, channel.InitSigning)
		}
	case OpUpdate:
		if m.Current == nil {
			// no current state to derive a candidate from: use a version-1 state built from the initial allocation
			base := &channel.State{ID: e.W.Params.ID(), App: e.W.Params.App, Allocation: e.W.Init.Clone(), Data: e.W.Data.Clone()}
			st.ArgState, st.ArgActor = e.successor(base, op.Class)
			st.WantOK = false
			st.WantReason = "no current state (phase cannot be Acting)"
		} else {
			st.ArgState, st.ArgActor = e.successor(m.Current, op.Class)
			v, why := refmodel.ValidSuccessor(e.W.Params, m.Current, st.ArgState, st.ArgActor)
			st.WantVerdict, st.WantReason = v, why
			st.WantOK = m.Phase == channel.Acting && v == refmodel.Accept
		}
		s, a := st.ArgState, st.ArgActor
		call = func() error { return e.D.Update(s, a) }
		if st.WantOK {
			stage(s, channel.Signing)
		}
	case OpForceUpdate:
		if m.Current == nil {
			st.Applicable = false
			return st
		}
		st.ArgState, st.ArgActor = e.successor(m.Current, op.Class)
		st.WantOK = true
		s, a := st.ArgState, st.ArgActor
		call = func() error { return e.D.ForceUpdate(s, a) }
		stage(s, channel.Signing)
	case OpSig:
		st.WantOK = inS(m.Phase)
		call = func() (err error) { st.SigOut, err = e.D.Sig(); return }
		if st.WantOK {
			if len(m.StagedSig) < n { // only after a reported defect left phase and staging inconsistent
				m.StagedSig = make([]bool, n)
			}
			m.StagedSig[e.W.Idx] = true
		}
	case OpAddSig:
		staged := src.StagingTX().State
		var sig wallet.Sig
		target := staged
		if target == nil {
			// nothing staged: sign the current or an arbitrary state; the call must fail on the phase anyway
			target = m.Current
			if target == nil {
				target = &channel.State{ID: e.W.Params.ID(), App: e.W.Params.App, Allocation: e.W.Init.Clone(), Data: e.W.Data.Clone()}
			}
		}
		switch op.Class {
		case SigValid:
			sig = e.signOver(op.I, target)
		case SigBitFlip:
			sig = e.signOver(op.I, target)
			sig[len(sig)/2] ^= 0x10
		case SigForeign:
			sig = e.signOver((op.I+1)%n, target)
		case SigReplay:
			same := func(a, b *channel.State) bool { return a == b || canon.String(a) == canon.String(b) }
			other := e.otherStaged
			if other == nil || same(other, target) {
				other = m.Current
			}
			if other == nil || same(other, target) {
				o := target.Clone()
				o.Version += 7
				other = o
			}
			sig = e.signOver(op.I, other)
		case SigShort:
			sig = e.signOver(op.I, target)[:63]
		case SigEmpty:
			sig = []byte{}
		case SigNil:
			sig = nil
		case SigTrailing:
			sig = append(append(wallet.Sig(nil), e.signOver(op.I, target)...), 0x00, 0x17)
		}
		st.ArgSig = sig
		if len(m.StagedSig) < n {
			m.StagedSig = make([]bool, n)
		}
		st.WantOK = inS(m.Phase) && staged != nil && !m.StagedSig[op.I] && op.Class == SigValid && op.I != e.W.Split
		i := channel.Index(op.I)
		call = func() error { return e.D.AddSig(i, sig) }
		if st.WantOK {
			m.StagedSig[op.I] = true
		}
	case OpEnableInit, OpEnableUpdate, OpEnableFinal:
		from, to := channel.InitSigning, channel.Funding
		wantFinal := false
		switch op.Kind {
		case OpEnableUpdate:
			from, to = channel.Signing, channel.Acting
		case OpEnableFinal:
			from, to, wantFinal = channel.Signing, channel.Final, true
		}
		st.WantOK = m.Phase == from && complete() && m.Staged.IsFinal == wantFinal
		switch op.Kind {
		case OpEnableInit:
			call = e.D.EnableInit
		case OpEnableUpdate:
			call = e.D.EnableUpdate
		default:
			call = e.D.EnableFinal
		}
		if st.WantOK {
			m.Current, m.CurSigned = m.Staged, true
			m.Staged, m.StagedSig, m.Phase = nil, nil, to
		}
	case OpDiscard:
		st.WantOK = m.Phase == channel.Signing
		call = e.D.DiscardUpdate
		if st.WantOK {
			m.Staged, m.StagedSig, m.Phase = nil, nil, channel.Acting
		}
	case OpSetFunded:
		st.WantOK = m.Phase == channel.Funding
		call = e.D.SetFunded
		if st.WantOK {
			m.Phase = channel.Acting
		}
	case OpSetRegistering, OpSetRegistered:
		st.WantOK = m.Phase >= channel.Funding
		to := channel.Registering
		call = e.D.SetRegistering
		if op.Kind == OpSetRegistered {
			to, call = channel.Registered, e.D.SetRegistered
		}
		if st.WantOK {
			m.Phase = to
		}
	case OpSetProgressing:
		base := m.Current
		if base == nil {
			base = &channel.State{ID: e.W.Params.ID(), App: e.W.Params.App, Allocation: e.W.Init.Clone(), Data: e.W.Data.Clone()}
		}
		st.ArgState, _ = e.successor(base, op.Class)
		st.WantOK = m.Phase == channel.Registered || m.Phase == channel.Progressing || m.Phase == channel.Progressed
		s := st.ArgState
		call = func() error { return e.D.SetProgressing(s) }
		if st.WantOK {
			stage(s, channel.Progressing)
		}
	case OpSetProgressed:
		base := m.Current
		if base == nil {
			base = &channel.State{ID: e.W.Params.ID(), App: e.W.Params.App, Allocation: e.W.Init.Clone(), Data: e.W.Data.Clone()}
		}
		st.ArgState, _ = e.successor(base, op.Class)
		st.WantOK = true
		s := st.ArgState
		ev := channel.NewProgressedEvent(e.W.Params.ID(), &channel.ElapsedTimeout{}, s, channel.Index(e.W.Idx))
		call = func() error { return e.D.SetProgressed(ev) }
		m.Current, m.CurSigned = s, false
		m.Staged, m.StagedSig, m.Phase = nil, nil, channel.Progressed
	case OpSetWithdrawing:
		st.WantOK = m.Phase == channel.Final || m.Phase == channel.Registered || m.Phase == channel.Progressed || m.Phase == channel.Withdrawing
		call = e.D.SetWithdrawing
		if st.WantOK {
			m.Phase = channel.Withdrawing
		}
	case OpSetWithdrawn:
		st.WantOK = m.Phase == channel.Withdrawing
		call = e.D.SetWithdrawn
		if st.WantOK {
			m.Phase = channel.Withdrawn
		}
	}

	st.Before = Snap(src)
	func() {
		defer func() {
			if p := recover(); p != nil {
				st.Panic = p
			}
		}()
		st.Err = call()
	}()
	st.After = Snap(src)
	e.Seq = append(e.Seq, op)
	st.Seq = append([]Op(nil), e.Seq...)

	// The model follows the *documented* behaviour. If the implementation disagrees the
	// monitors report it; afterwards the model is re-synchronised with the implementation so
	// that one defect does not produce a cascade of follow-up reports.
	if st.WantOK {
		if op.Kind == OpInit {
			m.Staged = st.After.Staging.State
		}
		e.M = m
	}
	st.ModelAfter = e.M
	if prev := st.Before.Staging.State; prev != nil && prev != st.After.Staging.State {
		e.otherStaged = prev
	}
	return st
}

// Resync makes the model follow the implementation after a reported disagreement.
func (e *Exec) Resync() {
	src := e.D.Source()
	e.M.Phase = src.Phase()
	stg, cur := src.StagingTX(), src.CurrentTX()
	e.M.Staged = stg.State
	e.M.StagedSig = nil
	if stg.State != nil {
		e.M.StagedSig = make([]bool, e.W.N())
		for i := range stg.Sigs {
			if i < len(e.M.StagedSig) {
				e.M.StagedSig[i] = stg.Sigs[i] != nil
			}
		}
	}
	e.M.Current = cur.State
	e.M.CurSigned = true
	for _, s := range cur.Sigs {
		if s == nil {
			e.M.CurSigned = false
		}
	}
}

// AbstractKey summarises the model state for de-duplication in the explorer.
func (e *Exec) AbstractKey() string {
	m := e.M
	k := fmt.Sprintf("%d|", m.Phase)
	if m.Staged != nil {
		k += fmt.Sprintf("s%v%v|", m.Staged.IsFinal, m.StagedSig)
	} else {
		k += "-|"
	}
	if m.Current != nil {
		v := m.Current.Version
		if v > 2 {
			v = 2
		}
		k += fmt.Sprintf("c%v%v%d", m.Current.IsFinal, m.CurSigned, v)
	} else {
		k += "-"
	}
	if e.otherStaged != nil {
		k += "|o"
	}
	return k
}
