// Package c05: the watcher refutes with the newest channel-tree states, once, and relays events.
package c05

import (
	"context"
	"fmt"
	"math/big"
	"math/rand"
	"strings"
	"sync"
	"time"

	"perun.network/go-perun/channel"
	"perun.network/go-perun/wallet"
	"perun.network/go-perun/watcher"
	"perun.network/go-perun/watcher/local"

	"verif/internal/ev"
	"verif/internal/gen"
	"verif/internal/sink"
	"verif/props"
)

func init() {
	props.Register(props.Entry{
		ID:    "C05",
		Level: "exploration",
		Rule: "histories over one ledger channel P and up to two sub-channels against the real watcher/local.Watcher with a scripted RegisterSubscriber: publish P v+1 (optionally locking/unlocking a sub-channel), publish sub v+1, registered(ch, version in {0, older, equal, newer than published}), progressed, concluded, start sub, stop sub, stop P (refused while sub-channels are watched, or not), repeated stops; " +
			"all histories up to a length bound from four start configurations (exhaustive) plus random histories of length <= 25; after every operation the Register calls received, the events on every EventStream and the results of Start/StopWatching are compared with a reference model (appendix B). " +
			"Concurrent mode: publishers of P and S1 race with outdated/equal/newer registered events (also the same registration on both channels at once); every Register call must carry versions between the newest one certainly consumed before the event and the newest one published before the call, must happen when a newer version was certainly consumed, must not happen more than once or without a newer version, and relaying is exact; also under the race detector (a race inside watcher/local is a violation: the property is about concurrent publishes and events). " +
			"A case is a history (operation list); non-trivial iff it contains >= 1 registered event with a version below the published one",
		Run:       run,
		ChildMain: childMain,
	})
}

var ctx = context.Background()

// ---------------------------------------------------------------------------------------------
// scripted adjudicator

type regCall struct {
	Parent int     // channel index
	PV     int64   // parent tx version
	Subs   []int64 // per locked sub-allocation: version of the sub-channel state, -1 if nil
	SubIDs []int
	Stamp  int64 // logical time of the call (concurrent mode)
	Failed bool  // the scripted ledger refused this call
}

func (r regCall) String() string {
	s := fmt.Sprintf("Register(ch%d v%d, subs %v=%v)", r.Parent, r.PV, r.SubIDs, r.Subs)
	if r.Failed {
		s += " refused by the ledger"
	}
	return s
}

type scriptedSub struct {
	events  chan channel.AdjudicatorEvent
	entered chan struct{}
	closed  chan struct{}
	once    sync.Once
}

func (s *scriptedSub) Next() channel.AdjudicatorEvent {
	select {
	case s.entered <- struct{}{}:
	default:
	}
	select {
	case e := <-s.events:
		return e
	case <-s.closed:
		return nil
	}
}
func (s *scriptedSub) Err() error   { return nil }
func (s *scriptedSub) Close() error { s.once.Do(func() { close(s.closed) }); return nil }

type scriptedRS struct {
	mu    sync.Mutex
	w     *world
	subs  map[channel.ID]*scriptedSub
	calls []regCall
	// failNext: the next Register call returns an error (a transient ledger failure)
	failNext bool
}

func (rs *scriptedRS) Subscribe(_ context.Context, id channel.ID) (channel.AdjudicatorSubscription, error) {
	s := &scriptedSub{events: make(chan channel.AdjudicatorEvent), entered: make(chan struct{}, 1), closed: make(chan struct{})}
	rs.mu.Lock()
	rs.subs[id] = s
	rs.mu.Unlock()
	return s, nil
}

func (rs *scriptedRS) Register(_ context.Context, req channel.AdjudicatorReq, subs []channel.SignedState) error {
	c := regCall{Parent: rs.w.index(req.Tx.ID), PV: int64(req.Tx.Version), Stamp: tick()}
	for i, s := range subs {
		v := int64(-1)
		if s.State != nil {
			v = int64(s.State.Version)
			if i < len(req.Tx.Locked) && s.State.ID != req.Tx.Locked[i].ID {
				v = -2 // state of another channel
			}
		}
		c.Subs = append(c.Subs, v)
		if i < len(req.Tx.Locked) {
			c.SubIDs = append(c.SubIDs, rs.w.index(req.Tx.Locked[i].ID))
		}
	}
	rs.mu.Lock()
	c.Failed, rs.failNext = rs.failNext, false
	rs.calls = append(rs.calls, c)
	rs.mu.Unlock()
	if c.Failed {
		return fmt.Errorf("scripted ledger: transaction failed")
	}
	return nil
}

// ---------------------------------------------------------------------------------------------
// world: the real watcher plus the reference model

const nCh = 3 // channel 0 = P, 1..2 = sub-channels

type mch struct {
	watched bool
	pub     int64 // newest published version
	locked  []int // parent only: locked sub-channel indices in order
	regVer  int64
	relayed int64 // -1: none
}

type world struct {
	w       *local.Watcher
	rs      *scriptedRS
	ids     [nCh]channel.ID
	params  [nCh]*channel.Params
	pubs    [nCh]watcher.StatesPub
	subs    [nCh]watcher.AdjudicatorSub
	asset   channel.Asset
	m       [nCh]mch
	archive map[int]int64 // sub index -> archived version
	subsOfP map[int]bool
	pClosed bool
}

func (w *world) index(id channel.ID) int {
	for i := range w.ids {
		if w.ids[i] == id {
			return i
		}
	}
	return -1
}

func newWorld(rng *rand.Rand) *world {
	w := &world{archive: map[int]int64{}, subsOfP: map[int]bool{}}
	w.rs = &scriptedRS{w: w, subs: map[channel.ID]*scriptedSub{}}
	w.asset = gen.Asset(rng)
	for i := range w.ids {
		w.ids[i] = gen.ID(rng)
		w.params[i] = &channel.Params{ChallengeDuration: 10}
		w.m[i].relayed = -1
	}
	lw, err := local.NewWatcher(w.rs)
	if err != nil {
		panic(err)
	}
	w.w = lw
	return w
}

func (w *world) tx(i int, version int64, locked []int) channel.Transaction {
	st := &channel.State{ID: w.ids[i], Version: uint64(version), App: channel.NoApp(), Data: channel.NoData()}
	st.Assets = []channel.Asset{w.asset}
	st.Backends = []wallet.BackendID{gen.B}
	st.Balances = channel.Balances{{big.NewInt(5), big.NewInt(5)}}
	for _, s := range locked {
		st.Locked = append(st.Locked, channel.SubAlloc{ID: w.ids[s], Bals: []channel.Bal{big.NewInt(1)}, IndexMap: []channel.Index{}})
	}
	return channel.Transaction{State: st}
}

// ---------------------------------------------------------------------------------------------
// operations

type kind int

const (
	kPubP   kind = iota // Arg: 0 plain, 1/2: toggle the lock of sub Arg
	kPubS               // Ch
	kReg                // Ch, Arg: 0 version 0, 1 older, 2 equal, 3 newer, 4 older and the ledger refuses the watcher's next Register call
	kProg               // Ch
	kConc               // Ch
	kStartS             // Ch
	kStop               // Ch
)

type op struct {
	K   kind
	Ch  int
	Arg int
}

func (o op) String() string {
	switch o.K {
	case kPubP:
		if o.Arg == 0 {
			return "publish(P)"
		}
		return fmt.Sprintf("publish(P,toggle-lock S%d)", o.Arg)
	case kPubS:
		return fmt.Sprintf("publish(S%d)", o.Ch)
	case kReg:
		return fmt.Sprintf("registered(%s,%s)", chName(o.Ch), []string{"v0", "older", "equal", "newer", "older+register-refused"}[o.Arg])
	case kProg:
		return fmt.Sprintf("progressed(%s)", chName(o.Ch))
	case kConc:
		return fmt.Sprintf("concluded(%s)", chName(o.Ch))
	case kStartS:
		return fmt.Sprintf("start(S%d)", o.Ch)
	default:
		return fmt.Sprintf("stop(%s)", chName(o.Ch))
	}
}

func chName(i int) string {
	if i == 0 {
		return "P"
	}
	return fmt.Sprintf("S%d", i)
}

func alphabet() []op {
	var a []op
	a = append(a, op{K: kPubP}, op{K: kPubP, Arg: 1}, op{K: kPubP, Arg: 2})
	for c := 1; c < nCh; c++ {
		a = append(a, op{K: kPubS, Ch: c}, op{K: kStartS, Ch: c})
	}
	for c := 0; c < nCh; c++ {
		for v := 0; v < 5; v++ {
			a = append(a, op{K: kReg, Ch: c, Arg: v})
		}
		a = append(a, op{K: kProg, Ch: c}, op{K: kConc, Ch: c}, op{K: kStop, Ch: c})
	}
	return a
}

type obs struct {
	regs   []string
	events [nCh][]string
	closed [nCh]bool
	result string
	// after a refused Register call the statement leaves open whether the event is relayed
	// ("at most once"): optEvent on channel optCh may or may not be observed
	optCh    int
	optEvent string
	optVer   int64
}

func (o obs) String() string {
	return fmt.Sprintf("register calls %v; relayed P%v S1%v S2%v; stream closed %v; result %q", o.regs, o.events[0], o.events[1], o.events[2], o.closed, o.result)
}

func has(a []int, x int) bool {
	for _, y := range a {
		if y == x {
			return true
		}
	}
	return false
}

// applicable tells whether op is inside the statement's domain in the current model state.
func (w *world) applicable(o op) bool {
	m := &w.m
	switch o.K {
	case kPubP:
		if !m[0].watched {
			return false
		}
		if o.Arg != 0 {
			s := o.Arg
			if has(m[0].locked, s) {
				return true // unlocking is always possible
			}
			// locking requires that the sub-channel is watched (or archived while still locked: impossible here as it is not locked)
			return m[s].watched
		}
		return true
	case kPubS:
		return m[o.Ch].watched
	case kReg, kProg, kConc:
		return m[o.Ch].watched
	case kStartS:
		return true // errors are part of the specified behaviour
	case kStop:
		return true
	}
	return false
}

// expect advances the model and returns the expected observation.
func (w *world) expect(o op) obs {
	var e obs
	m := &w.m
	switch o.K {
	case kPubP:
		m[0].pub++
		if o.Arg != 0 {
			s := o.Arg
			if has(m[0].locked, s) {
				var l []int
				for _, x := range m[0].locked {
					if x != s {
						l = append(l, x)
					}
				}
				m[0].locked = l
				delete(w.archive, s)
			} else {
				m[0].locked = append(m[0].locked, s)
			}
		}
	case kPubS:
		m[o.Ch].pub++
	case kReg:
		c := o.Ch
		v := w.regVersion(o)
		if v < m[c].pub && v >= m[c].regVer {
			call := regCall{Parent: 0, PV: m[0].pub, Failed: o.Arg == 4}
			for _, s := range m[0].locked {
				call.SubIDs = append(call.SubIDs, s)
				if m[s].watched {
					call.Subs = append(call.Subs, m[s].pub)
				} else {
					call.Subs = append(call.Subs, w.archive[s])
				}
			}
			e.regs = append(e.regs, call.String())
			if call.Failed {
				// nothing was registered: the bookkeeping must not move
				if m[c].relayed < v {
					e.optCh, e.optEvent, e.optVer = c, fmt.Sprintf("registered(v%d)", v), v
				}
				break
			}
			m[0].regVer = m[0].pub
			for _, s := range m[0].locked {
				if m[s].watched {
					m[s].regVer = m[s].pub
				}
			}
		}
		if m[c].relayed < v {
			e.events[c] = append(e.events[c], fmt.Sprintf("registered(v%d)", v))
			m[c].relayed = v
		}
	case kProg:
		e.events[o.Ch] = append(e.events[o.Ch], "progressed")
	case kConc:
		e.events[o.Ch] = append(e.events[o.Ch], "concluded")
	case kStartS:
		switch {
		case !m[0].watched, m[o.Ch].watched:
			e.result = "error"
		default:
			m[o.Ch] = mch{watched: true, pub: 0, relayed: -1}
			w.subsOfP[o.Ch] = true
			e.result = "ok"
		}
	case kStop:
		c := o.Ch
		switch {
		case !m[c].watched:
			e.result = "error"
		case c == 0 && len(w.subsOfP) > 0:
			e.result = "sub-channels-present"
		case c == 0:
			m[0].watched = false
			e.closed[0] = true
			e.result = "ok"
		default:
			if has(m[0].locked, c) {
				w.archive[c] = m[c].pub
			}
			delete(w.subsOfP, c)
			m[c].watched = false
			e.closed[c] = true
			e.result = "ok"
		}
	}
	return e
}

func (w *world) regVersion(o op) int64 {
	p := w.m[o.Ch].pub
	switch o.Arg {
	case 0:
		return 0
	case 1, 4:
		if p == 0 {
			return 0
		}
		return p - 1
	case 2:
		return p
	default:
		return p + 1
	}
}

// do executes op on the real watcher (with barriers) and returns what was observed.
func (w *world) do(o op, lockedAfter []int, pubAfter int64, regV int64) (out obs, inconclusive string) {
	defer func() {
		if p := recover(); p != nil {
			out.result = fmt.Sprintf("PANIC: %v", p)
		}
	}()
	nRegs := func() int { w.rs.mu.Lock(); defer w.rs.mu.Unlock(); return len(w.rs.calls) }
	before := nRegs()
	publish := func(i int, tx channel.Transaction) string {
		// the original plus as many copies as the pipe holds: when the last copy is accepted
		// the original has been consumed by the watcher
		for k := 0; k < pipeCap(w.pubs[i])+2; k++ {
			done := make(chan error, 1)
			go func() { done <- w.pubs[i].Publish(ctx, tx) }()
			select {
			case <-done:
			case <-time.After(10 * time.Second):
				return "watchdog: Publish blocked"
			}
		}
		return ""
	}
	deliver := func(i int, e channel.AdjudicatorEvent) string {
		w.rs.mu.Lock()
		s := w.rs.subs[w.ids[i]]
		w.rs.mu.Unlock()
		select {
		case s.events <- e:
		case <-time.After(10 * time.Second):
			return "watchdog: the watcher did not take the event"
		}
		select {
		case <-s.entered:
		case <-s.closed:
		case <-time.After(10 * time.Second):
			return "watchdog: the watcher did not come back for the next event"
		}
		return ""
	}
	switch o.K {
	case kPubP:
		inconclusive = publish(0, w.tx(0, pubAfter, lockedAfter))
	case kPubS:
		inconclusive = publish(o.Ch, w.tx(o.Ch, pubAfter, nil))
	case kReg:
		w.rs.mu.Lock()
		w.rs.failNext = o.Arg == 4
		w.rs.mu.Unlock()
		inconclusive = deliver(o.Ch, channel.NewRegisteredEvent(w.ids[o.Ch], &channel.ElapsedTimeout{}, uint64(regV), nil, nil))
		w.rs.mu.Lock()
		w.rs.failNext = false
		w.rs.mu.Unlock()
	case kProg:
		inconclusive = deliver(o.Ch, channel.NewProgressedEvent(w.ids[o.Ch], &channel.ElapsedTimeout{}, &channel.State{ID: w.ids[o.Ch]}, 0))
	case kConc:
		inconclusive = deliver(o.Ch, channel.NewConcludedEvent(w.ids[o.Ch], &channel.ElapsedTimeout{}, 0))
	case kStartS:
		tx := w.tx(o.Ch, 0, nil)
		pub, sub, err := w.w.StartWatchingSubChannel(ctx, w.ids[0], channel.SignedState{Params: w.params[o.Ch], State: tx.State, Sigs: tx.Sigs})
		if err != nil {
			out.result = "error"
		} else {
			out.result = "ok"
			w.pubs[o.Ch], w.subs[o.Ch] = pub, sub
			inconclusive = w.awaitFirstNext(o.Ch)
		}
	case kStop:
		done := make(chan error, 1)
		var pan any
		go func() {
			defer func() {
				if p := recover(); p != nil {
					pan = p
					done <- nil
				}
			}()
			done <- w.w.StopWatching(ctx, w.ids[o.Ch])
		}()
		select {
		case err := <-done:
			switch {
			case pan != nil:
				out.result = fmt.Sprintf("PANIC: %v", pan)
			case err == nil:
				out.result = "ok"
			case local.IsErrSubChannelsPresent(err):
				out.result = "sub-channels-present"
			default:
				out.result = "error"
			}
		case <-time.After(10 * time.Second):
			inconclusive = "watchdog: StopWatching blocked"
		}
	}
	// collect
	w.rs.mu.Lock()
	for _, c := range w.rs.calls[before:] {
		out.regs = append(out.regs, c.String())
	}
	w.rs.mu.Unlock()
	for i := 0; i < nCh; i++ {
		if w.subs[i] == nil {
			continue
		}
	drain:
		for {
			select {
			case e, ok := <-w.subs[i].EventStream():
				if !ok {
					out.closed[i] = true
					w.subs[i] = nil
					break drain
				}
				switch x := e.(type) {
				case *channel.RegisteredEvent:
					out.events[i] = append(out.events[i], fmt.Sprintf("registered(v%d)", x.Version()))
				case *channel.ProgressedEvent:
					out.events[i] = append(out.events[i], "progressed")
				case *channel.ConcludedEvent:
					out.events[i] = append(out.events[i], "concluded")
				}
			default:
				break drain
			}
		}
	}
	return out, inconclusive
}

func (w *world) awaitFirstNext(i int) string {
	w.rs.mu.Lock()
	s := w.rs.subs[w.ids[i]]
	w.rs.mu.Unlock()
	select {
	case <-s.entered:
		return ""
	case <-time.After(10 * time.Second):
		return "watchdog: the watcher never asked for an event"
	}
}

func (w *world) startP() string {
	tx := w.tx(0, 0, nil)
	pub, sub, err := w.w.StartWatchingLedgerChannel(ctx, channel.SignedState{Params: w.params[0], State: tx.State, Sigs: tx.Sigs})
	if err != nil {
		return "StartWatchingLedgerChannel failed: " + err.Error()
	}
	w.pubs[0], w.subs[0] = pub, sub
	w.m[0] = mch{watched: true, relayed: -1}
	return w.awaitFirstNext(0)
}

func (w *world) shutdown() {
	// stop everything that is still watched so that the watcher's goroutines end
	for c := nCh - 1; c >= 0; c-- {
		func() {
			defer func() { _ = recover() }()
			done := make(chan struct{})
			go func() {
				defer func() { _ = recover(); close(done) }()
				_ = w.w.StopWatching(ctx, w.ids[c])
			}()
			select {
			case <-done:
			case <-time.After(2 * time.Second):
			}
		}()
	}
}

type witness struct {
	History  []string `json:"history"`
	Step     int      `json:"failing_step"`
	Expected string   `json:"expected"`
	Observed string   `json:"observed"`
}

// runHistory executes prefix+ops and compares every step with the model. It returns false if
// an operation was not applicable (the history is outside the domain and is not counted).
func runHistory(r *ev.Run, rng *rand.Rand, ops []op) bool {
	w := newWorld(rng)
	defer w.shutdown()
	if msg := w.startP(); msg != "" {
		r.Inconclusive(msg)
		return true
	}
	var hist []string
	nontrivial := false
	for i, o := range ops {
		if !w.applicable(o) {
			return false
		}
		hist = append(hist, o.String())
		regV := int64(0)
		if o.K == kReg {
			regV = w.regVersion(o)
			if regV < w.m[o.Ch].pub {
				nontrivial = true
			}
		}
		want := w.expect(o)
		pubAfter := int64(0)
		if o.K == kPubP {
			pubAfter = w.m[0].pub
		} else if o.K == kPubS {
			pubAfter = w.m[o.Ch].pub
		}
		got, inc := w.do(o, append([]int(nil), w.m[0].locked...), pubAfter, regV)
		if inc != "" {
			r.Inconclusive(inc)
			return true
		}
		r.Count("operations", 1)
		r.Count("register_calls_observed", int64(len(got.regs)))
		for c := range got.events {
			r.Count("events_relayed", int64(len(got.events[c])))
		}
		if o.K == kStop && want.result == "sub-channels-present" {
			r.Count("refused_stops", 1)
		}
		if want.optEvent != "" {
			if ev := got.events[want.optCh]; len(ev) == 1 && ev[0] == want.optEvent {
				want.events[want.optCh] = ev
				w.m[want.optCh].relayed = want.optVer
				r.Count("events_relayed_after_a_refused_register_call", 1)
			}
		}
		if o.K == kReg && o.Arg == 4 && len(got.regs) > 0 {
			r.Count("register_calls_refused_by_the_scripted_ledger", 1)
		}
		if want.String() != got.String() {
			class := "mismatch/" + strings.SplitN(o.String(), "(", 2)[0]
			if strings.HasPrefix(got.result, "PANIC") {
				class = "panic/" + strings.SplitN(o.String(), "(", 2)[0]
			}
			r.Violation("C05/"+class, fmt.Sprintf("step %d %s: expected {%s} but observed {%s} [history: %s]", i, o, want, got, strings.Join(hist, " ; ")),
				witness{History: hist, Step: i, Expected: want.String(), Observed: got.String()})
			r.Case(strings.Join(hist, ";"), nontrivial)
			return true
		}
	}
	r.Case(strings.Join(hist, ";"), nontrivial)
	r.Count("histories", 1)
	if r.WantSample() && nontrivial && len(hist) > 4 {
		r.Sample(map[string]any{"history": hist})
	}
	return true
}

// start configurations for the exhaustive part
var prefixes = [][]op{
	{},
	{{K: kPubP}, {K: kPubP}},
	{{K: kStartS, Ch: 1}, {K: kPubP, Arg: 1}, {K: kPubS, Ch: 1}, {K: kPubS, Ch: 1}},
	{{K: kStartS, Ch: 1}, {K: kStartS, Ch: 2}, {K: kPubP, Arg: 1}, {K: kPubP, Arg: 2}, {K: kPubS, Ch: 2}, {K: kStop, Ch: 1}},
}

func run(r *ev.Run, cfg props.Cfg) {
	alpha := alphabet()
	depth := cfg.Pick(3, 4)
	nRandom := cfg.Pick(2000, 50000)
	type job struct{ ops []op }
	jobs := make(chan job, 1024)
	var wg sync.WaitGroup
	for wk := 0; wk < cfg.Workers*2; wk++ { // the watcher mostly waits on its 1 ms timers
		wk := wk
		wg.Add(1)
		go func() {
			defer wg.Done()
			rng := gen.NewRand(cfg.Seed, fmt.Sprintf("c05/w%d", wk))
			for j := range jobs {
				if runHistory(r, rng, j.ops) {
					r.Count("histories_in_domain", 1)
				} else {
					r.Count("histories_outside_domain_skipped", 1)
				}
			}
		}()
	}
	// exhaustive: every sequence of length <= depth after each prefix
	var rec func(cur []op, left int)
	rec = func(cur []op, left int) {
		jobs <- job{append([]op(nil), cur...)}
		if left == 0 {
			return
		}
		for _, o := range alpha {
			rec(append(cur, o), left-1)
		}
	}
	for _, p := range prefixes {
		rec(append([]op(nil), p...), depth)
	}
	r.Set("exhaustive_depth_after_each_start_configuration", depth)
	r.Set("alphabet_size", len(alpha))
	// random histories
	rng := gen.NewRand(cfg.Seed, "c05/random")
	for i := 0; i < nRandom; i++ {
		n := 5 + rng.Intn(21)
		ops := append([]op(nil), prefixes[rng.Intn(len(prefixes))]...)
		// keep the history inside the domain by construction: simulate applicability on a model-only world
		mw := newModelWorld()
		for _, o := range ops {
			mw.expect(o)
		}
		for len(ops) < n {
			o := alpha[rng.Intn(len(alpha))]
			if rng.Intn(3) == 0 {
				o = op{K: kReg, Ch: rng.Intn(nCh), Arg: rng.Intn(4)}
			}
			if !mw.applicable(o) {
				continue
			}
			if o.K == kStop && o.Ch == 0 && len(mw.subsOfP) == 0 && rng.Intn(4) != 0 {
				continue // do not end P's life too early
			}
			mw.expect(o)
			ops = append(ops, o)
		}
		jobs <- job{ops}
	}
	close(jobs)
	wg.Wait()
	// concurrent mode: publishers racing with events, interval oracle (plain build, then -race slice)
	runConcurrent(r, cfg, cfg.Pick(1500, 30000), "main", cfg.Workers)
	sink.RaceSlice(r, cfg, "C05", cfg.Workers/2, func(report string) (string, bool) {
		if strings.Contains(report, "go-perun/watcher/local.") {
			return sink.RaceSig(report), true
		}
		return "", false
	})
	r.Assume("concurrent mode: a published version counts as seen by the watcher once as many later publishes as the pipe holds (+1) have returned; as possibly seen once its Publish was called")
	r.Assume("single ledger; every locked sub-channel is watched or was de-registered while locked (histories outside this domain are skipped and counted)")
	r.Assume("the scripted Register always succeeds; after every operation a barrier (pipe capacity + 2 publishes of the same transaction / the watcher asking for the next event) makes its effects complete without sleeping")
}

func newModelWorld() *world {
	w := &world{archive: map[int]int64{}, subsOfP: map[int]bool{}}
	for i := range w.m {
		w.m[i].relayed = -1
	}
	w.m[0] = mch{watched: true, relayed: -1}
	return w
}
