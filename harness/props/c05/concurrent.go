package c05

// Concurrent mode: publishers and adjudicator events race on the real watcher. The exact model of
// the sequential mode cannot say which published transaction the watcher has already seen, so the
// oracle is an interval: a refutation must carry, for every channel of the tree, a version between
//   L = the newest version that had provably been taken out of the publish pipe before the event
//       was handed to the watcher, and
//   U = the newest version whose Publish had been called before the Register call arrived.
// Whether it must / may / must not refute follows from the same bounds. Relaying is exact.
// All ordering decisions use one shared logical counter, never the wall clock.

import (
	"fmt"
	"math/rand"
	"reflect"
	"runtime"
	"strings"
	"sync"
	"sync/atomic"
	"time"

	"perun.network/go-perun/channel"

	"verif/internal/childrun"
	"verif/internal/gen"
	"verif/internal/sink"
	"verif/props"
)

var clock int64

func tick() int64 { return atomic.AddInt64(&clock, 1) }

// pipeCap returns the capacity of the watcher's publish pipe (read by reflection so that the
// barriers keep working if the buffer size is changed); 10 if it cannot be determined.
func pipeCap(pub any) int {
	n, _ := pipeCapKnown(pub)
	return n
}

// pipeCapKnown also tells whether the capacity could be read (a publisher with exactly one channel field).
func pipeCapKnown(pub any) (int, bool) {
	v := reflect.ValueOf(pub)
	for v.Kind() == reflect.Ptr || v.Kind() == reflect.Interface {
		if v.IsNil() {
			return 10, false
		}
		v = v.Elem()
	}
	if v.Kind() == reflect.Struct {
		n, found := 0, 0
		for i := 0; i < v.NumField(); i++ {
			if f := v.Field(i); f.Kind() == reflect.Chan {
				n, found = f.Cap(), found+1
			}
		}
		if found == 1 {
			return n, true
		}
	}
	return 10, false
}

type pubRec struct{ called, returned int64 }

type cEvent struct {
	Ch   int   `json:"channel"`
	V    int64 `json:"version"`
	H    int64 `json:"handed_at"`
	D    int64 `json:"handled_at"`
	Pair bool  `json:"delivered_concurrently_with_the_next"`
}

type cWitness struct {
	Setup     []string           `json:"setup"`
	Initial   [nCh]int64         `json:"versions_published_before_the_concurrent_phase"`
	Events    []cEvent           `json:"events"`
	Registers []string           `json:"register_calls_with_stamps"`
	Publishes map[string][]int64 `json:"publish_called_returned_stamps"`
	Problem   string             `json:"problem"`
}

// concurrentHistory runs one concurrent history and judges it.
func concurrentHistory(s sink.Sink, rng *rand.Rand, sample bool) {
	w := newWorld(rng)
	defer w.shutdown()
	if msg := w.startP(); msg != "" {
		s.Inconclusive(msg)
		return
	}
	// sequential setup with the exact model (so that the initial versions are known)
	withSub := rng.Intn(3) != 0
	var setup []op
	if withSub {
		setup = append(setup, op{K: kStartS, Ch: 1}, op{K: kPubP, Arg: 1})
		for k := rng.Intn(3); k > 0; k-- {
			setup = append(setup, op{K: kPubS, Ch: 1})
		}
	}
	for k := rng.Intn(3); k > 0; k-- {
		setup = append(setup, op{K: kPubP})
	}
	var setupStr []string
	for _, o := range setup {
		setupStr = append(setupStr, o.String())
		want := w.expect(o)
		pubAfter := int64(0)
		if o.K == kPubP {
			pubAfter = w.m[0].pub
		} else if o.K == kPubS {
			pubAfter = w.m[o.Ch].pub
		}
		got, inc := w.do(o, append([]int(nil), w.m[0].locked...), pubAfter, 0)
		if inc != "" {
			s.Inconclusive(inc)
			return
		}
		if want.String() != got.String() {
			// the sequential mode reports these; here the history is just unusable
			s.Inconclusive("setup step deviated from the sequential model: " + o.String())
			return
		}
	}
	chans := []int{0}
	if withSub {
		chans = append(chans, 1)
	}
	var initial [nCh]int64
	for _, c := range chans {
		initial[c] = w.m[c].pub
	}
	locked := append([]int(nil), w.m[0].locked...)
	capInt, capKnown := pipeCapKnown(w.pubs[0])
	capN := int64(capInt)

	// concurrent phase
	K := 12 + rng.Intn(30)
	recs := map[int][]pubRec{}
	var wg sync.WaitGroup
	var pubPanic atomic.Value
	for _, c := range chans {
		recs[c] = make([]pubRec, K)
	}
	for _, c := range chans {
		c := c
		rec := recs[c]
		prng := rand.New(rand.NewSource(rng.Int63()))
		wg.Add(1)
		go func() {
			defer wg.Done()
			defer func() {
				if p := recover(); p != nil {
					pubPanic.Store(fmt.Sprint(p))
				}
			}()
			for k := 0; k < K; k++ {
				for y := prng.Intn(4); y > 0; y-- {
					runtime.Gosched()
				}
				if prng.Intn(8) == 0 {
					time.Sleep(time.Duration(prng.Intn(300)) * time.Microsecond)
				}
				v := initial[c] + int64(k) + 1
				var l []int
				if c == 0 {
					l = locked
				}
				tx := w.tx(c, v, l)
				atomic.StoreInt64(&rec[k].called, tick())
				_ = w.pubs[c].Publish(ctx, tx)
				atomic.StoreInt64(&rec[k].returned, tick())
			}
		}()
	}
	lastReturned := func(c int) int64 { // racy read is fine: only used to choose interesting versions
		n := int64(0)
		for k := range recs[c] {
			if atomic.LoadInt64(&recs[c][k].returned) != 0 {
				n = int64(k) + 1
			}
		}
		return initial[c] + n
	}
	nEvents := 3 + rng.Intn(6)
	withSubStopped := false
	var raceFrom, raceTo int64
	var events []cEvent
	inconclusive := ""
	deliver := func(c int, v int64) (h, d int64, msg string) {
		w.rs.mu.Lock()
		sub := w.rs.subs[w.ids[c]]
		w.rs.mu.Unlock()
		e := channel.NewRegisteredEvent(w.ids[c], &channel.ElapsedTimeout{}, uint64(v), nil, nil)
		h = tick()
		select {
		case sub.events <- e:
		case <-time.After(20 * time.Second):
			return h, 0, "watchdog: the watcher did not take the event"
		}
		select {
		case <-sub.entered:
		case <-time.After(20 * time.Second):
			return h, 0, "watchdog: the watcher did not come back for the next event"
		}
		return h, tick(), ""
	}
	for i := 0; i < nEvents && inconclusive == ""; i++ {
		for y := rng.Intn(6); y > 0; y-- {
			runtime.Gosched()
		}
		if rng.Intn(4) == 0 {
			time.Sleep(time.Duration(rng.Intn(500)) * time.Microsecond)
		}
		if withSub && initial[0] >= 1 && initial[1] >= 1 && rng.Intn(4) == 0 {
			// the same outdated registration seen on both channels of the tree at once
			var res [2]cEvent
			var msgs [2]string
			var pw sync.WaitGroup
			for j, c := range []int{0, 1} {
				j, c := j, c
				pw.Add(1)
				go func() {
					defer pw.Done()
					h, d, m := deliver(c, 0)
					res[j] = cEvent{Ch: c, V: 0, H: h, D: d, Pair: j == 0}
					msgs[j] = m
				}()
			}
			pw.Wait()
			events = append(events, res[0], res[1])
			if msgs[0]+msgs[1] != "" {
				inconclusive = msgs[0] + msgs[1]
			}
			continue
		}
		c := chans[rng.Intn(len(chans))]
		lr := lastReturned(c)
		var v int64
		switch rng.Intn(6) {
		case 0:
			v = 0
		case 1:
			v = lr - capN - 2 // certainly consumed
		case 2:
			v = lr - 1
		case 3:
			v = lr + 5
		case 4:
			v = initial[c]
		default:
			v = int64(rng.Intn(int(initial[c]) + K + 2))
		}
		if v < 0 {
			v = 0
		}
		h, d, m := deliver(c, v)
		events = append(events, cEvent{Ch: c, V: v, H: h, D: d})
		inconclusive = m
	}
	done := make(chan struct{})
	go func() { wg.Wait(); close(done) }()
	select {
	case <-done:
	case <-time.After(30 * time.Second):
		s.Inconclusive("watchdog: a publisher blocked")
		return
	}
	if inconclusive != "" {
		s.Inconclusive(inconclusive)
		return
	}
	// A de-registration racing with a registered event of the same sub-channel: whichever comes
	// first, both must come to an end, and the family must stay responsive. (Bounded progress with a
	// margin of 20 s on an otherwise idle watcher, like the other stall verdicts.)
	stopRace := ""
	if withSub && rng.Intn(3) == 0 {
		w.rs.mu.Lock()
		sub1 := w.rs.subs[w.ids[1]]
		w.rs.mu.Unlock()
		ev1 := channel.NewRegisteredEvent(w.ids[1], &channel.ElapsedTimeout{}, 0, nil, nil)
		raceFrom = tick()
		stopped := make(chan error, 1)
		handed := make(chan bool, 1)
		go func() {
			for y := rng.Intn(3); y > 0; y-- {
				runtime.Gosched()
			}
			select {
			case sub1.events <- ev1:
				handed <- true
			case <-sub1.closed:
				handed <- false
			case <-time.After(25 * time.Second):
				handed <- false
			}
		}()
		go func() { stopped <- w.w.StopWatching(ctx, w.ids[1]) }()
		select {
		case <-stopped:
		case <-time.After(20 * time.Second):
			stopRace = "StopWatching of a sub-channel did not return within 20 s while a registered event of that sub-channel was being handled"
		}
		select {
		case <-handed:
		case <-time.After(26 * time.Second):
		}
		if stopRace == "" {
			// the parent must still react: a registered event with a newer version is handled (no refutation)
			_, d, m := deliver(0, initial[0]+int64(K)+5)
			if m != "" || d == 0 {
				stopRace = "after a de-registration raced with an event, the parent no longer handles events: " + m
			} else {
				events = append(events, cEvent{Ch: 0, V: initial[0] + int64(K) + 5, H: d - 1, D: d})
			}
		}
		raceTo = tick()
		s.Count("concurrent_stop_races", 1)
		withSubStopped = true
	}
	if p := pubPanic.Load(); p != nil {
		s.Violation("C05/concurrent/panic/publish", "Publish panicked while the channel was watched: "+p.(string), cWitness{Setup: setupStr, Problem: p.(string)})
		return
	}

	// collect the observations
	w.rs.mu.Lock()
	calls := append([]regCall(nil), w.rs.calls...)
	w.rs.mu.Unlock()
	var relayed [nCh][]int64
	for _, c := range chans {
	drain:
		for {
			select {
			case e, ok := <-w.subs[c].EventStream():
				if !ok {
					break drain
				}
				if x, ok := e.(*channel.RegisteredEvent); ok {
					relayed[c] = append(relayed[c], int64(x.Version()))
				}
			default:
				break drain
			}
		}
	}

	// bounds
	L := func(c int, t int64) int64 { // newest version certainly consumed before stamp t
		best := initial[c]
		// (a) FIFO pipe of known capacity: once a publish capacity+1 positions later has returned,
		// publish k has left the pipe (only if the capacity could be read)
		if capKnown {
			for k := range recs[c] {
				j := int64(k) + capN + 1
				if j < int64(len(recs[c])) && recs[c][j].returned != 0 && recs[c][j].returned < t {
					best = initial[c] + int64(k) + 1
				}
			}
		}
		// (b) whatever the pipe looks like: a registered event of this channel that was handed over
		// after publish k had returned, and completely handled before t, made the watcher take
		// everything published for the channel until then (that is how it learns the "newest" state)
		for _, e := range events {
			if e.Ch != c || e.D == 0 || e.D >= t {
				continue
			}
			for k := range recs[c] {
				if recs[c][k].returned != 0 && recs[c][k].returned < e.H && initial[c]+int64(k)+1 > best {
					best = initial[c] + int64(k) + 1
				}
			}
		}
		return best
	}
	U := func(c int, t int64) int64 { // newest version whose Publish had been called before stamp t
		best := initial[c]
		for k := range recs[c] {
			if recs[c][k].called != 0 && recs[c][k].called < t {
				best = initial[c] + int64(k) + 1
			}
		}
		return best
	}
	if stopRace != "" {
		s.Violation("C05/concurrent/stop-blocked", stopRace, cWitness{Setup: setupStr, Initial: initial, Events: events, Problem: stopRace})
		s.Case(fmt.Sprintf("concurrent stop race sub=%v init=%v K=%d", withSub, initial, K), true)
		return
	}
	var problems []string
	class := ""
	fail := func(cl, f string, a ...any) {
		if class == "" {
			class = cl
		}
		problems = append(problems, fmt.Sprintf(f, a...))
	}
	var regVer [nCh]int64
	relayedVer := [nCh]int64{-1, -1, -1}
	var expRelay [nCh][]int64
	used := make([]bool, len(calls))
	must, may, mustnot, refuted := 0, 0, 0, 0
	for i := 0; i < len(events); i++ {
		group := []cEvent{events[i]}
		if events[i].Pair {
			group = append(group, events[i+1])
			i++
		}
		h, d := group[0].H, group[0].D
		for _, g := range group[1:] {
			if g.H < h {
				h = g.H
			}
			if g.D > d {
				d = g.D
			}
		}
		var in []int
		for j, c := range calls {
			if c.Stamp > h && c.Stamp < d {
				in = append(in, j)
				used[j] = true
			}
		}
		if len(in) > 1 {
			fail("refuted-more-than-once", "%d Register calls for one outdated registration (events %+v)", len(in), group)
		}
		mustR, mayR := false, false
		for _, g := range group {
			if g.V >= regVer[g.Ch] {
				if g.V < L(g.Ch, g.H) {
					mustR = true
				}
				if g.V < U(g.Ch, d) {
					mayR = true
				}
			}
		}
		switch {
		case mustR:
			must++
		case mayR:
			may++
		default:
			mustnot++
		}
		if len(in) == 0 && mustR {
			fail("not-refuted", "event(s) %+v: a newer version (>= %d) had been consumed by the watcher before the event, but no Register call followed", group, L(group[0].Ch, group[0].H))
		}
		if len(in) >= 1 {
			refuted++
			c := calls[in[0]]
			if !mayR {
				fail("refuted-without-newer-state", "event(s) %+v: Register(v%d) although no newer unregistered version had been published", group, c.PV)
			}
			if lo, hi := L(0, h), U(0, c.Stamp); c.PV < lo || c.PV > hi {
				fail("stale-parent-version", "event(s) %+v: Register carries parent version %d, outside [%d consumed before the event, %d published before the call]", group, c.PV, lo, hi)
			}
			if len(c.Subs) != len(locked) {
				fail("sub-states", "Register carries %d sub-channel states for %d locked sub-channels", len(c.Subs), len(locked))
			} else {
				for k, sc := range locked {
					if lo, hi := L(sc, h), U(sc, c.Stamp); c.Subs[k] < lo || c.Subs[k] > hi {
						fail("stale-sub-version", "event(s) %+v: Register carries version %d of sub-channel S%d, outside [%d, %d]", group, c.Subs[k], sc, lo, hi)
					}
					regVer[sc] = c.Subs[k]
				}
			}
			regVer[0] = c.PV
		}
		// relaying is exact; within a concurrent pair the two events are on different streams
		for _, g := range group {
			if relayedVer[g.Ch] < g.V {
				expRelay[g.Ch] = append(expRelay[g.Ch], g.V)
				relayedVer[g.Ch] = g.V
			}
		}
	}
	inRace := 0
	for j, c := range calls {
		if used[j] || c.Stamp <= events[0].H {
			continue
		}
		if withSubStopped && c.Stamp > raceFrom && c.Stamp < raceTo {
			inRace++ // the event that raced with the de-registration may or may not have been handled
			continue
		}
		fail("register-without-event", "Register(v%d) outside the handling of any event", c.PV)
	}
	if inRace > 1 {
		fail("refuted-more-than-once", "%d Register calls for the one event that raced with the de-registration", inRace)
	}
	for _, c := range chans {
		exp := fmt.Sprint(expRelay[c])
		if c == 1 && withSubStopped && relayedVer[1] < 0 && fmt.Sprint(relayed[c]) == "[0]" {
			continue // the racing event (version 0) was handled before the de-registration took effect
		}
		if exp != fmt.Sprint(relayed[c]) {
			fail("relay", "%s: registered events relayed to the client %v, expected %v", chName(c), relayed[c], expRelay[c])
		}
	}
	s.Count("concurrent_histories", 1)
	s.Count("concurrent_events", int64(len(events)))
	s.Count("concurrent_events_must_refute", int64(must))
	s.Count("concurrent_events_may_refute", int64(may))
	s.Count("concurrent_events_must_not_refute", int64(mustnot))
	s.Count("concurrent_register_calls_observed", int64(refuted))
	s.Count("concurrent_publishes", int64(K*len(chans)))
	overlap := 0
	for _, e := range events {
		for _, c := range chans {
			if U(c, e.D) > L(c, e.H) {
				overlap++
				break
			}
		}
	}
	s.Count("concurrent_events_overlapping_a_publish", int64(overlap))
	desc := fmt.Sprintf("concurrent sub=%v init=%v K=%d events=%d", withSub, initial, K, len(events))
	for _, e := range events {
		desc += fmt.Sprintf(" %d:%d", e.Ch, e.V)
	}
	s.Case(desc, must+may > 0 && overlap > 0)
	wit := func() cWitness {
		cw := cWitness{Setup: setupStr, Initial: initial, Events: events, Publishes: map[string][]int64{}, Problem: strings.Join(problems, " | ")}
		for _, c := range calls {
			cw.Registers = append(cw.Registers, fmt.Sprintf("@%d %s", c.Stamp, c))
		}
		for _, c := range chans {
			for _, p := range recs[c] {
				cw.Publishes[chName(c)] = append(cw.Publishes[chName(c)], p.called, p.returned)
			}
		}
		return cw
	}
	if len(problems) > 0 {
		s.Violation("C05/concurrent/"+class, problems[0], wit())
	} else if sample {
		cw := wit()
		cw.Publishes = nil
		s.Sample(map[string]any{"concurrent_history": cw})
	}
}

// slowClient: the client reads its event stream late. Whatever the watcher's buffers look like,
// every progressed and concluded event must still arrive, and registered events with increasing
// versions once each, in order.
func slowClient(s sink.Sink, rng *rand.Rand) {
	w := newWorld(rng)
	defer w.shutdown()
	if msg := w.startP(); msg != "" {
		s.Inconclusive(msg)
		return
	}
	w.rs.mu.Lock()
	sub := w.rs.subs[w.ids[0]]
	w.rs.mu.Unlock()
	n := 11 + rng.Intn(10)
	var want []string
	var evs []channel.AdjudicatorEvent
	ver := uint64(0)
	for i := 0; i < n; i++ {
		switch k := rng.Intn(3); {
		case i == n-1 || k == 0 && i > n/2:
			evs = append(evs, channel.NewConcludedEvent(w.ids[0], &channel.ElapsedTimeout{}, ver))
			want = append(want, "concluded")
		case k == 1:
			ver++
			evs = append(evs, channel.NewRegisteredEvent(w.ids[0], &channel.ElapsedTimeout{}, ver, nil, nil))
			want = append(want, fmt.Sprintf("registered(v%d)", ver))
		default:
			evs = append(evs, channel.NewProgressedEvent(w.ids[0], &channel.ElapsedTimeout{}, &channel.State{ID: w.ids[0], Version: ver}, 0))
			want = append(want, "progressed")
		}
	}
	fed := make(chan int, 1)
	var handed int64
	go func() {
		for i, e := range evs {
			select {
			case sub.events <- e:
				atomic.StoreInt64(&handed, int64(i+1))
			case <-time.After(30 * time.Second):
				fed <- i
				return
			}
		}
		fed <- len(evs)
	}()
	// the client is busy elsewhere: it starts reading only when the watcher has stopped taking
	// events (its buffers are full) or everything has been handed over
	last, stable := int64(-1), 0
	for stable < 20 {
		time.Sleep(2 * time.Millisecond)
		if h := atomic.LoadInt64(&handed); h == last {
			stable++
		} else {
			last, stable = h, 0
		}
		if atomic.LoadInt64(&handed) == int64(len(evs)) {
			break
		}
	}
	var got []string
	done := -1
collect:
	for len(got) < len(want) {
		select {
		case e, ok := <-w.subs[0].EventStream():
			if !ok {
				break collect
			}
			switch x := e.(type) {
			case *channel.RegisteredEvent:
				got = append(got, fmt.Sprintf("registered(v%d)", x.Version()))
			case *channel.ProgressedEvent:
				got = append(got, "progressed")
			case *channel.ConcludedEvent:
				got = append(got, "concluded")
			}
		case k := <-fed:
			done = k
			if k < len(evs) {
				s.Inconclusive("watchdog: the watcher stopped taking events although the client was reading")
				return
			}
		case <-time.After(15 * time.Second):
			if done == len(evs) {
				break collect // everything was handed over long ago and nothing more arrives
			}
		}
	}
	s.Count("slow_client_histories", 1)
	s.Count("slow_client_events", int64(len(evs)))
	s.Case(fmt.Sprintf("slow-client %v", want), true)
	if fmt.Sprint(got) != fmt.Sprint(want) {
		s.Violation("C05/slow-client/relay", fmt.Sprintf("a client that read its event stream late received %d of %d events: got %v, want %v", len(got), len(want), got, want),
			cWitness{Problem: fmt.Sprintf("got %v want %v", got, want)})
	}
}

func runConcurrent(s sink.Sink, cfg props.Cfg, n int, stream string, workers int) {
	var wg sync.WaitGroup
	per := (n + workers - 1) / workers
	for wk := 0; wk < workers; wk++ {
		wk := wk
		wg.Add(1)
		go func() {
			defer wg.Done()
			rng := gen.NewRand(cfg.Seed, fmt.Sprintf("c05/conc/%s/%d", stream, wk))
			for i := 0; i < per; i++ {
				if i%16 == 7 {
					slowClient(s, rng)
					continue
				}
				concurrentHistory(s, rng, wk == 0 && i < 2)
			}
		}()
	}
	wg.Wait()
}

// childMain is the -race slice: concurrent histories only.
func childMain(cfg props.Cfg) int {
	em := childrun.NewEmitter()
	var wk, W int
	fmt.Sscanf(strings.TrimPrefix(cfg.Child, "race:"), "%d/%d", &wk, &W)
	n := cfg.Pick(400, 8000) / W
	if n < 1 {
		n = 1
	}
	runConcurrent(sink.Prefixed{Sink: em, P: "race_slice_"}, cfg, n, fmt.Sprintf("race%d", wk), 2)
	em.Done()
	return 0
}
