// Package props is the registry of property checks.
package props

import (
	"runtime"

	"verif/internal/ev"
)

// Cfg is the configuration of one check execution.
type Cfg struct {
	Tier    string // quick | thorough
	Seed    int64
	Race    bool   // this binary was built with -race
	Workers int    // parallelism
	Child   string // child-mode argument (C12, C13), empty in the parent
	Self    string // path of the running binary
	SelfAlt string // path of the other build (race <-> plain), may be empty
}

// Thorough tells whether the thorough tier was requested.
func (c Cfg) Thorough() bool { return c.Tier == "thorough" }

// Pick returns q in the quick tier and t in the thorough tier.
func (c Cfg) Pick(q, t int) int {
	if c.Thorough() {
		return t
	}
	return q
}

// Entry describes a registered check.
type Entry struct {
	ID    string
	Level string
	Rule  string
	Run   func(run *ev.Run, cfg Cfg)
	// ChildMain, if set, is executed instead of Run when the binary is started with -child.
	ChildMain func(cfg Cfg) int
}

// All holds the registered checks.
var All = map[string]Entry{}

// Register adds a check.
func Register(e Entry) { All[e.ID] = e }

// DefaultWorkers returns the default parallelism.
func DefaultWorkers() int {
	n := runtime.NumCPU()
	if n > 16 {
		n = 16
	}
	if n < 1 {
		n = 1
	}
	return n
}
