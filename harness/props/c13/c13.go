// Package c13: decoding arbitrary bytes never panics and enforces the size limits.
//
// The decoders run in child processes (one per worker, address space limited to 16 GiB) which
// write every input to a "last case" file before the call, so that a runtime fatal error (out of
// memory, stack exhaustion) is attributed to its input by the parent; ordinary panics are
// recovered in the child and reported with the go-perun function they came from.
package c13

import (
	"bufio"
	"bytes"
	"crypto/sha256"
	"encoding/binary"
	"encoding/hex"
	"encoding/json"
	"fmt"
	"math/big"
	"math/rand"
	"os"
	"os/exec"
	"path/filepath"
	"reflect"
	"runtime"
	"runtime/debug"
	"runtime/metrics"
	"strconv"
	"strings"
	"sync"
	"syscall"
	"time"

	"google.golang.org/protobuf/proto"
	"google.golang.org/protobuf/reflect/protoreflect"

	"perun.network/go-perun/channel"
	"perun.network/go-perun/wire"
	"perun.network/go-perun/wire/protobuf"

	"verif/internal/codecs"
	"verif/internal/ev"
	"verif/internal/gen"
	"verif/props"
)

func init() {
	props.Register(props.Entry{
		ID:    "C13",
		Level: "exploration",
		Rule: "byte strings fed to 67 decoders (16 value decoders, 17 message decoders, native and protobuf envelope decoder per message type): random bytes of length 0..4096; for several valid encodings per decoder every truncation, every single-bit flip, and 'interesting value' splices (0, 1, limit-1, limit, limit+1, 0x7fff.., -1, MinInt32.. in both byte orders) at every offset for widths 1/2/4; " +
			"structural mutations of protobuf messages (repeated fields shortened/extended, byte fields truncated/emptied, sub-messages removed); constructive over-limit encodings (limit+1 assets/participants/sub-allocations, 129-byte integers) natively and in protobuf. " +
			"A case is (decoder, SHA-256 of the input); non-trivial iff the input has >= 1 byte and is not byte-identical to the valid encoding it was derived from",
		Run:       run,
		ChildMain: childMain,
	})
}

// ---------------------------------------------------------------------------------------------
// decoders

type decoder struct {
	name  string
	codec codecs.Codec
	proto bool
}

func decoders() []decoder {
	var ds []decoder
	for _, c := range codecs.Values {
		ds = append(ds, decoder{name: c.Name, codec: c})
	}
	for _, c := range codecs.Msgs() {
		ds = append(ds, decoder{name: c.Name, codec: c})
	}
	for _, c := range codecs.Envelopes(codecs.Native, "NativeEnv") {
		ds = append(ds, decoder{name: c.Name, codec: c})
	}
	for _, c := range codecs.Envelopes(codecs.Proto, "ProtoEnv") {
		ds = append(ds, decoder{name: c.Name, codec: c, proto: true})
	}
	return ds
}

// ---------------------------------------------------------------------------------------------
// parent

type finding struct {
	Sig     string `json:"sig"`
	What    string `json:"what"`
	Decoder string `json:"decoder"`
	Input   string `json:"input_hex"`
	Family  string `json:"family"`
	Counter int64  `json:"case_index"`
	Stack   string `json:"stack,omitempty"`
}

type childStats struct {
	Done             bool             `json:"done"`
	Evaluations      int64            `json:"evaluations"`
	Distinct         int64            `json:"distinct"`
	Families         map[string]int64 `json:"families"`
	OKDecodes        int64            `json:"ok_decodes"`
	ErrDecodes       int64            `json:"err_decodes"`
	Panics           int64            `json:"panics"`
	MaxAlloc         int64            `json:"max_alloc_per_call"`
	BigAllocs        int64            `json:"calls_over_128MiB"`
	RegistryCanaries int64            `json:"registry_canaries"`
	Decoders         int              `json:"decoders"`
	LimitCases       int64            `json:"constructive_limit_cases"`
	LimitRefuse      int64            `json:"constructive_limit_cases_refused"`
	Handoff          string           `json:"handoff,omitempty"` // "decoder:case index": continue after it in a fresh process
}

func lastCasePath(w int) string {
	return filepath.Join(ev.Root(), "bin", fmt.Sprintf(".c13-last-%d-%d", os.Getpid(), w))
}

func run(r *ev.Run, cfg props.Cfg) {
	if rf := r.Replaying(); rf != nil {
		replay(r, cfg, rf)
		return
	}
	W := cfg.Workers
	// A single legal decode call may allocate more than 4 GiB: at most eight children run at a time
	// so that the worst case stays far below the machine's memory (the work is still cut into W slices).
	sem := make(chan struct{}, 8)
	var wg sync.WaitGroup
	for w := 0; w < W; w++ {
		w := w
		wg.Add(1)
		go func() {
			defer wg.Done()
			sem <- struct{}{}
			defer func() { <-sem }()
			superviseWorker(r, cfg, w, W)
		}()
	}
	wg.Wait()
	r.Assume("a decoder call that allocates much but returns (e.g. a 4 GiB AuthResponse length prefix) is legal; only panics, fatal errors and accepted over-limit encodings are violations; such calls are counted as calls_over_128MiB")
	r.Assume("children run with RLIMIT_AS = 16 GiB so that attacker-declared huge lengths become reproducible fatal errors instead of OOM kills")
}

func superviseWorker(r *ev.Run, cfg props.Cfg, w, W int) {
	lc := lastCasePath(w)
	defer os.Remove(lc)
	resume := ""
	handoffs := 0
	defer os.Remove(lc + ".set")
	defer os.Remove(lc + ".nocanary")
	for attempt := 0; attempt < 15; attempt++ {
		arg := fmt.Sprintf("run:%d:%d:%s:%s", w, W, lc, resume)
		cmd := exec.Command(cfg.Self, "-prop", "C13", "-tier", cfg.Tier, "-seed", strconv.FormatInt(cfg.Seed, 10), "-child", arg)
		cmd.Env = append(os.Environ(), "GOTRACEBACK=single")
		stdout, _ := cmd.StdoutPipe()
		var stderr bytes.Buffer
		cmd.Stderr = &limitedWriter{w: &stderr, n: 1 << 16}
		if err := cmd.Start(); err != nil {
			r.Inconclusive("cannot start child: " + err.Error())
			return
		}
		done := false
		handoff := ""
		progress := make(chan struct{}, 1)
		go func() {
			sc := bufio.NewScanner(stdout)
			sc.Buffer(make([]byte, 1<<20), 1<<26)
			for sc.Scan() {
				line := sc.Bytes()
				select {
				case progress <- struct{}{}:
				default:
				}
				if len(line) == 0 || line[0] != '{' {
					continue
				}
				if bytes.HasPrefix(line, []byte(`{"sig"`)) {
					var f finding
					if json.Unmarshal(line, &f) == nil {
						r.Violation(f.Sig, f.What+" [decoder "+f.Decoder+", family "+f.Family+"]", f)
					}
				} else if bytes.HasPrefix(line, []byte(`{"done"`)) {
					var st childStats
					if json.Unmarshal(line, &st) == nil {
						done = st.Done
						handoff = st.Handoff
						r.MergeCounts(st.Evaluations, st.Distinct)
						for k, v := range st.Families {
							r.Count("inputs_"+k, v)
						}
						r.Count("decode_returned_value", st.OKDecodes)
						r.Count("decode_returned_error", st.ErrDecodes)
						r.Count("panics_recovered", st.Panics)
						r.Count("calls_over_128MiB", st.BigAllocs)
						r.Count("app_registry_write_lock_canaries_passed", st.RegistryCanaries)
						r.Max("max_alloc_bytes_per_call", st.MaxAlloc)
						r.Count("decoders", int64(st.Decoders))
						r.Count("constructive_limit_cases", st.LimitCases)
						r.Count("constructive_limit_cases_refused", st.LimitRefuse)
					}
				} else if bytes.HasPrefix(line, []byte(`{"sample"`)) {
					var m map[string]any
					if json.Unmarshal(line, &m) == nil {
						r.Sample(m["sample"])
					}
				}
			}
			close(progress)
		}()
		// watchdog: no output for a long time => inconclusive (never a verdict)
		killed := false
		waitCh := make(chan error, 1)
		go func() { waitCh <- cmd.Wait() }()
		var werr error
	loop:
		for {
			select {
			case werr = <-waitCh:
				break loop
			case _, ok := <-progress:
				if !ok {
					werr = <-waitCh
					break loop
				}
			case <-time.After(10 * time.Minute):
				killed = true
				_ = cmd.Process.Kill()
				werr = <-waitCh
				break loop
			}
		}
		for range progress {
		}
		if werr == nil && done {
			return
		}
		if werr == nil && handoff != "" {
			// the child asked to be replaced by a fresh process (after a multi-GiB allocation)
			resume = handoff
			attempt--
			handoffs++
			if handoffs > 5000 {
				r.Inconclusive(fmt.Sprintf("worker %d: too many handoffs", w))
				return
			}
			continue
		}
		// the child died: attribute to the last case
		dec, fam, counter, input, ok := readLastCase(lc)
		if !ok {
			r.Inconclusive(fmt.Sprintf("child %d died without a last-case record: %v: %s", w, werr, firstLines(stderr.String(), 3)))
			return
		}
		if killed {
			r.Inconclusive(fmt.Sprintf("watchdog: decoder %s made no progress for 10 minutes on case %d", dec, counter))
		} else {
			// Decoders are stateless: the death must reproduce with this input alone in a fresh
			// child. Otherwise it was environmental (e.g. thread creation failing under the
			// address-space limit after several legal multi-GiB allocations) and proves nothing.
			isoErr, isoStderr := isolate(cfg, dec, input)
			if isoErr == nil {
				r.Inconclusive(fmt.Sprintf("a child died (%s) but decoder %s survives the same input alone", firstLines(firstFatal(stderr.String()), 1), dec))
			} else {
				fatal := firstFatal(isoStderr)
				site := siteOf(isoStderr)
				r.Violation("C13/fatal/"+classify(fatal)+"/"+site, fmt.Sprintf("decoding killed the process: %s (decoder %s, family %s, %d input bytes; reproduced in an isolated child)", fatal, dec, fam, len(input)),
					finding{Sig: "fatal", What: fatal, Decoder: dec, Family: fam, Input: hexTrunc(input), Counter: counter, Stack: firstLines(isoStderr, 40)})
			}
		}
		resume = fmt.Sprintf("%s:%d", dec, counter)
	}
	r.Inconclusive(fmt.Sprintf("worker %d: too many child restarts", w))
}

// isolate runs one decode call in a fresh child; returns the child's error and stderr.
func isolate(cfg props.Cfg, dec string, input []byte) (error, string) {
	tmp := filepath.Join(ev.Root(), "bin", fmt.Sprintf(".c13-iso-%d-%d", os.Getpid(), time.Now().UnixNano()))
	_ = os.WriteFile(tmp, []byte(dec+"\n"+hex.EncodeToString(input)), 0o644)
	defer os.Remove(tmp)
	cmd := exec.Command(cfg.Self, "-prop", "C13", "-child", "one:"+tmp)
	cmd.Env = append(os.Environ(), "GOTRACEBACK=single")
	var stderr bytes.Buffer
	cmd.Stderr = &stderr
	out, err := cmd.Output()
	if err == nil && bytes.Contains(out, []byte(`{"sig"`)) {
		return fmt.Errorf("panic recovered"), string(out)
	}
	return err, stderr.String()
}

type limitedWriter struct {
	w *bytes.Buffer
	n int
}

func (l *limitedWriter) Write(p []byte) (int, error) {
	if l.w.Len() < l.n {
		l.w.Write(p)
	}
	return len(p), nil
}

func firstLines(s string, n int) string {
	ls := strings.Split(s, "\n")
	if len(ls) > n {
		ls = ls[:n]
	}
	return strings.Join(ls, " | ")
}

func firstFatal(stderr string) string {
	for _, l := range strings.Split(stderr, "\n") {
		if strings.HasPrefix(l, "fatal error:") || strings.HasPrefix(l, "panic:") || strings.HasPrefix(l, "runtime:") {
			return strings.TrimSpace(l)
		}
	}
	return firstLines(stderr, 1)
}

func classify(msg string) string {
	switch {
	case strings.Contains(msg, "out of memory") || strings.Contains(msg, "cannot allocate"):
		return "out-of-memory"
	case strings.Contains(msg, "stack"):
		return "stack"
	case strings.Contains(msg, "nil pointer") || strings.Contains(msg, "invalid memory address"):
		return "nil-dereference"
	case strings.Contains(msg, "makeslice") || strings.Contains(msg, "len out of range") || strings.Contains(msg, "makemap"):
		return "makeslice"
	case strings.Contains(msg, "index out of range") || strings.Contains(msg, "slice bounds"):
		return "index-out-of-range"
	}
	return "other"
}

// siteOf extracts the innermost go-perun function from a stack trace.
func siteOf(stack string) string {
	for _, l := range strings.Split(stack, "\n") {
		l = strings.TrimSpace(l)
		if strings.HasPrefix(l, "perun.network/go-perun/") {
			f := strings.TrimPrefix(l, "perun.network/go-perun/")
			if i := strings.LastIndex(f, "("); i > 0 {
				f = f[:i]
			}
			return strings.Trim(f, "{}.")
		}
	}
	return "unknown"
}

func readLastCase(path string) (dec, fam string, counter int64, input []byte, ok bool) {
	b, err := os.ReadFile(path)
	if err != nil || len(b) < 24 {
		return
	}
	counter = int64(binary.LittleEndian.Uint64(b[0:8]))
	nd := int(binary.LittleEndian.Uint32(b[8:12]))
	nf := int(binary.LittleEndian.Uint32(b[12:16]))
	ni := int(binary.LittleEndian.Uint64(b[16:24]))
	if 24+nd+nf+ni > len(b) {
		return
	}
	dec = string(b[24 : 24+nd])
	fam = string(b[24+nd : 24+nd+nf])
	input = b[24+nd+nf : 24+nd+nf+ni]
	return dec, fam, counter, input, true
}

func replay(r *ev.Run, cfg props.Cfg, rf *ev.ReplayFile) {
	var f finding
	if err := json.Unmarshal(rf.Witness, &f); err != nil {
		r.Inconclusive("cannot parse witness")
		return
	}
	tmp := filepath.Join(ev.Root(), "bin", fmt.Sprintf(".c13-replay-%d", os.Getpid()))
	_ = os.WriteFile(tmp, []byte(f.Decoder+"\n"+f.Input), 0o644)
	defer os.Remove(tmp)
	cmd := exec.Command(cfg.Self, "-prop", "C13", "-child", "one:"+tmp)
	out, err := cmd.CombinedOutput()
	r.Case("replay|"+f.Decoder, true)
	r.Case("replay2|"+f.Decoder, true)
	s := string(out)
	if err != nil || strings.Contains(s, `{"sig"`) {
		r.Violation(rf.Signature, "replayed: "+firstLines(s, 6), f)
	}
	fmt.Println(firstLines(s, 12))
}

// ---------------------------------------------------------------------------------------------
// child

type child struct {
	cfg       props.Cfg
	out       *bufio.Writer
	lc        *os.File
	counter   int64
	skipUntil int64
	stats     childStats
	distinct  map[[8]byte]struct{}
	sample    []metrics.Sample
	lcBuf     []byte
	reported  map[string]int
	curDec    *decoder
	curFam    string
	// distinct cases loaded from the previous segment of the same decoder (already counted)
	loadedDistinct int64
	idleSample     []metrics.Sample
}

func childMain(cfg props.Cfg) int {
	// limit the address space so that huge attacker-declared lengths fail reproducibly
	const limit = 16 << 30
	_ = syscall.Setrlimit(syscall.RLIMIT_AS, &syscall.Rlimit{Cur: limit, Max: limit})
	debug.SetGCPercent(50)
	parts := strings.Split(cfg.Child, ":")
	c := &child{cfg: cfg, out: bufio.NewWriterSize(os.Stdout, 1<<16), distinct: map[[8]byte]struct{}{}, reported: map[string]int{}}
	c.stats.Families = map[string]int64{}
	c.sample = []metrics.Sample{{Name: "/gc/heap/allocs:bytes"}}
	c.idleSample = []metrics.Sample{{Name: "/memory/classes/heap/free:bytes"}, {Name: "/memory/classes/heap/released:bytes"}}
	defer c.out.Flush()
	switch parts[0] {
	case "one":
		b, err := os.ReadFile(strings.Join(parts[1:], ":"))
		if err != nil {
			return 2
		}
		i := bytes.IndexByte(b, '\n')
		name := string(b[:i])
		input, _ := hex.DecodeString(strings.TrimSpace(string(b[i+1:])))
		for _, d := range decoders() {
			if d.name == name {
				d := d
				c.curDec, c.curFam = &d, "replay"
				c.exec(input, true)
				c.out.Flush()
				fmt.Println("replayed", name, len(input), "bytes")
				return 0
			}
		}
		return 2
	case "run":
		w, _ := strconv.Atoi(parts[1])
		W, _ := strconv.Atoi(parts[2])
		var err error
		c.lc, err = os.OpenFile(parts[3], os.O_CREATE|os.O_RDWR, 0o644)
		if err != nil {
			return 2
		}
		resumeDec, resumeCounter := "", int64(0)
		if len(parts) >= 6 && parts[4] != "" {
			resumeDec = strings.Join(parts[4:len(parts)-1], ":")
			resumeCounter, _ = strconv.ParseInt(parts[len(parts)-1], 10, 64)
		}
		ds := decoders()
		skipping := resumeDec != ""
		for i := range ds {
			if i%W != w {
				continue
			}
			d := &ds[i]
			if skipping {
				if d.name != resumeDec {
					continue
				}
				skipping = false
				c.skipUntil = resumeCounter
				c.loadSet()
			} else {
				c.skipUntil = 0
				c.stats.Decoders++
			}
			c.runDecoder(d)
			// cases are partitioned by decoder: the set can be dropped between decoders
			c.stats.Distinct += int64(len(c.distinct)) - c.loadedDistinct
			c.distinct = map[[8]byte]struct{}{}
			c.loadedDistinct = 0
		}
		c.stats.Done = true
		b, _ := json.Marshal(c.stats)
		c.out.Write(b)
		c.out.WriteByte('\n')
		return 0
	}
	return 2
}

func (c *child) allocs() int64 {
	metrics.Read(c.sample)
	return int64(c.sample[0].Value.Uint64())
}

// exec runs one decode call under the monitors.
func (c *child) exec(input []byte, nontrivial bool) {
	c.counter++
	if c.counter <= c.skipUntil {
		return
	}
	d := c.curDec
	if c.lc != nil {
		c.lcBuf = c.lcBuf[:0]
		var hdr [24]byte
		binary.LittleEndian.PutUint64(hdr[0:8], uint64(c.counter))
		binary.LittleEndian.PutUint32(hdr[8:12], uint32(len(d.name)))
		binary.LittleEndian.PutUint32(hdr[12:16], uint32(len(c.curFam)))
		binary.LittleEndian.PutUint64(hdr[16:24], uint64(len(input)))
		c.lcBuf = append(c.lcBuf, hdr[:]...)
		c.lcBuf = append(c.lcBuf, d.name...)
		c.lcBuf = append(c.lcBuf, c.curFam...)
		c.lcBuf = append(c.lcBuf, input...)
		_, _ = c.lc.WriteAt(c.lcBuf, 0)
	}
	c.stats.Evaluations++
	c.stats.Families[c.curFam]++
	if nontrivial && len(input) > 0 {
		h := sha256.Sum256(append([]byte(d.name+"|"), input...))
		var k [8]byte
		copy(k[:], h[:8])
		c.distinct[k] = struct{}{}
	}
	a0 := c.allocs()
	var v any
	var err error
	var pan any
	var stack string
	func() {
		defer func() {
			if p := recover(); p != nil {
				pan = p
				stack = string(debug.Stack())
			}
		}()
		v, err = d.codec.Dec(bytes.NewReader(input))
	}()
	a1 := c.allocs()
	if da := a1 - a0; da > c.stats.MaxAlloc {
		c.stats.MaxAlloc = da
	}
	bigAlloc := a1-a0 > 128<<20
	if bigAlloc {
		c.stats.BigAllocs++
	}
	// Memory this process has used and freed is zeroed by the runtime when a later huge (legal)
	// allocation re-uses it: gigabytes of resident pages per child, and sixteen children at once
	// invite the kernel's OOM killer. A child therefore hands over as soon as its idle heap grows.
	idle := false
	if c.stats.Evaluations%64 == 0 {
		metrics.Read(c.idleSample)
		idle = c.idleSample[0].Value.Uint64()+c.idleSample[1].Value.Uint64() > 96<<20
	}
	defer func() {
		if (bigAlloc || idle) && c.lc != nil {
			// Re-using a multi-GiB span costs seconds of page zeroing per call; a fresh process
			// gets zero pages from the kernel for free. Hand over to a new child after this case.
			c.handoff()
		}
	}()
	switch {
	case pan != nil:
		c.stats.Panics++
		msg := fmt.Sprint(pan)
		site := siteOfPanic(stack)
		c.report(finding{Sig: "C13/panic/" + classify(msg) + "/" + site, What: "decoder panicked: " + oneLine(msg), Stack: firstLines(stack, 30)}, input)
	case err == nil:
		c.stats.OKDecodes++
		if why := overLimit(reflect.ValueOf(v), 0); why != "" {
			c.report(finding{Sig: "C13/limit/" + group(d.name) + "/" + why, What: "decoder accepted an encoding beyond the documented limits: " + why}, input)
		}
	default:
		c.stats.ErrDecodes++
	}
	// "terminates" includes what a decoder leaves behind: after a call that returned, the shared
	// app registry must still be usable (re-registering a known app takes its write lock; it is
	// a few instructions unless a decoder left the registry locked).
	if c.stats.Evaluations%2048 == 0 && !c.noCanary() {
		done := make(chan struct{})
		go func() { channel.RegisterApp(gen.Payment2); close(done) }()
		select {
		case <-done:
			c.stats.RegistryCanaries++
		case <-time.After(60 * time.Second):
			c.report(finding{Sig: "C13/registry-left-locked", What: "after decoder calls that had returned, registering an app blocked for more than a minute: a decoder left the app registry locked, every later decode that resolves an app hangs"}, input)
			if c.lc != nil {
				// established; the rest of this slice runs without the canary (each would cost a minute)
				_ = os.WriteFile(c.lc.Name()+".nocanary", nil, 0o644)
				c.handoff()
			}
		}
	}
}

func (c *child) noCanary() bool {
	if c.lc == nil {
		return false
	}
	_, err := os.Stat(c.lc.Name() + ".nocanary")
	return err == nil
}

func (c *child) handoff() {
	c.stats.Handoff = fmt.Sprintf("%s:%d", c.curDec.name, c.counter)
	c.stats.Distinct += int64(len(c.distinct)) - c.loadedDistinct
	c.saveSet()
	b, _ := json.Marshal(c.stats)
	c.out.Write(b)
	c.out.WriteByte('\n')
	c.out.Flush()
	os.Exit(0)
}

func (c *child) setPath() string { return c.lc.Name() + ".set" }

func (c *child) saveSet() {
	buf := make([]byte, 0, 8*len(c.distinct))
	for k := range c.distinct {
		buf = append(buf, k[:]...)
	}
	_ = os.WriteFile(c.setPath(), buf, 0o644)
}

func (c *child) loadSet() {
	b, err := os.ReadFile(c.setPath())
	if err != nil {
		return
	}
	for i := 0; i+8 <= len(b); i += 8 {
		var k [8]byte
		copy(k[:], b[i:])
		c.distinct[k] = struct{}{}
	}
	c.loadedDistinct = int64(len(c.distinct))
}

func (c *child) report(f finding, input []byte) {
	c.reported[f.Sig]++
	if c.reported[f.Sig] > 3 {
		return // the parent only needs a few witnesses per class
	}
	f.Decoder, f.Family, f.Counter, f.Input = c.curDec.name, c.curFam, c.counter, hexTrunc(input)
	b, _ := json.Marshal(f)
	c.out.Write(b)
	c.out.WriteByte('\n')
	c.out.Flush()
}

func group(name string) string {
	if i := strings.IndexByte(name, '/'); i > 0 {
		return name[:i]
	}
	return name
}

// siteOfPanic returns the innermost go-perun function below the panic in a debug.Stack() dump.
func siteOfPanic(stack string) string {
	lines := strings.Split(stack, "\n")
	seenPanic := false
	for _, l := range lines {
		if strings.HasPrefix(l, "panic(") {
			seenPanic = true
			continue
		}
		if !seenPanic {
			continue
		}
		t := strings.TrimSpace(l)
		if strings.HasPrefix(t, "perun.network/go-perun/") {
			f := strings.TrimPrefix(t, "perun.network/go-perun/")
			if i := strings.LastIndex(f, "("); i > 0 {
				f = f[:i]
			}
			return f
		}
	}
	return "unknown"
}

var bigT = reflect.TypeOf((*big.Int)(nil))

// overLimit looks for dimensions beyond the documented limits in a decoded value.
func overLimit(v reflect.Value, depth int) string {
	if !v.IsValid() || depth > 12 {
		return ""
	}
	if v.Type() == bigT {
		if !v.IsNil() && v.CanInterface() {
			if b := v.Interface().(*big.Int); (b.BitLen()+7)/8 > 128 {
				return "bigint-longer-than-128-bytes"
			}
		}
		return ""
	}
	switch x := safeIface(v).(type) {
	case channel.Allocation:
		if len(x.Assets) > channel.MaxNumAssets {
			return "assets>1024"
		}
		if len(x.Locked) > channel.MaxNumSubAllocations {
			return "sub-allocations>1024"
		}
	case channel.Balances:
		if len(x) > channel.MaxNumAssets {
			return "balance-rows>1024"
		}
		for _, row := range x {
			if len(row) > channel.MaxNumParts {
				return "participants>1024"
			}
		}
	case channel.SubAlloc:
		if len(x.Bals) > channel.MaxNumAssets {
			return "sub-allocation-balances>1024"
		}
	case channel.Params:
		if len(x.Parts) > channel.MaxNumParts {
			return "params-participants>1024"
		}
	}
	switch v.Kind() {
	case reflect.Ptr, reflect.Interface:
		if v.IsNil() {
			return ""
		}
		return overLimit(v.Elem(), depth+1)
	case reflect.Struct:
		for i := 0; i < v.NumField(); i++ {
			if !v.Type().Field(i).IsExported() {
				continue
			}
			if s := overLimit(v.Field(i), depth+1); s != "" {
				return s
			}
		}
	case reflect.Slice:
		if v.Type().Elem().Kind() == reflect.Uint8 {
			return ""
		}
		for i := 0; i < v.Len(); i++ {
			if s := overLimit(v.Index(i), depth+1); s != "" {
				return s
			}
		}
	}
	return ""
}

func safeIface(v reflect.Value) any {
	if v.CanInterface() && v.Kind() != reflect.Ptr && v.Kind() != reflect.Interface {
		return v.Interface()
	}
	return nil
}

// ---------------------------------------------------------------------------------------------
// input families

var (
	splice1 = []uint64{0, 1, 0x7f, 0x80, 0xff}
	splice2 = []uint64{0, 1, 1023, 1024, 1025, 0x7fff, 0x8000, 0xffff}
	splice4 = []uint64{0, 1, 1024, 1025, 0x7fffffff, 0x80000000, 0xffffffff, 0xfffffff0, 0x00010000}
)

func (c *child) runDecoder(d *decoder) {
	c.curDec = d
	c.counter = 0
	rng := gen.NewRand(c.cfg.Seed, "c13/"+d.name)
	nValid := c.cfg.Pick(6, 60)
	nRandom := c.cfg.Pick(3000, 60000)
	nProto := c.cfg.Pick(1500, 30000)
	if strings.HasSuffix(d.name, "/AuthResponse") {
		// Every mutation of its 32-bit length prefix makes the decoder allocate (and the runtime
		// zero) up to 4 GiB before it fails; that is legal but costs seconds per call, so fewer
		// base encodings are mutated for this message type.
		nValid = c.cfg.Pick(1, 3)
	}

	// (a) random bytes
	c.curFam = "random"
	for i := 0; i < nRandom; i++ {
		n := 0
		switch rng.Intn(4) {
		case 0:
			n = rng.Intn(16)
		case 1:
			n = rng.Intn(256)
		default:
			n = rng.Intn(4097)
		}
		b := make([]byte, n)
		rng.Read(b)
		if d.proto && n >= 2 && rng.Intn(2) == 0 {
			binary.BigEndian.PutUint16(b, uint16(n-2)) // a consistent frame length
		}
		c.exec(b, true)
	}

	// (b) mutations of valid encodings
	for k := 0; k < nValid; k++ {
		v := d.codec.Gen(rng, gen.MsgOpts{Small: true})
		var buf bytes.Buffer
		if err := safely(func() error { return d.codec.Enc(v, &buf) }); err != nil {
			continue
		}
		enc := buf.Bytes()
		if k == 0 && strings.HasSuffix(d.name, "ChannelUpdate") {
			b, _ := json.Marshal(map[string]any{"sample": map[string]any{"decoder": d.name, "valid_encoding_hex": hexTrunc(enc), "families": "truncations, bit flips, splices at every offset"}})
			c.out.Write(b)
			c.out.WriteByte('\n')
		}
		c.curFam = "valid"
		c.exec(enc, false)
		c.curFam = "truncation"
		for n := 0; n < len(enc); n++ {
			c.exec(enc[:n], true)
		}
		stride := 1
		if len(enc) > 512 {
			stride = len(enc) / 512
		}
		c.curFam = "bitflip"
		m := make([]byte, len(enc))
		for off := 0; off < len(enc); off += stride {
			for bit := 0; bit < 8; bit++ {
				copy(m, enc)
				m[off] ^= 1 << uint(bit)
				c.exec(m, true)
			}
		}
		c.curFam = "splice"
		for off := 0; off < len(enc); off += stride {
			for _, x := range splice1 {
				copy(m, enc)
				m[off] = byte(x)
				c.exec(m, !bytes.Equal(m, enc))
			}
			if off+2 <= len(enc) {
				for _, x := range splice2 {
					copy(m, enc)
					binary.LittleEndian.PutUint16(m[off:], uint16(x))
					c.exec(m, !bytes.Equal(m, enc))
					copy(m, enc)
					binary.BigEndian.PutUint16(m[off:], uint16(x))
					c.exec(m, !bytes.Equal(m, enc))
				}
			}
			if off+4 <= len(enc) {
				for _, x := range splice4 {
					copy(m, enc)
					binary.LittleEndian.PutUint32(m[off:], uint32(x))
					c.exec(m, !bytes.Equal(m, enc))
					copy(m, enc)
					binary.BigEndian.PutUint32(m[off:], uint32(x))
					c.exec(m, !bytes.Equal(m, enc))
				}
			}
		}
		// extended: valid encoding followed by garbage (must not matter, but must not panic either)
		c.curFam = "extended"
		ext := append(append([]byte(nil), enc...), 0xff, 0x00, 0x80)
		c.exec(ext, true)
	}

	// (c) structural mutations of protobuf messages
	if d.proto {
		c.curFam = "proto-struct"
		for i := 0; i < nProto; i++ {
			env := d.codec.Gen(rng, gen.MsgOpts{Small: true}).(*wire.Envelope)
			var buf bytes.Buffer
			if err := safely(func() error { return codecs.Proto.Encode(&buf, env) }); err != nil || buf.Len() < 2 {
				continue
			}
			var pe protobuf.Envelope
			if proto.Unmarshal(buf.Bytes()[2:], &pe) != nil {
				continue
			}
			nm := 1 + rng.Intn(3)
			for j := 0; j < nm; j++ {
				mutateProto(rng, pe.ProtoReflect(), 0)
			}
			data, err := proto.Marshal(&pe)
			if err != nil || len(data) > 0xffff {
				continue
			}
			frame := make([]byte, 2+len(data))
			binary.BigEndian.PutUint16(frame, uint16(len(data)))
			copy(frame[2:], data)
			c.exec(frame, true)
		}
	}

	// (d) constructive over-limit encodings
	c.curFam = "over-limit"
	for _, in := range overLimitInputs(d, rng) {
		before := c.stats.OKDecodes
		c.exec(in, true)
		c.stats.LimitCases++
		if c.stats.OKDecodes == before {
			c.stats.LimitRefuse++
		}
	}
	runtime.GC()
}

// mutateProto applies one random structural mutation somewhere inside m.
func mutateProto(r *rand.Rand, m protoreflect.Message, depth int) {
	fds := m.Descriptor().Fields()
	if fds.Len() == 0 {
		return
	}
	// oneofs: only the populated member is interesting
	var cands []protoreflect.FieldDescriptor
	for i := 0; i < fds.Len(); i++ {
		fd := fds.Get(i)
		if fd.ContainingOneof() != nil && !m.Has(fd) {
			continue
		}
		cands = append(cands, fd)
	}
	if len(cands) == 0 {
		return
	}
	fd := cands[r.Intn(len(cands))]
	// descend with some probability
	if fd.Kind() == protoreflect.MessageKind && depth < 8 && r.Intn(4) != 0 {
		if fd.IsList() {
			l := m.Mutable(fd).List()
			if l.Len() > 0 && r.Intn(3) != 0 {
				mutateProto(r, l.Get(r.Intn(l.Len())).Message(), depth+1)
				return
			}
		} else if m.Has(fd) {
			mutateProto(r, m.Mutable(fd).Message(), depth+1)
			return
		}
	}
	switch {
	case fd.IsList():
		l := m.Mutable(fd).List()
		switch r.Intn(4) {
		case 0: // drop the last element
			if l.Len() > 0 {
				l.Truncate(l.Len() - 1)
			}
		case 1: // empty the list
			l.Truncate(0)
		case 2: // duplicate / append an element
			if l.Len() > 0 {
				l.Append(l.Get(r.Intn(l.Len())))
			} else {
				l.Append(l.NewElement())
			}
		default: // mutate one scalar element
			if l.Len() > 0 && fd.Kind() != protoreflect.MessageKind {
				l.Set(r.Intn(l.Len()), scalar(r, fd, l.Get(0)))
			} else {
				l.Append(l.NewElement())
			}
		}
	case fd.IsMap():
		m.Clear(fd)
	case fd.Kind() == protoreflect.MessageKind:
		if r.Intn(2) == 0 {
			m.Clear(fd)
		} else {
			m.Set(fd, m.NewField(fd)) // an empty sub-message
		}
	default:
		m.Set(fd, scalar(r, fd, m.Get(fd)))
	}
}

func scalar(r *rand.Rand, fd protoreflect.FieldDescriptor, cur protoreflect.Value) protoreflect.Value {
	switch fd.Kind() {
	case protoreflect.BytesKind:
		b := append([]byte(nil), cur.Bytes()...)
		switch r.Intn(6) {
		case 0:
			b = nil
		case 1:
			if len(b) > 0 {
				b = b[:len(b)-1]
			}
		case 2:
			b = append(b, byte(r.Intn(256)))
		case 3:
			b = make([]byte, []int{1, 3, 4, 5, 8, 31, 33, 63, 65, 129, 300}[r.Intn(11)])
			r.Read(b)
		case 4:
			if len(b) > 0 {
				b[r.Intn(len(b))] ^= 1 << uint(r.Intn(8))
			}
		default:
			if len(b) >= 4 {
				binary.BigEndian.PutUint32(b, []uint32{1, 2, 0x7fffffff, 0xffffffff, 0x80000000}[r.Intn(5)])
			}
		}
		return protoreflect.ValueOfBytes(b)
	case protoreflect.Uint32Kind, protoreflect.Fixed32Kind:
		return protoreflect.ValueOfUint32([]uint32{0, 1, 2, 255, 256, 65535, 65536, 0x7fffffff, 0xffffffff}[r.Intn(9)])
	case protoreflect.Uint64Kind, protoreflect.Fixed64Kind:
		return protoreflect.ValueOfUint64([]uint64{0, 1, 1 << 32, 1<<63 - 1, 1 << 63, ^uint64(0)}[r.Intn(6)])
	case protoreflect.Int64Kind, protoreflect.Sint64Kind, protoreflect.Sfixed64Kind:
		return protoreflect.ValueOfInt64([]int64{0, 1, -1, 1<<63 - 1, -1 << 63}[r.Intn(5)])
	case protoreflect.Int32Kind, protoreflect.Sint32Kind, protoreflect.Sfixed32Kind:
		return protoreflect.ValueOfInt32([]int32{0, 1, -1, 1<<31 - 1, -1 << 31}[r.Intn(5)])
	case protoreflect.BoolKind:
		return protoreflect.ValueOfBool(!cur.Bool())
	case protoreflect.StringKind:
		return protoreflect.ValueOfString(cur.String() + "x")
	}
	return cur
}

// overLimitInputs builds encodings that declare one element more than a documented limit,
// with enough payload behind the count that only the limit check can refuse them.
func overLimitInputs(d *decoder, rng *rand.Rand) [][]byte {
	var out [][]byte
	le16 := func(v int) []byte { b := make([]byte, 2); binary.LittleEndian.PutUint16(b, uint16(v)); return b }
	cat := func(parts ...[]byte) []byte { return bytes.Join(parts, nil) }
	asset := func() []byte { // backend id (uint32 LE) + marshalled asset (uint16 length + 8 bytes)
		return cat([]byte{0, 0, 0, 0}, le16(8), []byte{1, 2, 3, 4, 5, 6, 7, 8})
	}
	rep := func(b []byte, n int) []byte { return bytes.Repeat(b, n) }
	bigint := func(n int) []byte { return cat([]byte{byte(n)}, rep([]byte{0x81}, n)) }
	balances := func(assets, parts int) []byte {
		return cat(le16(assets), le16(parts), rep([]byte{1, 5}, assets*parts))
	}
	suballoc := func(nb int) []byte {
		return cat(rep([]byte{7}, 32), le16(nb), rep([]byte{1, 9}, nb), le16(0))
	}
	alloc := func(assets, parts, locked int) []byte {
		b := cat(le16(assets), le16(parts), le16(locked), rep(asset(), assets), balances(assets, parts))
		for i := 0; i < locked; i++ {
			b = append(b, suballoc(assets)...)
		}
		return b
	}
	L := channel.MaxNumAssets
	switch d.name {
	case "Allocation":
		out = append(out, alloc(L+1, 2, 0), alloc(1, channel.MaxNumParts+1, 0), alloc(1, 2, channel.MaxNumSubAllocations+1), alloc(L, 2, 1))
		// inconsistent inner dimension: header says limit, balances say limit+1
		out = append(out, cat(le16(1), le16(2), le16(0), asset(), balances(1, channel.MaxNumParts+1)))
		out = append(out, cat(le16(1), le16(2), le16(0), asset(), balances(L+1, 2)))
	case "Balances":
		out = append(out, balances(L+1, 1), balances(1, channel.MaxNumParts+1), balances(L, channel.MaxNumParts)[:4+2*100])
	case "SubAlloc":
		out = append(out, suballoc(L+1), suballoc(L))
	case "BigInt":
		out = append(out, bigint(129), bigint(255), bigint(128))
	case "State":
		id := rep([]byte{3}, 32)
		ver := make([]byte, 8)
		tail := []byte{0, 0, 0, 0} // final=false, no app, zero-length data
		out = append(out, cat(id, ver, alloc(L+1, 2, 0), tail), cat(id, ver, alloc(1, 2, channel.MaxNumSubAllocations+1), tail))
		// a 129 byte balance
		out = append(out, cat(id, ver, le16(1), le16(2), le16(0), asset(), le16(1), le16(2), bigint(129), bigint(1), tail))
	}
	if d.proto && (strings.HasSuffix(d.name, "/ChannelUpdate") || strings.HasSuffix(d.name, "/LedgerChannelProposal")) {
		mk := func(edit func(a *protobuf.Allocation)) {
			env := d.codec.Gen(rng, gen.MsgOpts{Small: true}).(*wire.Envelope)
			var buf bytes.Buffer
			if codecs.Proto.Encode(&buf, env) != nil {
				return
			}
			var pe protobuf.Envelope
			if proto.Unmarshal(buf.Bytes()[2:], &pe) != nil {
				return
			}
			var a *protobuf.Allocation
			if u := pe.GetChannelUpdateMsg(); u != nil {
				a = u.GetChannelUpdate().GetState().GetAllocation()
			} else if p := pe.GetLedgerChannelProposalMsg(); p != nil {
				a = p.GetBaseChannelProposal().GetInitBals()
			}
			if a == nil {
				return
			}
			edit(a)
			data, err := proto.Marshal(&pe)
			if err != nil || len(data) > 0xffff {
				return
			}
			out = append(out, cat([]byte{byte(len(data) >> 8), byte(len(data))}, data))
		}
		be := []byte{0, 0, 0, 0}
		mk(func(a *protobuf.Allocation) { // limit+1 assets, consistent everywhere
			a.Backends, a.Assets, a.Locked = nil, nil, nil
			a.Balances = &protobuf.Balances{}
			for i := 0; i < L+1; i++ {
				a.Backends = append(a.Backends, be)
				a.Assets = append(a.Assets, []byte{1, 2, 3, 4, 5, 6, 7, byte(i)})
				a.Balances.Balances = append(a.Balances.Balances, &protobuf.Balance{Balance: [][]byte{{1}, {2}}})
			}
		})
		mk(func(a *protobuf.Allocation) { // limit+1 participants
			for _, row := range a.Balances.Balances {
				row.Balance = nil
				for i := 0; i < channel.MaxNumParts+1; i++ {
					row.Balance = append(row.Balance, []byte{1})
				}
			}
			a.Locked = nil
		})
		mk(func(a *protobuf.Allocation) { // limit+1 sub-allocations
			a.Locked = nil
			bal := &protobuf.Balance{}
			for range a.Assets {
				bal.Balance = append(bal.Balance, []byte{1})
			}
			for i := 0; i < channel.MaxNumSubAllocations+1; i++ {
				a.Locked = append(a.Locked, &protobuf.SubAlloc{Id: rep([]byte{byte(i)}, 32), Bals: bal, IndexMap: &protobuf.IndexMap{}})
			}
		})
		mk(func(a *protobuf.Allocation) { // a 129-byte balance
			a.Balances.Balances[0].Balance[0] = rep([]byte{0x81}, 129)
		})
		lockedWith := func(n int) func(a *protobuf.Allocation) { // one locked sub-allocation with an n-byte balance
			return func(a *protobuf.Allocation) {
				bal := &protobuf.Balance{}
				for range a.Assets {
					bal.Balance = append(bal.Balance, []byte{1})
				}
				bal.Balance[len(bal.Balance)-1] = rep([]byte{0x81}, n)
				a.Locked = []*protobuf.SubAlloc{{Id: rep([]byte{9}, 32), Bals: bal, IndexMap: &protobuf.IndexMap{}}}
			}
		}
		// the same limits in a later asset row only (the first row stays within them)
		secondRow := func(a *protobuf.Allocation) *protobuf.Balance {
			if a.Balances == nil || len(a.Balances.Balances) == 0 || len(a.Balances.Balances[0].Balance) == 0 {
				return nil
			}
			if len(a.Balances.Balances) < 2 && len(a.Assets) == 1 && len(a.Backends) == 1 {
				row := &protobuf.Balance{}
				for _, b := range a.Balances.Balances[0].Balance {
					row.Balance = append(row.Balance, append([]byte(nil), b...))
				}
				a.Assets = append(a.Assets, append(append([]byte(nil), a.Assets[0]...), 7))
				a.Backends = append(a.Backends, a.Backends[0])
				a.Balances.Balances = append(a.Balances.Balances, row)
				for _, l := range a.Locked {
					if l.Bals != nil {
						l.Bals.Balance = append(l.Bals.Balance, []byte{1})
					}
				}
			}
			if len(a.Balances.Balances) < 2 {
				return nil
			}
			return a.Balances.Balances[len(a.Balances.Balances)-1]
		}
		mk(func(a *protobuf.Allocation) { // a 129-byte balance in the last entry of the last row
			if row := secondRow(a); row != nil {
				row.Balance[len(row.Balance)-1] = rep([]byte{0x81}, 129)
			} else {
				a.Balances.Balances[0].Balance[0] = rep([]byte{0x81}, 129)
			}
		})
		mk(func(a *protobuf.Allocation) { // limit+1 participants in the last row only
			row := secondRow(a)
			if row == nil {
				row = a.Balances.Balances[0]
			}
			row.Balance = nil
			for i := 0; i < channel.MaxNumParts+1; i++ {
				row.Balance = append(row.Balance, []byte{1})
			}
		})
		mk(lockedWith(129))
		mk(lockedWith(1000))
		mk(func(a *protobuf.Allocation) { // a locked sub-allocation with limit+1 balances
			bal := &protobuf.Balance{}
			for i := 0; i < L+1; i++ {
				bal.Balance = append(bal.Balance, []byte{1})
			}
			a.Locked = []*protobuf.SubAlloc{{Id: rep([]byte{9}, 32), Bals: bal, IndexMap: &protobuf.IndexMap{}}}
		})
		if p := strings.HasSuffix(d.name, "/LedgerChannelProposal"); p {
			// an over-long big integer (first row; last entry of a later row) or limit+1 entries in a
			// later row of the funding agreement
			for variant := 0; variant < 3; variant++ {
				env := d.codec.Gen(rng, gen.MsgOpts{Small: true}).(*wire.Envelope)
				var buf bytes.Buffer
				if codecs.Proto.Encode(&buf, env) != nil {
					continue
				}
				var pe protobuf.Envelope
				if proto.Unmarshal(buf.Bytes()[2:], &pe) != nil {
					continue
				}
				fa := pe.GetLedgerChannelProposalMsg().GetBaseChannelProposal().GetFundingAgreement()
				if fa == nil || len(fa.Balances) == 0 || len(fa.Balances[0].Balance) == 0 {
					continue
				}
				if variant > 0 && len(fa.Balances) < 2 {
					if ib := pe.GetLedgerChannelProposalMsg().GetBaseChannelProposal().GetInitBals(); ib != nil && secondRow(ib) != nil {
						row := &protobuf.Balance{}
						for _, b := range fa.Balances[0].Balance {
							row.Balance = append(row.Balance, append([]byte(nil), b...))
						}
						fa.Balances = append(fa.Balances, row)
					}
				}
				last := fa.Balances[len(fa.Balances)-1]
				switch variant {
				case 0:
					fa.Balances[0].Balance[0] = rep([]byte{0x81}, 129)
				case 1:
					last.Balance[len(last.Balance)-1] = rep([]byte{0x81}, 129)
				case 2:
					last.Balance = nil
					for i := 0; i < channel.MaxNumParts+1; i++ {
						last.Balance = append(last.Balance, []byte{1})
					}
				}
				if data, err := proto.Marshal(&pe); err == nil && len(data) <= 0xffff {
					out = append(out, cat([]byte{byte(len(data) >> 8), byte(len(data))}, data))
				}
			}
		}
	}
	return out
}

func safely(f func() error) (err error) {
	defer func() {
		if p := recover(); p != nil {
			err = fmt.Errorf("panic: %v", p)
		}
	}()
	return f()
}

func oneLine(s string) string {
	s = strings.ReplaceAll(s, "\n", " | ")
	if len(s) > 300 {
		s = s[:300]
	}
	return s
}

func hexTrunc(b []byte) string {
	if len(b) > 70000 {
		b = b[:70000]
	}
	return hex.EncodeToString(b)
}
