// Package c06: update protocol agreement - success means both hold the same signed state.
package c06

import (
	"bytes"
	"context"
	"errors"
	"fmt"
	"math/big"
	"math/rand"
	"os"
	"runtime"
	"sort"
	"strings"
	"sync"
	"sync/atomic"
	"time"

	"perun.network/go-perun/channel"
	"perun.network/go-perun/client"

	"verif/internal/childrun"
	"verif/internal/ev"
	"verif/internal/gen"
	"verif/internal/party"
	"verif/internal/recpr"
	"verif/internal/sink"
	"verif/props"
)

func init() {
	props.Register(props.Entry{
		ID:    "C06",
		Level: "exploration",
		Rule: "programs of update proposals over 1-3 channels of one pair of real clients (scheduling bus with per-link FIFO and PRNG yields, strict ledger, recording persisters on both sides): sequential, same-side concurrent (several goroutines calling Update on one channel), cross-channel concurrent and both-sides-concurrent on one channel; accept/reject decisions and handler delays from the PRNG. " +
			"Monitors run inline in the persister callbacks (under the channel lock): every Enabled transaction fully signed and version = previous+1, no overlapping persister calls per channel, |vA-vB| <= 1 and one encoding per version (runs without timeouts), and the Update results are compared with both parties' states. " +
			"A case is (program, observed order of Enabled events across the two clients); non-trivial iff >= 2 updates were accepted and the agreement was evaluated",
		Run:       run,
		ChildMain: childMain,
	})
}

type proposal struct {
	Who    int   `json:"by"`      // 0 = A, 1 = B
	Ch     int   `json:"channel"` // channel index
	Asset  int   `json:"asset"`
	Amount int64 `json:"amount"`
	Accept bool  `json:"peer_accepts"`
	Delay  int   `json:"handler_yields"`
	N      int   `json:"number"`
	Final  bool  `json:"final_flag,omitempty"` // sequential mode only; later proposals on a finalized channel are skipped
	// GivenUp: before this proposal the proposer calls Update with an already cancelled context
	// (nothing may happen); GivenUpInHandler: the peer does so on the same channel while its
	// handler is deliberating on this proposal.
	GivenUp          bool `json:"preceded_by_update_call_with_cancelled_context,omitempty"`
	GivenUpInHandler bool `json:"peer_calls_update_with_cancelled_context_while_deliberating,omitempty"`
}

type program struct {
	Mode      string     `json:"mode"`
	Channels  int        `json:"channels"`
	Assets    int        `json:"assets"`
	Proposals []proposal `json:"proposals"`
	Noise     int        `json:"bus_noise"`
}

type witness struct {
	Program program  `json:"program"`
	Detail  string   `json:"detail"`
	Trace   []string `json:"enabled_trace,omitempty"`
}

func run(r *ev.Run, cfg props.Cfg) {
	n := cfg.Pick(300, 6000)
	runPrograms(r, cfg, n, "main", cfg.Workers)
	nRace := cfg.Pick(60, 1500)
	_ = nRace
	sink.RaceSlice(r, cfg, "C06", cfg.Workers, nil)
	r.Assume("runs in which a request timed out keep only the fully-signed invariant, as the property states")
	r.Assume("handler decisions are made by the harness' update handler; proposals that exceed the payer's balance must fail locally and are counted separately")
}

func childMain(cfg props.Cfg) int {
	em := childrun.NewEmitter()
	var w, W int
	fmt.Sscanf(strings.TrimPrefix(cfg.Child, "race:"), "%d/%d", &w, &W)
	n := cfg.Pick(60, 1500) / W
	if n < 1 {
		n = 1
	}
	runPrograms(sink.Prefixed{Sink: em, P: "race_slice_"}, cfg, n, fmt.Sprintf("race%d", w), 2)
	em.Done()
	return 0
}

func runPrograms(s sink.Sink, cfg props.Cfg, n int, stream string, workers int) {
	var wg sync.WaitGroup
	per := (n + workers - 1) / workers
	for wk := 0; wk < workers; wk++ {
		wk := wk
		wg.Add(1)
		go func() {
			defer wg.Done()
			rng := gen.NewRand(cfg.Seed, fmt.Sprintf("c06/%s/%d", stream, wk))
			for i := 0; i < per; i++ {
				one(s, rng, wk == 0 && i < 2)
			}
		}()
	}
	wg.Wait()
}

func genProgram(rng *rand.Rand) program {
	p := program{Channels: 1 + rng.Intn(3), Assets: 1 + rng.Intn(2), Noise: rng.Intn(6)}
	p.Mode = []string{"sequential", "same-side", "cross-channel", "both-sides"}[rng.Intn(4)]
	if rng.Intn(6) == 0 {
		// the channels are opened at the same time, the responder's funding calls return late,
		// and the proposer starts updating each channel as soon as its own opening call returned
		p.Mode = "overlapping-openings"
		p.Channels = 2 + rng.Intn(2)
	}
	n := 2 + rng.Intn(12)
	for i := 0; i < n; i++ {
		pr := proposal{Who: rng.Intn(2), Ch: rng.Intn(p.Channels), Asset: rng.Intn(p.Assets), Amount: int64(rng.Intn(12)), Accept: rng.Intn(4) != 0, Delay: rng.Intn(4)}
		if rng.Intn(15) == 0 {
			pr.Amount = 1000 // exceeds every balance: must fail locally
		}
		switch p.Mode {
		case "same-side":
			pr.Who, pr.Ch = 0, 0
		case "cross-channel":
			pr.Who = 0
		case "both-sides":
			pr.Ch = 0
		case "overlapping-openings":
			pr.Who = 0
			if i < p.Channels {
				pr.Ch = i // every channel gets an early first proposal, often a rejected one
				pr.Accept = rng.Intn(2) == 0
			}
		}
		pr.N = i + 1
		pr.GivenUp, pr.GivenUpInHandler = rng.Intn(10) == 0, rng.Intn(10) == 0
		if p.Mode == "overlapping-openings" {
			pr.GivenUp, pr.GivenUpInHandler = false, false
		}
		if p.Mode == "sequential" && rng.Intn(7) == 0 {
			pr.Final = true
			if rng.Intn(2) == 0 {
				pr.Accept = false // a rejected final proposal must leave both ready for more
			}
		}
		p.Proposals = append(p.Proposals, pr)
	}
	return p
}

type enabledRec struct {
	owner   int
	ch      channel.ID
	version uint64
	enc     []byte
	seq     int64
}

func one(s sink.Sink, rng *rand.Rand, sample bool) {
	prog := genProgram(rng)
	if os.Getenv("C06_DEBUG") != "" {
		fmt.Printf("PROGRAM %+v\n", prog)
	}
	w := party.NewWorld(rng, prog.Assets, prog.Noise)
	defer w.Close()
	A, B := w.NewParty("A", 10000), w.NewParty("B", 10000)
	ps := []*party.Party{A, B}

	var mu sync.Mutex
	var problems []string
	problem := func(format string, a ...any) {
		mu.Lock()
		if len(problems) < 20 {
			problems = append(problems, fmt.Sprintf(format, a...))
		}
		mu.Unlock()
	}
	lastEnabled := map[string]uint64{} // owner|channel -> version
	hasEnabled := map[string]bool{}
	encByVer := map[string][]byte{} // channel|version -> encoding
	var trace []enabledRec
	timedOut := false
	var maxSkew uint64
	var twoStates []uint64
	for oi, p := range ps {
		oi, p := oi, p
		p.Rec.Overlap = func(id channel.ID, a, b recpr.Kind) {
			problem("overlapping persister calls for one channel at %s: %v while %v", p.Name, b, a)
		}
		p.Rec.OnEvent = func(e recpr.Event) {
			if e.Kind != recpr.Enabled {
				return
			}
			cur := e.Current
			if cur.State == nil {
				problem("%s enabled a transaction without state", p.Name)
				return
			}
			// fully signed
			for i, sig := range cur.Sigs {
				ok := false
				if sig != nil && i < len(e.Params.Parts) {
					ok, _ = channel.Verify(e.Params.Parts[i][gen.B], cur.State, sig)
				}
				if !ok {
					problem("%s enabled version %d without a valid signature of participant %d", p.Name, cur.State.Version, i)
				}
			}
			if len(cur.Sigs) != len(e.Params.Parts) {
				problem("%s enabled version %d with %d signature slots", p.Name, cur.State.Version, len(cur.Sigs))
			}
			enc := gen.EncodeState(cur.State)
			mu.Lock()
			defer mu.Unlock()
			k := fmt.Sprintf("%d|%x", oi, e.ID)
			if hasEnabled[k] && cur.State.Version != lastEnabled[k]+1 {
				problems = append(problems, fmt.Sprintf("%s enabled version %d after version %d", p.Name, cur.State.Version, lastEnabled[k]))
			}
			hasEnabled[k], lastEnabled[k] = true, cur.State.Version
			trace = append(trace, enabledRec{oi, e.ID, cur.State.Version, enc, e.Seq})
			// (skew and one-state-per-version are judged after the run, only if nothing timed out)
			ok := fmt.Sprintf("%d|%x", 1-oi, e.ID)
			if hasEnabled[ok] {
				d := int64(cur.State.Version) - int64(lastEnabled[ok])
				if d < 0 {
					d = -d
				}
				if uint64(d) > maxSkew {
					maxSkew = uint64(d)
				}
			}
			vk := fmt.Sprintf("%x|%d", e.ID, cur.State.Version)
			if prev, ok := encByVer[vk]; ok && !bytes.Equal(prev, enc) {
				twoStates = append(twoStates, cur.State.Version)
			}
			encByVer[vk] = enc
		}
	}

	// handler decisions: matched to proposals by (channel, version) is impossible before the
	// fact, so decisions are drawn from the proposal that is currently in flight on that channel.
	type decision struct {
		accept  bool
		delay   int
		givenUp bool
	}
	var chans [][2]*client.Channel
	var execHook func(pr proposal)
	// givenUp: Update with a cancelled context; it cannot get the machine mutex and must not
	// touch the channel
	givenUp := func(ch *client.Channel) {
		ctx, cancel := context.WithCancel(context.Background())
		cancel()
		entered := false
		err := ch.Update(ctx, func(*channel.State) { entered = true })
		s.Count("update_calls_with_cancelled_context", 1)
		if entered || err == nil {
			s.Count("update_calls_with_cancelled_context_that_entered_the_protocol", 1)
			mu.Lock()
			timedOut = true
			mu.Unlock()
		}
	}
	var dmu sync.Mutex
	pending := map[string][]decision{} // owner(receiver)|channel -> FIFO of decisions
	for oi, p := range ps {
		oi := oi
		p.SetUpdatePolicy(func(cur *channel.State, u client.ChannelUpdate) (bool, func()) {
			dmu.Lock()
			k := fmt.Sprintf("%d|%x", oi, cur.ID)
			d := decision{accept: true}
			if q := pending[k]; len(q) > 0 {
				d, pending[k] = q[0], q[1:]
			}
			dmu.Unlock()
			return d.accept, func() {
				for i := 0; i < d.delay; i++ {
					runtime.Gosched()
				}
				if d.givenUp {
					for _, c := range chans {
						if c[oi] != nil && c[oi].ID() == cur.ID {
							givenUp(c[oi])
						}
					}
				}
			}
		})
	}

	// open the channels
	chans = make([][2]*client.Channel, prog.Channels)
	var lanesDone func() bool
	if prog.Mode == "overlapping-openings" {
		lags := make([]time.Duration, 16)
		for i := range lags {
			lags[i] = time.Duration(rng.Intn(6000)) * time.Microsecond
		}
		var lagN int64
		B.SetFundLag(func() { time.Sleep(lags[int(atomic.AddInt64(&lagN, 1))%len(lags)]) })
		allBals := make([][][]int64, prog.Channels)
		for c := range allBals {
			allBals[c] = make([][]int64, prog.Assets)
			for a := range allBals[c] {
				allBals[c][a] = []int64{int64(20 + rng.Intn(80)), int64(20 + rng.Intn(80))}
			}
		}
		var owg sync.WaitGroup
		var openErr atomic.Value
		var run1 func(pr proposal)
		started := make(chan struct{})
		for c := 0; c < prog.Channels; c++ {
			c := c
			owg.Add(1)
			go func() {
				defer owg.Done()
				ch, err := A.OpenLedgerChannel(B, allBals[c], 10, client.WithApp(gen.DApp, &gen.BytesData{B: []byte{0}}))
				if err != nil {
					openErr.Store(err.Error())
					return
				}
				chans[c][0] = ch
				<-started
				for _, pr := range prog.Proposals {
					if pr.Ch == c {
						run1(pr)
					}
				}
			}()
		}
		lanesDone = func() bool {
			run1 = execHook
			close(started)
			owg.Wait()
			if e := openErr.Load(); e != nil {
				s.Inconclusive("channel opening failed: " + e.(string))
				return false
			}
			for c := range chans {
				if chans[c][0] == nil {
					return false
				}
				chans[c][1] = B.AwaitChannel(chans[c][0].ID())
				if chans[c][1] == nil {
					s.Inconclusive("peer never registered the channel")
					return false
				}
			}
			return true
		}
	}
	for c := 0; c < prog.Channels && lanesDone == nil; c++ {
		bals := make([][]int64, prog.Assets)
		for a := range bals {
			bals[a] = []int64{int64(20 + rng.Intn(80)), int64(20 + rng.Intn(80))}
		}
		// a data app makes every proposed state unique (the data carries the proposal's number)
		ch, err := A.OpenLedgerChannel(B, bals, 10, client.WithApp(gen.DApp, &gen.BytesData{B: []byte{0}}))
		if err != nil {
			s.Inconclusive("channel opening failed: " + err.Error())
			return
		}
		chB := B.AwaitChannel(ch.ID())
		if chB == nil {
			s.Inconclusive("peer never registered the channel")
			return
		}
		chans[c] = [2]*client.Channel{ch, chB}
	}

	// run the program
	type result struct {
		pr      proposal
		err     error
		before  uint64
		wantEnc []byte
		local   bool
	}
	var results []result
	var rmu sync.Mutex
	short := 400 * time.Millisecond
	exec := func(pr proposal) {
		ch := chans[pr.Ch][pr.Who]
		if ch.State().IsFinal {
			return // the channel was finalized by an accepted final proposal
		}
		peerKey := fmt.Sprintf("%d|%x", 1-pr.Who, ch.ID())
		dmu.Lock()
		pending[peerKey] = append(pending[peerKey], decision{pr.Accept, pr.Delay, pr.GivenUpInHandler})
		dmu.Unlock()
		if pr.GivenUp {
			givenUp(ch)
		}
		ctx, cancel := context.WithTimeout(context.Background(), 20*time.Second)
		if prog.Mode == "both-sides" {
			cancel()
			ctx, cancel = context.WithTimeout(context.Background(), short)
		}
		defer cancel()
		me := int(ch.Idx())
		var want *channel.State
		var before uint64
		local := false
		err := ch.Update(ctx, func(st *channel.State) {
			before = st.Version
			if st.Balances[pr.Asset][me].Cmp(big.NewInt(pr.Amount)) < 0 {
				local = true
			}
			st.Balances[pr.Asset][me] = new(big.Int).Sub(st.Balances[pr.Asset][me], big.NewInt(pr.Amount))
			st.Balances[pr.Asset][1-me] = new(big.Int).Add(st.Balances[pr.Asset][1-me], big.NewInt(pr.Amount))
			st.Data = &gen.BytesData{B: []byte{byte(pr.N >> 8), byte(pr.N)}}
			st.IsFinal = pr.Final
			want = st
		})
		var enc []byte
		if want != nil && !local {
			c := want.Clone()
			c.Version = before + 1
			enc = gen.EncodeState(c)
		}
		if err != nil {
			// the decision was not consumed if the request never reached the handler
			var rej client.PeerRejectedError
			if !errors.As(err, &rej) {
				dmu.Lock()
				if q := pending[peerKey]; len(q) > 0 && local {
					pending[peerKey] = q[:len(q)-1]
				}
				dmu.Unlock()
			}
		}
		rmu.Lock()
		results = append(results, result{pr, err, before, enc, local})
		rmu.Unlock()
	}
	execHook = exec
	switch prog.Mode {
	case "overlapping-openings":
		if !lanesDone() {
			return
		}
	case "sequential":
		for _, pr := range prog.Proposals {
			exec(pr)
		}
	default:
		// group into concurrent lanes: per goroutine a list, executed in order
		lanes := map[string][]proposal{}
		for i, pr := range prog.Proposals {
			var k string
			switch prog.Mode {
			case "same-side":
				k = fmt.Sprint(i % 3)
			case "cross-channel":
				k = fmt.Sprint(pr.Ch)
			default:
				k = fmt.Sprint(pr.Who)
			}
			lanes[k] = append(lanes[k], pr)
		}
		var wg sync.WaitGroup
		for _, l := range lanes {
			l := l
			wg.Add(1)
			go func() {
				defer wg.Done()
				for _, pr := range l {
					exec(pr)
				}
			}()
		}
		wg.Wait()
	}
	if !w.Quiesce() {
		s.Inconclusive("quiescence watchdog")
		return
	}

	// ---- evaluate
	accepted, rejected, localFail := 0, 0, 0
	for _, res := range results {
		var rej client.PeerRejectedError
		switch {
		case res.err == nil:
			accepted++
		case errors.As(res.err, &rej):
			rejected++
		case res.local:
			localFail++
		default:
			mu.Lock()
			timedOut = true
			mu.Unlock()
		}
	}
	mu.Lock()
	to := timedOut
	mu.Unlock()
	if to {
		defer w.Abandon() // runs before the deferred Close, which then is a no-op
	}
	if !to {
		mu.Lock()
		if maxSkew > 1 {
			problems = append(problems, fmt.Sprintf("versions differ by %d between the two parties at an Enabled event", maxSkew))
		}
		for _, v := range twoStates {
			problems = append(problems, fmt.Sprintf("two different states of version %d were both fully signed", v))
		}
		mu.Unlock()
		// per result checks
		for _, res := range results {
			ch := chans[res.pr.Ch]
			var rej client.PeerRejectedError
			switch {
			case res.err == nil:
				if !res.pr.Accept && prog.Mode == "sequential" {
					problem("Update returned success although the peer's handler rejected (channel %d, version %d)", res.pr.Ch, res.before+1)
				}
				vk := fmt.Sprintf("%x|%d", ch[0].ID(), res.before+1)
				mu.Lock()
				enc := encByVer[vk]
				mu.Unlock()
				if enc == nil || !bytes.Equal(enc, res.wantEnc) {
					problem("Update returned success but the enabled state of version %d is not the proposed one", res.before+1)
				}
				// both sides must have enabled it
				cnt := 0
				mu.Lock()
				for _, t := range trace {
					if t.ch == ch[0].ID() && t.version == res.before+1 && bytes.Equal(t.enc, res.wantEnc) {
						cnt++
					}
				}
				mu.Unlock()
				if cnt != 2 {
					problem("Update of version %d returned success but %d of 2 parties enabled that state", res.before+1, cnt)
				}
			case errors.As(res.err, &rej):
				if res.pr.Accept && prog.Mode == "sequential" {
					problem("Update was rejected although the peer's handler accepts")
				}
				vk := fmt.Sprintf("%x|%d", ch[0].ID(), res.before+1)
				mu.Lock()
				enc := encByVer[vk]
				mu.Unlock()
				if enc != nil && bytes.Equal(enc, res.wantEnc) {
					problem("Update returned a rejection but the rejected state of version %d was enabled", res.before+1)
				}
			}
		}
		// final agreement and readiness
		for c := range chans {
			sa, sb := chans[c][0].State(), chans[c][1].State()
			if !bytes.Equal(gen.EncodeState(sa), gen.EncodeState(sb)) {
				problem("at quiescence the two parties hold different current states on channel %d (versions %d and %d)", c, sa.Version, sb.Version)
			}
			wantPhase := channel.Acting
			if sa.IsFinal {
				wantPhase = channel.Final
			}
			if pa, pb := chans[c][0].Phase(), chans[c][1].Phase(); pa != wantPhase || pb != wantPhase {
				problem("at quiescence the phases are %v/%v, want %v/%v", pa, pb, wantPhase, wantPhase)
			}
		}
		// both are ready for further updates: a barrier payment of 0 in each direction
		for c := range chans {
			if chans[c][0].State().IsFinal {
				continue
			}
			for who := 0; who < 2; who++ {
				if err := ps[who].Pay(chans[c][who], 0, 0, false); err != nil {
					problem("after the program a further update by %s on channel %d fails: %v", ps[who].Name, c, err)
				}
			}
		}
	}
	mu.Lock()
	sort.Slice(trace, func(i, j int) bool { return trace[i].seq < trace[j].seq })
	var sigb strings.Builder
	var tr []string
	for _, t := range trace {
		fmt.Fprintf(&sigb, "%d%x%d,", t.owner, t.ch[:1], t.version)
		tr = append(tr, fmt.Sprintf("%s enabled v%d of %x", ps[t.owner].Name, t.version, t.ch[:3]))
	}
	probs := append([]string(nil), problems...)
	skew := maxSkew
	nTrace := len(trace)
	mu.Unlock()
	desc := fmt.Sprintf("%+v|%s", prog, sigb.String())
	s.Case(desc, accepted >= 2 && !to)
	s.Seen("interleaving_signatures", sigb.String())
	s.Seen("modes", prog.Mode)
	s.Count("programs", 1)
	s.Count("updates_accepted", int64(accepted))
	s.Count("updates_rejected", int64(rejected))
	s.Count("updates_failed_locally", int64(localFail))
	s.Count("enabled_events_checked", int64(nTrace))
	s.Max("max_version_skew_observed", int64(skew))
	if to {
		s.Count("programs_with_timeouts", 1)
	}
	if len(probs) > 0 {
		class := "agreement"
		switch {
		case strings.Contains(probs[0], "signature"):
			class = "not-fully-signed"
		case strings.Contains(probs[0], "overlapping"):
			class = "overlapping-persister-calls"
		case strings.Contains(probs[0], "differ by"):
			class = "version-skew"
		case strings.Contains(probs[0], "after version"):
			class = "version-step"
		case strings.Contains(probs[0], "both fully signed"):
			class = "two-states-one-version"
		case strings.Contains(probs[0], "rejection but"), strings.Contains(probs[0], "rejected although"), strings.Contains(probs[0], "success although"):
			class = "result-mismatch"
		case strings.Contains(probs[0], "further update"):
			class = "not-ready"
		}
		s.Violation("C06/"+class+"/"+prog.Mode, probs[0], witness{Program: prog, Detail: strings.Join(probs, " | "), Trace: tr})
	}
	if sample {
		s.Sample(map[string]any{"program": prog, "accepted": accepted, "rejected": rejected, "enabled_trace": tr})
	}
}
