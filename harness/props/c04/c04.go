// Package c04: registering an outdated state never costs the honest party money.
package c04

import (
	"context"
	"fmt"
	"math/big"
	"math/rand"
	"os"
	"strings"
	"sync"
	"sync/atomic"
	"time"

	"perun.network/go-perun/channel"
	"perun.network/go-perun/client"

	"verif/internal/childrun"
	"verif/internal/ev"
	"verif/internal/gen"
	"verif/internal/ledger"
	"verif/internal/recpr"
	"verif/internal/scen"
	"verif/internal/sink"
	"verif/props"
)

func init() {
	props.Register(props.Entry{
		ID:    "C04",
		Level: "exploration",
		Rule: "C03-style scenarios (payments, optional sub-channel open or closed, non-final) of an honest client A (real client + real local watcher) and a peer B that deviates only by registering, directly on the strict ledger, one of its recorded fully signed transactions of an older version (with the oldest sub-channel states when funds are locked): " +
			"all (trigger point x old version) pairs for histories of <= 4 updates, sampled for longer ones; trigger points are between operations and while an update is in flight (A's handler deliberating, gated; or A's own proposal staged). " +
			"Oracle: when the ledger is idle after the adversary's Register and before the logical clock moves, the registered version must be >= A's newest enabled version; after the timeout and settlement A's payout must be >= its balance in that state; the ledger must not refuse A's refutation. " +
			"A case is (scenario, trigger point, old version); non-trivial iff the adversary's registration was accepted by the ledger with a version below A's newest and the verdict was evaluated",
		Run:       run,
		ChildMain: childMain,
	})
}

type trigger struct {
	Kind    string `json:"kind"`             // between | in-flight-responder | in-flight-proposer
	Point   string `json:"point"`            // hook name (between) or step index
	Step    int    `json:"step"`             // step index for in-flight triggers
	Version int    `json:"old_version_rank"` // index into B's recorded versions at trigger time (0 = oldest)
	// Hold keeps back the adjudicator events caused by the honest party's own registrations until
	// the in-flight update has completed (events of a real chain arrive with block latency).
	Hold bool `json:"own_registration_events_held_until_update_done,omitempty"`
	// SubOld: the adversary registers its newest parent state with the oldest sub-channel state.
	SubOld bool `json:"newest_parent_with_oldest_sub_channel_state,omitempty"`
	// CloseSub: before the adversary moves, the honest party closes its controller of the open
	// sub-channel (which de-registers it from the watcher; the ledger channel stays watched and the
	// watcher keeps the sub-channel's last state for refutations). Only the registration verdict
	// is taken: without the controller the honest party cannot settle the sub-channel itself.
	CloseSub bool `json:"honest_party_closed_its_sub_channel_controller,omitempty"`
	// CancelCtx: the honest party cancels the context of its update request from inside the
	// update notification (the update is enabled at that point, so it is the newest agreed state).
	CancelCtx bool `json:"honest_party_cancels_its_request_context_in_the_update_notification,omitempty"`
}

type witness struct {
	Scenario scen.Scenario `json:"scenario"`
	Trigger  trigger       `json:"trigger"`
	Problems []string      `json:"problems"`
	Log      []string      `json:"log"`
	Ledger   []string      `json:"ledger_calls"`
}

func run(r *ev.Run, cfg props.Cfg) {
	runAll(r, cfg, cfg.Pick(1500, 120000), "main", cfg.Workers)
	sink.RaceSlice(r, cfg, "C04", cfg.Workers, nil)
	r.Assume("the adversary runs no watcher of its own (its honest software would refute its own registration) and otherwise behaves honestly, including settlement")
	r.Assume("'before the challenge period ends' is decided on the ledger's logical clock: the verdict is taken when the ledger is idle after the adversary's registration (all events consumed, no call in flight), before the clock is advanced")
}

func childMain(cfg props.Cfg) int {
	em := childrun.NewEmitter()
	var w, W int
	fmt.Sscanf(strings.TrimPrefix(cfg.Child, "race:"), "%d/%d", &w, &W)
	n := cfg.Pick(250, 12000) / W
	if n < 1 {
		n = 1
	}
	runAll(sink.Prefixed{Sink: em, P: "race_slice_"}, cfg, n, fmt.Sprintf("race%d", w), 2)
	em.Done()
	return 0
}

func runAll(s sink.Sink, cfg props.Cfg, n int, stream string, workers int) {
	var wg sync.WaitGroup
	var mu sync.Mutex
	done := 0
	for wk := 0; wk < workers; wk++ {
		wk := wk
		wg.Add(1)
		go func() {
			defer wg.Done()
			rng := gen.NewRand(cfg.Seed, fmt.Sprintf("c04/%s/%d", stream, wk))
			for {
				mu.Lock()
				if done >= n {
					mu.Unlock()
					return
				}
				mu.Unlock()
				k := scenario(s, rng, wk == 0)
				mu.Lock()
				done += k
				mu.Unlock()
			}
		}()
	}
	wg.Wait()
}

// scenario generates one scenario and runs it under several (trigger, version) choices;
// returns the number of executions.
func scenario(s sink.Sink, rng *rand.Rand, sample bool) int {
	sc := scen.Generate(rng)
	if sc.Sub != nil {
		sc.Sub.Nested = nil // the local watcher handles one level of sub-channels: nested ones are outside the statement's premise (watched channels)
	}
	sc.NoWatch = [2]bool{} // the honest party watches (the statement's premise); B's watcher is switched off below
	if rng.Intn(2) == 0 && len(sc.Steps) > 4 {
		sc.Steps = sc.Steps[:1+rng.Intn(4)]
		if sc.Sub != nil && sc.Sub.After > len(sc.Steps) {
			sc.Sub.After = len(sc.Steps)
		}
	}
	// for in-flight triggers the targeted update must reach the peer's handler and be accepted
	seed := rng.Int63()
	// trigger points
	var trigs []trigger
	points := []string{"after-open", "after-steps"}
	for i := range sc.Steps {
		points = append(points, fmt.Sprintf("before-step-%d", i))
	}
	if sc.Sub != nil {
		points = append(points, "after-sub-open", "after-sub-steps")
		if sc.Sub.Close {
			points = append(points, "after-sub-close")
		}
		if sc.Sub.Second != nil {
			points = append(points, "after-second-sub-steps")
		}
	}
	if sc.FinalLast {
		points = append(points, "after-final")
	}
	for _, p := range points {
		trigs = append(trigs, trigger{Kind: "between", Point: p, Step: -1})
		if sc.Sub == nil && p != "after-open" {
			trigs = append(trigs, trigger{Kind: "between", Point: p, Step: -1, CancelCtx: true})
		}
		if sc.Sub != nil && strings.HasPrefix(p, "after-sub-steps") {
			trigs = append(trigs, trigger{Kind: "between", Point: p, Step: -1, SubOld: true})
			trigs = append(trigs, trigger{Kind: "between", Point: p, Step: -1, CloseSub: true})
		}
		if sc.Sub != nil && !sc.Sub.Close && p == "after-steps" && sc.Sub.After < len(sc.Steps) {
			trigs = append(trigs, trigger{Kind: "between", Point: p, Step: -1, CloseSub: true})
		}
	}
	for i, st := range sc.Steps {
		if st.Amount >= 500 {
			continue
		}
		k := "in-flight-proposer"
		if st.Who == 1 {
			k = "in-flight-responder"
		}
		trigs = append(trigs, trigger{Kind: k, Point: fmt.Sprintf("step-%d", i), Step: i})
		trigs = append(trigs, trigger{Kind: k, Point: fmt.Sprintf("step-%d", i), Step: i, Hold: true})
		if sc.Sub != nil && !sc.Sub.Close && i >= sc.Sub.After {
			// the sub-channel is open and de-registered from the watcher, and the honest party's own
			// registration is followed by a second one with the state that was in flight
			trigs = append(trigs, trigger{Kind: k, Point: fmt.Sprintf("step-%d", i), Step: i, Hold: true, CloseSub: true})
		}
	}
	if sc.Sub != nil {
		for i, st := range sc.Sub.Steps {
			if st.Amount >= 500 {
				continue
			}
			k := "sub-in-flight-proposer"
			if st.Who == 1 {
				k = "sub-in-flight-responder"
			}
			for _, hold := range []bool{false, true} {
				trigs = append(trigs, trigger{Kind: k, Point: fmt.Sprintf("sub-step-%d", i), Step: i, Hold: hold})
				trigs = append(trigs, trigger{Kind: k, Point: fmt.Sprintf("sub-step-%d", i), Step: i, Hold: hold, SubOld: true})
			}
		}
	}
	exhaustive := len(sc.Steps) <= 4
	n := 0
	for _, tg := range trigs {
		// version ranks: 0..(max plausible) - the execution maps the rank onto the versions B has
		// recorded at the trigger time; ranks beyond are skipped
		maxRank := len(sc.Steps) + 2
		if tg.SubOld {
			maxRank = 1
		}
		for rank := 0; rank < maxRank; rank++ {
			if !exhaustive && rng.Intn(len(trigs)*maxRank) >= 4 {
				continue
			}
			tg.Version = rank
			if !execute(s, seed, sc, tg, sample && n < 2) {
				break // no such old version at that point
			}
			n++
		}
	}
	if exhaustive {
		s.Count("scenarios_enumerated_exhaustively", 1)
	}
	if n == 0 {
		n = 1
	}
	return n
}

// execute runs the scenario with the given trigger; returns false if B had no old version of
// the requested rank at the trigger point.
func execute(s sink.Sink, seed int64, sc scen.Scenario, tg trigger, sample bool) bool {
	rng := rand.New(rand.NewSource(seed))
	r := scen.New(rng, sc)
	t0 := time.Now()
	phase := "start"
	defer func() {
		r.Close()
		if d := time.Since(t0); d > 3*time.Second && os.Getenv("C04_DEBUG") != "" {
			n, at := r.W.Ledger.Waiters()
			fmt.Printf("SLOW %v phase=%s trigger=%+v failed=%q timedout=%v settle=%v log=%v\n  waiters=%d at=%d now=%d idle=%v drained=%v busy=%d calls=%v\n", d, phase, tg, r.Failed, r.TimedOut, r.SettleErr, r.Log,
				n, at, r.W.Ledger.Now(), r.W.Ledger.Idle(), r.W.Bus.Drained(), r.W.Busy, r.W.Ledger.Calls())
		}
	}()
	A, B := r.P[0], r.P[1]
	B.NoWatch = true
	if tg.CancelCtx {
		atomic.StoreInt32(&A.CancelOnEnable, 1)
		defer func() { s.Count("request_contexts_cancelled_in_update_notifications", atomic.LoadInt64(&A.RequestsCancelled)) }()
	}
	var mu sync.Mutex
	fired := false
	hadVersion := true
	var advErr error
	var oldVer uint64
	var problems []string
	newestAtA := func(id channel.ID) (uint64, *channel.State) {
		var v uint64
		var st *channel.State
		for _, e := range A.Rec.Events() {
			if e.Kind == recpr.Enabled && e.ID == id && e.Current.State != nil && e.Current.State.Version >= v {
				v, st = e.Current.State.Version, e.Current.State
			}
		}
		return v, st
	}
	// the adversary's move
	fire := func() {
		mu.Lock()
		if fired {
			mu.Unlock()
			return
		}
		fired = true
		mu.Unlock()
		id := r.Ch[0].ID()
		if tg.CloseSub {
			// Closing a controller while its Watch is still starting crashes the library (startWatching
			// returns a nil error for an already closed channel): close only once Watch demonstrably
			// runs, i.e. a state of the sub-channel has been published through it.
			if r.SubCh[0] == nil || len(A.Published(r.SubCh[0].ID())) == 0 {
				hadVersion = false
				return
			}
			_ = r.SubCh[0].Close()
			if strings.HasSuffix(tg.Kind, "in-flight-responder") {
				r.W.QuiesceBusy(1)
			} else {
				r.W.Quiesce()
			}
		}
		// B's fully signed transactions of the ledger channel, oldest first
		var txs []recpr.Event
		seen := map[uint64]bool{}
		for _, e := range B.Rec.Events() {
			if e.Kind == recpr.Enabled && e.ID == id && e.Current.State != nil && !seen[e.Current.State.Version] {
				seen[e.Current.State.Version] = true
				txs = append(txs, e)
			}
		}
		if tg.SubOld {
			// newest parent state, oldest state of a locked sub-channel that has a newer one
			if len(txs) == 0 || r.SubCh[1] == nil {
				hadVersion = false
				return
			}
			tg.Version = len(txs) - 1
			nsub := 0
			for _, e := range B.Rec.Events() {
				if e.Kind == recpr.Enabled && e.ID == r.SubCh[1].ID() && e.Current.State != nil {
					nsub++
				}
			}
			locked := false
			for _, la := range txs[tg.Version].Current.State.Locked {
				locked = locked || la.ID == r.SubCh[1].ID()
			}
			if nsub < 2 || !locked {
				hadVersion = false
				return
			}
		} else if len(txs) < 2 || tg.Version >= len(txs)-1 {
			hadVersion = false // no older version of that rank
			return
		}
		old := txs[tg.Version]
		oldVer = old.Current.State.Version
		// sub-channel states for locked funds: the oldest recorded one
		var subs []channel.SignedState
		for _, la := range old.Current.State.Locked {
			for _, e := range B.Rec.Events() {
				if e.Kind == recpr.Enabled && e.ID == la.ID && e.Current.State != nil {
					subs = append(subs, channel.SignedState{Params: e.Params, State: e.Current.State, Sigs: e.Current.Sigs})
					break
				}
			}
		}
		if tg.Hold {
			r.W.Ledger.SetHold(func(cause ledger.Call, _ channel.AdjudicatorEvent) bool {
				return !cause.Adversary && cause.Method == "Register"
			})
		}
		adj := r.W.Ledger.NewAdversaryAdjudicator(B.Addr)
		advErr = adj.Register(context.Background(), channel.AdjudicatorReq{Params: old.Params, Tx: old.Current, Idx: 1}, subs)
		// let the honest watcher react; the clock does not move (nobody waits for a timeout)
		if strings.HasSuffix(tg.Kind, "in-flight-responder") {
			r.W.QuiesceBusy(1) // we are inside A's update handler
		} else {
			r.W.Quiesce()
		}
		r.SkipRest = true
	}
	switch tg.Kind {
	case "between":
		r.Hook = func(point string, _ *scen.Run) {
			if point == tg.Point {
				fire()
			}
		}
	case "in-flight-responder":
		// A's handler is deliberating on B's update (A's channel lock is held) when B registers
		r.Gate = func(owner int, cur *channel.State, u client.ChannelUpdate) {
			if owner == 0 && r.Step == tg.Step && cur.ID == r.Ch[0].ID() {
				fire()
			}
		}
	case "in-flight-proposer":
		// A has staged and signed its own proposal and is about to send it when B registers
		r.OnEvent = func(owner int, e recpr.Event) {
			if owner == 0 && e.Kind == recpr.SigAdded && r.Step == tg.Step && r.Ch[0] != nil && e.ID == r.Ch[0].ID() {
				fire()
			}
		}
	case "sub-in-flight-responder":
		// the same while an update of the sub-channel is in flight
		r.Gate = func(owner int, cur *channel.State, u client.ChannelUpdate) {
			if owner == 0 && r.SubStep == tg.Step && r.SubCh[0] != nil && cur.ID == r.SubCh[0].ID() {
				fire()
			}
		}
	case "sub-in-flight-proposer":
		r.OnEvent = func(owner int, e recpr.Event) {
			if owner == 0 && e.Kind == recpr.SigAdded && r.SubStep == tg.Step && r.SubCh[0] != nil && e.ID == r.SubCh[0].ID() {
				fire()
			}
		}
	}
	ok := r.Open() && r.Payments()
	phase = "payments-done"
	if !hadVersion {
		return false
	}
	desc := fmt.Sprintf("%+v|%+v", sc, tg)
	if !ok || !fired {
		s.Case(desc, false)
		if !fired {
			s.Count("trigger_not_reached", 1)
		} else {
			s.Inconclusive("scenario did not complete: " + r.Failed)
		}
		return true
	}
	s.Count("executions", 1)
	s.Seen("trigger_kinds", tg.Kind)
	if advErr != nil {
		// e.g. the channel was registered already; nothing to judge
		s.Case(desc, false)
		s.Count("adversary_registration_refused", 1)
		return true
	}
	if !r.WaitIdle() {
		s.Inconclusive("quiescence watchdog")
		s.Case(desc, false)
		return true
	}
	if tg.Hold {
		// the in-flight update is done: now the events of A's own registration arrive
		s.Count("held_own_registration_events_released", int64(r.W.Ledger.ReleaseHeld()))
		if !r.WaitIdle() {
			s.Inconclusive("quiescence watchdog")
			s.Case(desc, false)
			return true
		}
	}
	id := r.Ch[0].ID()
	newest, newestState := newestAtA(id)
	// harness window: a state enabled before the publisher was installed (Channel.Watch runs
	// concurrently with the first updates) never reaches the watcher. Publications happen in
	// enabling order, so the window is over once any older version has been published.
	pubOK := newest == 0
	neverPublished := false
	for _, v := range A.Published(id) {
		if v == newest {
			pubOK = true
		}
	}
	if !pubOK {
		for _, v := range A.Published(id) {
			if v < newest {
				pubOK, neverPublished = true, true
			}
		}
	}
	if neverPublished {
		s.Count("newest_state_never_published_although_older_ones_were", 1)
	}
	regVer, _, isReg := r.W.Ledger.Registered(id)
	nontrivial := oldVer < newest
	if !pubOK {
		s.Inconclusive("A's newest state was enabled before its watcher was attached (harness window)")
		s.Case(desc, false)
		return true
	}
	// Class of a stale registration, from what was observed on one shared event counter: the
	// watcher reacts to adjudicator events only, so the question is whether any registered-event
	// of that channel was handed to A's watcher after A's newest version had been published to it.
	// If not, the watcher never had a chance (D24); if yes, it knew the newest state and still
	// left an older one on the ledger.
	classOf := func(x channel.ID, newestX uint64) string {
		pubNewest := int64(-1)
		vs, ss := A.Published(x), A.PublishedStamps(x)
		for i, v := range vs {
			if v == newestX && i < len(ss) {
				pubNewest = ss[i]
				break
			}
		}
		if pubNewest < 0 {
			for _, v := range vs {
				if v < newestX {
					return "newest-state-never-published-to-the-watcher"
				}
			}
		}
		for _, d := range r.W.Ledger.Deliveries() {
			if d.ID == x && d.Tag == "watcher:A" && d.Registered && d.Version < newestX && pubNewest >= 0 && d.Stamp > pubNewest {
				return "watcher-knew-newest-state"
			}
		}
		return "newest-state-published-after-the-watcher-reacted"
	}
	class := ""
	if !isReg || regVer < newest {
		problems = append(problems, fmt.Sprintf("the adversary registered version %d; with the ledger idle and the challenge period still running, version %d is registered but the honest party's newest agreed version is %d", oldVer, regVer, newest))
		class = classOf(id, newest)
	}
	// newest sub-channel states of sub-channels still locked in A's newest parent state
	if newestState != nil {
		for _, la := range newestState.Locked {
			sv, _ := newestAtA(la.ID)
			if rv, _, ok := r.W.Ledger.Registered(la.ID); !ok || rv < sv {
				problems = append(problems, fmt.Sprintf("sub-channel %x: version %d registered, the honest party's newest is %d", la.ID[:3], rv, sv))
				if class == "" {
					class = classOf(la.ID, sv)
				}
			}
		}
	}
	for _, c := range r.W.Ledger.Calls() {
		if c.Err != "" && !c.Adversary && c.Method == "Register" {
			problems = append(problems, "the ledger refused the honest party's registration: "+c.String())
		}
	}
	// settlement: both settle (the clock advances when they wait); A's payout
	phase = "settling"
	if tg.CloseSub {
		// registration verdict only (see trigger.CloseSub)
		s.Case(desc, nontrivial)
		if nontrivial {
			s.Count("refutations_needed", 1)
		}
		s.Count("executions_with_closed_sub_channel_controller", 1)
		if len(problems) > 0 {
			var callStrs []string
			for _, c := range r.W.Ledger.Calls() {
				callStrs = append(callStrs, c.String())
			}
			kind := "stale-registration"
			if strings.Contains(problems[0], "refused") {
				kind = "refutation-refused"
			} else if strings.Contains(problems[0], "sub-channel") {
				kind = "stale-sub-channel-registration"
			}
			if class == "" {
				class = "watcher-knew-newest-state"
			}
			s.Violation("C04/"+kind+"/"+class, problems[0], witness{Scenario: sc, Trigger: tg, Problems: problems, Log: r.Log, Ledger: callStrs})
		}
		r.TimedOut = true // abandon the world: the closed controller makes an orderly shutdown impossible
		return true
	}
	r.Settle()
	phase = "settled"
	r.WaitIdle()
	phase = "idle-after-settle"
	if r.TimedOut {
		s.Inconclusive("a request timed out during settlement")
	}
	if newestState != nil && !r.TimedOut {
		for a := 0; a < sc.Assets; a++ {
			funded := r.W.Ledger.Funded(id, 0)[a]
			want := new(big.Int).Sub(newestState.Balances[a][0], funded)
			for _, la := range newestState.Locked {
				if _, st := newestAtA(la.ID); st != nil {
					want.Add(want, st.Balances[a][0])
				}
			}
			got := r.Delta(0, a)
			if got.Cmp(want) < 0 {
				problems = append(problems, fmt.Sprintf("after settlement the honest party's balance of asset %d changed by %v, its newest agreed state entitles it to %v (Settle returned: %v)", a, got, want, r.SettleErr[0]))
			}
		}
		s.Count("payouts_evaluated", 1)
	}
	s.Case(desc, nontrivial)
	if nontrivial {
		s.Count("refutations_needed", 1)
	}
	var callStrs []string
	for _, c := range r.W.Ledger.Calls() {
		callStrs = append(callStrs, c.String())
	}
	if len(problems) > 0 {
		kind := "stale-registration"
		if !strings.Contains(problems[0], "is registered but") {
			kind = "payout"
			if strings.Contains(problems[0], "refused") {
				kind = "refutation-refused"
			} else if strings.Contains(problems[0], "sub-channel") {
				kind = "stale-sub-channel-registration"
			}
		}
		if class == "" {
			class = "watcher-knew-newest-state"
		}
		s.Violation("C04/"+kind+"/"+class, problems[0], witness{Scenario: sc, Trigger: tg, Problems: problems, Log: r.Log, Ledger: callStrs})
	}
	if sample {
		s.Sample(map[string]any{"scenario": sc, "trigger": tg, "adversary_registered_version": oldVer, "honest_newest": newest, "registered_at_idle": regVer, "ledger_calls": callStrs})
	}
	_ = time.Now
	return true
}
