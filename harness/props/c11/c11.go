// Package c11: the persistent store always describes exactly the live channels.
package c11

import (
	"context"
	"fmt"
	"math/rand"
	"os"
	"sort"
	"strings"
	"sync"

	"perun.network/go-perun/channel"
	"perun.network/go-perun/channel/persistence"
	"perun.network/go-perun/channel/persistence/keyvalue"
	"perun.network/go-perun/wallet"
	"perun.network/go-perun/wire"
	"polycry.pt/poly-go/sortedkv"
	"polycry.pt/poly-go/sortedkv/leveldb"
	"polycry.pt/poly-go/sortedkv/memorydb"

	"verif/internal/canon"
	"verif/internal/ev"
	"verif/internal/faultkv"
	"verif/internal/gen"
	"verif/internal/mexplore"
	"verif/internal/pdriver"
	"verif/props"
)

func init() {
	props.Register(props.Entry{
		ID:    "C11",
		Level: "fault_enumeration",
		Rule: "histories of <= 30 steps over 3-6 channels and 2-4 peers (peers shared between channels, optional parents): create / advance by random state-machine operations / remove (ChannelRemoved or the SetWithdrawn path) in any order incl. re-creation after removal, on the in-memory and the LevelDB store; " +
			"after EVERY step RestorePeer for every peer, ActivePeers, RestoreAll and RestoreChannel for every channel ever created are compared with a reference map of live channels, and after every removal the raw key set is compared with a differential replay of the history without the removed channels. " +
			"A case is (history prefix, store); non-trivial iff at least one channel is live with a staged or current transaction and at least one step was a removal or touched a second channel",
		Run: run,
	})
}

var ctx = context.Background()

func view(s channel.Source, peers []map[wallet.BackendID]wire.Address, parent *channel.ID) string {
	n := len(s.Params().Parts)
	sigs := func(tx channel.Transaction) []string {
		out := make([]string, n)
		for i := range out {
			out[i] = "-"
			if tx.State != nil && i < len(tx.Sigs) && tx.Sigs[i] != nil {
				out[i] = fmt.Sprintf("%x", tx.Sigs[i])
			}
		}
		return out
	}
	cur, stg := s.CurrentTX(), s.StagingTX()
	v := struct {
		Idx     channel.Index
		Params  *channel.Params
		Phase   channel.Phase
		Cur     *channel.State
		CurSigs []string
		Stg     *channel.State
		StgSigs []string
		Peers   []map[wallet.BackendID]wire.Address
		Parent  *channel.ID
	}{s.Idx(), s.Params(), s.Phase(), cur.State, sigs(cur), stg.State, sigs(stg), peers, parent}
	return canon.String(&v)
}

// chanSlot is one channel identity (fixed parameters); it can be created, removed and re-created.
type chanSlot struct {
	name   string
	w      *mexplore.World
	peers  []map[wallet.BackendID]wire.Address
	parent *channel.ID
	live   bool
	ever   bool
	exec   *mexplore.Exec
	ops    []mexplore.Op // operations of the current incarnation (for the differential replay)
}

type step struct {
	Kind string `json:"kind"` // create | advance | remove | withdraw
	Ch   string `json:"channel"`
	Ops  string `json:"ops,omitempty"`
}

type witness struct {
	Store   string `json:"store"`
	History []step `json:"history"`
	Detail  string `json:"detail"`
}

func run(r *ev.Run, cfg props.Cfg) {
	nHist := cfg.Pick(1200, 20000)
	var wg sync.WaitGroup
	per := (nHist + cfg.Workers - 1) / cfg.Workers
	for wk := 0; wk < cfg.Workers; wk++ {
		wk := wk
		wg.Add(1)
		go func() {
			defer wg.Done()
			rng := gen.NewRand(cfg.Seed, fmt.Sprintf("c11/%d", wk))
			for i := 0; i < per; i++ {
				store := "memory"
				if i%4 == 3 {
					store = "leveldb"
				}
				history(r, rng, store, wk == 0 && i < 2)
			}
		}()
	}
	wg.Wait()
	r.Assume("'leaves no key behind' is judged layout-agnostically: the key set after a removal must equal the key set of the same history replayed without the removed channels")
}

func openStore(r *ev.Run, store string) (sortedkv.Database, func()) {
	if store == "memory" {
		return memorydb.NewDatabase(), func() {}
	}
	dir, err := os.MkdirTemp("", "verif-c11-")
	if err != nil {
		return nil, nil
	}
	db, err := leveldb.LoadDatabase(dir)
	if err != nil {
		os.RemoveAll(dir)
		return nil, nil
	}
	return db, func() { db.Close(); os.RemoveAll(dir) }
}

func history(r *ev.Run, rng *rand.Rand, store string, sample bool) {
	db, closeDB := openStore(r, store)
	if db == nil {
		r.Inconclusive("cannot open store")
		return
	}
	defer closeDB()
	pr := keyvalue.NewPersistRestorer(db)
	nPeers := 2 + rng.Intn(3)
	peerPool := make([]map[wallet.BackendID]wire.Address, nPeers)
	for i := range peerPool {
		peerPool[i] = gen.WireAddrAny(rng)
	}
	nCh := 3 + rng.Intn(4)
	slots := make([]*chanSlot, nCh)
	for i := range slots {
		n := 2 + rng.Intn(2)
		if rng.Intn(10) == 0 {
			n = []int{9, 10, 11, 12, 25, 100, 101}[rng.Intn(7)] // key names depend on the participant count (powers of ten are the edges)
		}
		w := mexplore.NewWellFormedWorld(rng, n, rng.Intn(n), gen.AppKind(rng.Intn(3)), 1+rng.Intn(2))
		s := &chanSlot{name: fmt.Sprintf("ch%d", i), w: w}
		// n-1 distinct peers from the pool (fewer if the pool is small)
		perm := rng.Perm(nPeers)
		for j := 0; j < n-1 && j < nPeers; j++ {
			s.peers = append(s.peers, peerPool[perm[j]])
		}
		if rng.Intn(6) == 0 {
			// one node in two roles of the channel: its address is listed twice
			s.peers = append(s.peers, s.peers[rng.Intn(len(s.peers))])
		}
		if i > 0 && rng.Intn(3) == 0 {
			id := slots[rng.Intn(i)].w.Params.ID()
			s.parent = &id
		}
		slots[i] = s
	}
	var hist []step
	steps := 5 + rng.Intn(26)
	removals, touched := 0, map[string]bool{}
	for st := 0; st < steps; st++ {
		s := slots[rng.Intn(nCh)]
		var sp step
		switch {
		case !s.live:
			m := s.w.NewMachine()
			if err := pr.ChannelCreated(ctx, m, s.peers, s.parent); err != nil {
				r.Violation("C11/create-error/"+store, fmt.Sprintf("ChannelCreated failed: %v", err), witness{Store: store, History: hist, Detail: s.name})
				return
			}
			s.exec = mexplore.NewExec(s.w, pdriver.New(m, pr))
			s.live, s.ever, s.ops = true, true, nil
			sp = step{Kind: "create", Ch: s.name}
			r.Count("creates", 1)
			if s.ever {
				r.Count("creates_total", 0)
			}
		case rng.Intn(5) == 0:
			if err := pr.ChannelRemoved(ctx, s.w.Params.ID()); err != nil {
				r.Violation("C11/remove-error/"+store, fmt.Sprintf("ChannelRemoved of a live channel failed: %v", err), witness{Store: store, History: hist, Detail: s.name})
				return
			}
			s.live = false
			removals++
			sp = step{Kind: "remove", Ch: s.name}
			r.Count("removals", 1)
		default:
			k := 1 + rng.Intn(8)
			var done []mexplore.Op
			for j := 0; j < k && s.live; j++ {
				op := mexplore.Progressive(s.exec, rng)
				if rng.Intn(4) == 0 {
					a := mexplore.Alphabet(s.w.N())
					op = a[rng.Intn(len(a))]
				}
				res := s.exec.Apply(op)
				if !res.Applicable {
					continue
				}
				done = append(done, op)
				s.ops = append(s.ops, op)
				if op.Kind == mexplore.OpSetWithdrawn && res.Err == nil {
					s.live = false // removed through the machine
					removals++
					r.Count("removals_via_SetWithdrawn", 1)
				}
			}
			sp = step{Kind: "advance", Ch: s.name, Ops: mexplore.SeqString(done)}
			r.Count("advance_operations", int64(len(done)))
		}
		touched[s.name] = true
		hist = append(hist, sp)
		nontrivial := false
		for _, x := range slots {
			if x.live && (x.exec.D.Source().CurrentTX().State != nil || x.exec.D.Source().StagingTX().State != nil) {
				nontrivial = true
			}
		}
		nontrivial = nontrivial && (removals > 0 || len(touched) > 1)
		r.Case(fmt.Sprintf("%s|%v", store, hist), nontrivial)
		if !checkViews(r, store, pr, db, slots, peerPool, hist) {
			return
		}
		if sp.Kind == "remove" || !s.live || st == steps-1 {
			if !checkKeys(r, store, db, slots, hist) {
				return
			}
		}
	}
	if sample {
		r.Sample(map[string]any{"store": store, "channels": nCh, "peers": nPeers, "history": hist})
	}
}

func peerKey(p map[wallet.BackendID]wire.Address) string { return string(wire.Keys(p)) }

// checkViews compares every restorer view with the reference.
func checkViews(r *ev.Run, store string, pr *keyvalue.PersistRestorer, db sortedkv.Database, slots []*chanSlot, pool []map[wallet.BackendID]wire.Address, hist []step) bool {
	fail := func(class, detail string) bool {
		r.Violation("C11/"+class+"/"+store, detail+fmt.Sprintf(" [after step %d: %+v]", len(hist), hist[len(hist)-1]), witness{Store: store, History: hist, Detail: detail})
		return false
	}
	want := map[channel.ID]string{}
	name := map[channel.ID]string{}
	for _, s := range slots {
		name[s.w.Params.ID()] = s.name
		if s.live {
			want[s.w.Params.ID()] = view(s.exec.D.Source(), s.peers, s.parent)
		}
	}
	collect := func(it persistence.ChannelIterator, e error) (map[channel.ID]string, []string, error) {
		got := map[channel.ID]string{}
		var dups []string
		if e != nil {
			return nil, nil, e
		}
		var perr error
		func() {
			defer func() {
				if p := recover(); p != nil {
					perr = fmt.Errorf("panic: %v", p)
				}
			}()
			for it.Next(ctx) {
				c := it.Channel()
				if _, dup := got[c.ID()]; dup {
					dups = append(dups, name[c.ID()])
				}
				got[c.ID()] = view(c, c.PeersV, c.Parent)
			}
		}()
		if perr != nil {
			return got, dups, perr
		}
		return got, dups, it.Close()
	}
	// RestoreChannel
	for _, s := range slots {
		if !s.ever {
			continue
		}
		id := s.w.Params.ID()
		var c *persistence.Channel
		var err error
		func() {
			defer func() {
				if p := recover(); p != nil {
					err = fmt.Errorf("panic: %v", p)
				}
			}()
			c, err = pr.RestoreChannel(ctx, id)
		}()
		r.Count("RestoreChannel_calls", 1)
		if s.live {
			if err != nil {
				return fail("restore-channel/live-fails", fmt.Sprintf("RestoreChannel(%s) of a live channel failed: %v", s.name, err))
			}
			if got := view(c, c.PeersV, c.Parent); got != want[id] {
				return fail("restore-channel/wrong-data", fmt.Sprintf("RestoreChannel(%s) returned other data than the live channel has: %s", s.name, diff(want[id], got)))
			}
		} else if err == nil {
			return fail("restore-channel/removed-succeeds", fmt.Sprintf("RestoreChannel(%s) of a removed channel succeeded", s.name))
		}
	}
	// RestoreAll
	{
		it, e := pr.RestoreAll()
		got, dups, err := collect(it, e)
		r.Count("RestoreAll_calls", 1)
		if err != nil {
			return fail("restore-all/error", fmt.Sprintf("RestoreAll failed: %v", err))
		}
		if len(dups) > 0 {
			return fail("restore-all/duplicate", fmt.Sprintf("RestoreAll yielded %v twice", dups))
		}
		if d := cmp(want, got, name); d != "" {
			return fail("restore-all/mismatch", "RestoreAll: "+d)
		}
	}
	// RestorePeer for every peer of the pool
	wantPeers := map[string]bool{}
	for _, p := range pool {
		wp := map[channel.ID]string{}
		for _, s := range slots {
			if !s.live {
				continue
			}
			for _, q := range s.peers {
				if peerKey(q) == peerKey(p) {
					wp[s.w.Params.ID()] = want[s.w.Params.ID()]
					wantPeers[peerKey(p)] = true
				}
			}
		}
		it, e := pr.RestorePeer(p)
		got, dups, err := collect(it, e)
		r.Count("RestorePeer_calls", 1)
		if err != nil {
			return fail("restore-peer/error", fmt.Sprintf("RestorePeer failed: %v", err))
		}
		if len(dups) > 0 {
			return fail("restore-peer/duplicate", fmt.Sprintf("RestorePeer yielded %v twice", dups))
		}
		if d := cmp(wp, got, name); d != "" {
			return fail("restore-peer/mismatch", "RestorePeer: "+d)
		}
	}
	// ActivePeers
	{
		ps, err := pr.ActivePeers(ctx)
		r.Count("ActivePeers_calls", 1)
		if err != nil {
			return fail("active-peers/error", fmt.Sprintf("ActivePeers failed: %v", err))
		}
		got := map[string]bool{}
		for _, p := range ps {
			if got[peerKey(p)] {
				return fail("active-peers/duplicate", "ActivePeers lists a peer twice")
			}
			got[peerKey(p)] = true
		}
		if len(got) != len(wantPeers) {
			return fail("active-peers/mismatch", fmt.Sprintf("ActivePeers lists %d peers, %d peers have live channels", len(got), len(wantPeers)))
		}
		for k := range wantPeers {
			if !got[k] {
				return fail("active-peers/mismatch", "ActivePeers misses a peer of a live channel")
			}
		}
	}
	return true
}

func cmp(want, got map[channel.ID]string, name map[channel.ID]string) string {
	for id, w := range want {
		g, ok := got[id]
		if !ok {
			return fmt.Sprintf("live channel %s is missing", name[id])
		}
		if g != w {
			return fmt.Sprintf("channel %s restored with other data: %s", name[id], diff(w, g))
		}
	}
	for id := range got {
		if _, ok := want[id]; !ok {
			n := name[id]
			if n == "" {
				n = fmt.Sprintf("unknown %x", id[:4])
			}
			return fmt.Sprintf("yields %s, which is not a live channel", n)
		}
	}
	return ""
}

// checkKeys replays the history without the removed channels on a fresh in-memory store and
// compares the raw key sets.
func checkKeys(r *ev.Run, store string, db sortedkv.Database, slots []*chanSlot, hist []step) bool {
	ref := memorydb.NewDatabase()
	rpr := keyvalue.NewPersistRestorer(ref)
	for _, s := range slots {
		if !s.live {
			continue
		}
		m := s.w.NewMachine()
		if err := rpr.ChannelCreated(ctx, m, s.peers, s.parent); err != nil {
			r.Inconclusive("differential replay failed")
			return true
		}
		e := mexplore.NewExec(s.w, pdriver.New(m, rpr))
		for _, op := range s.ops {
			e.Apply(op)
		}
	}
	got, want := keys(db), keys(ref)
	r.Count("key_set_comparisons", 1)
	r.Max("max_keys_in_store", int64(len(got)))
	var extra, missing []string
	for k := range got {
		if !want[k] {
			extra = append(extra, printable(k))
		}
	}
	for k := range want {
		if !got[k] {
			missing = append(missing, printable(k))
		}
	}
	if len(extra)+len(missing) > 0 {
		sort.Strings(extra)
		sort.Strings(missing)
		if len(extra) > 5 {
			extra = extra[:5]
		}
		if len(missing) > 5 {
			missing = missing[:5]
		}
		class := "residue"
		if len(extra) == 0 {
			class = "missing-keys"
		}
		d := fmt.Sprintf("the store's key set differs from a replay of the history without the removed channels: left behind %q, missing %q", extra, missing)
		r.Violation("C11/keys/"+class+"/"+store, d+fmt.Sprintf(" [after step %d: %+v]", len(hist), hist[len(hist)-1]), witness{Store: store, History: hist, Detail: d})
		return false
	}
	return true
}

func keys(db sortedkv.Database) map[string]bool {
	out := map[string]bool{}
	for k := range faultkv.Dump(db) {
		out[k] = true
	}
	return out
}

// printable renders a raw key with its binary parts in hex.
func printable(k string) string {
	var b strings.Builder
	for i := 0; i < len(k); i++ {
		c := k[i]
		if c >= 0x20 && c < 0x7f {
			b.WriteByte(c)
		} else {
			fmt.Fprintf(&b, "\\x%02x", c)
		}
	}
	s := b.String()
	if len(s) > 120 {
		s = s[:40] + "..." + s[len(s)-60:]
	}
	return s
}

func diff(a, b string) string {
	i := 0
	for i < len(a) && i < len(b) && a[i] == b[i] {
		i++
	}
	lo := i - 40
	if lo < 0 {
		lo = 0
	}
	cut := func(s string) string {
		if len(s) > 140 {
			return s[:140]
		}
		return s
	}
	return fmt.Sprintf("first difference at offset %d: want ...%s got ...%s", i, cut(a[lo:]), cut(b[lo:]))
}
