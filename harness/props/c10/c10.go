// Package c10: what is restored after a crash is exactly a state the channel machine was in.
package c10

import (
	"context"
	"encoding/hex"
	"fmt"
	"math/rand"
	"os"
	"strings"
	"sync"

	"perun.network/go-perun/channel"
	"perun.network/go-perun/channel/persistence"
	"perun.network/go-perun/channel/persistence/keyvalue"
	"perun.network/go-perun/wallet"
	"perun.network/go-perun/wire"
	"polycry.pt/poly-go/sortedkv"
	"polycry.pt/poly-go/sortedkv/leveldb"
	"polycry.pt/poly-go/sortedkv/memorydb"

	"verif/internal/canon"
	"verif/internal/ev"
	"verif/internal/faultkv"
	"verif/internal/gen"
	"verif/internal/mexplore"
	"verif/internal/pdriver"
	"verif/props"
)

func init() {
	props.Register(props.Entry{
		ID:    "C10",
		Level: "fault_enumeration",
		Rule: "histories of the persisting state machine (ChannelCreated, then random walks over the complete operation alphabet incl. failing calls, plus a sign-discard-restage skeleton with all its choices) on the key-value persister; the store is frozen at EVERY atomic write boundary (in-memory store: snapshot at each boundary of one run; LevelDB: history re-run per boundary with later writes dropped, database closed and re-opened) " +
			"and RestoreChannel/RestorePeer are compared with deep snapshots of the live machine before and after the interrupted operation (exactly 'after' once the operation's last write is in). A case is (history, crash boundary, store); non-trivial iff the boundary lies in an operation that writes >= 1 key and the channel has a staged or current transaction",
		Run: run,
	})
}

var ctx = context.Background()

// view is the comparable rendering of a persisted channel.
func view(s channel.Source, peers []map[wallet.BackendID]wire.Address, parent *channel.ID) string {
	n := len(s.Params().Parts)
	sigs := func(tx channel.Transaction) []string {
		out := make([]string, n)
		for i := range out {
			out[i] = "-"
			if tx.State != nil && i < len(tx.Sigs) && tx.Sigs[i] != nil {
				out[i] = hex.EncodeToString(tx.Sigs[i])
			}
		}
		return out
	}
	cur, stg := s.CurrentTX(), s.StagingTX()
	v := struct {
		Idx     channel.Index
		Params  *channel.Params
		Phase   channel.Phase
		Cur     *channel.State
		CurSigs []string
		Stg     *channel.State
		StgSigs []string
		Peers   []map[wallet.BackendID]wire.Address
		Parent  *channel.ID
	}{s.Idx(), s.Params(), s.Phase(), cur.State, sigs(cur), stg.State, sigs(stg), peers, parent}
	return canon.String(&v)
}

const absent = "<no such channel>"

type opRec struct {
	op              string
	before, after   string
	wBefore, wAfter int
	hasTx           bool
}

type recorder struct {
	db     *faultkv.DB
	peers  []map[wallet.BackendID]wire.Address
	parent *channel.ID
	ops    []opRec
	last   string
	lastW  int
	done   bool // the channel was removed
}

func (rc *recorder) Fork() mexplore.ForkableObserver { return rc }
func (rc *recorder) Observe(e *mexplore.Exec, st *mexplore.Step) {
	if rc.done {
		return
	}
	src := e.D.Source()
	after := view(src, rc.peers, rc.parent)
	if st.Op.Kind == mexplore.OpSetWithdrawn && st.Err == nil {
		after = absent
		rc.done = true
	}
	w := rc.db.Writes()
	rc.ops = append(rc.ops, opRec{op: st.Op.String(), before: rc.last, after: after, wBefore: rc.lastW, wAfter: w,
		hasTx: src.CurrentTX().State != nil || src.StagingTX().State != nil})
	rc.last, rc.lastW = after, w
}

type witness struct {
	Store    string   `json:"store"`
	History  []string `json:"history"`
	OpIndex  int      `json:"interrupted_operation_index"`
	Op       string   `json:"interrupted_operation"`
	Boundary int      `json:"write_boundary"`
	Of       string   `json:"boundaries_of_operation"`
	Restored string   `json:"restored"`
	Before   string   `json:"live_before"`
	After    string   `json:"live_after"`
	Via      string   `json:"via"`
}

type scenario struct {
	w      *mexplore.World
	peers  []map[wallet.BackendID]wire.Address
	parent *channel.ID
	seq    []mexplore.Op // nil: random walk
	length int
	// siblings are other channels with the same peers that exist in the store before the history
	// starts and are never touched: whatever happens to the channel under test, and wherever the
	// process stops, they must be restored unchanged.
	siblings []*sibling
}

type sibling struct {
	w    *mexplore.World
	view string
}

// runHistory executes the history on a fresh machine over db and returns the records.
func runHistory(sc *scenario, rng *rand.Rand, db *faultkv.DB) (*recorder, []mexplore.Op) {
	pr := keyvalue.NewPersistRestorer(db)
	m := sc.w.NewMachine()
	rc := &recorder{db: db, peers: sc.peers, parent: sc.parent, last: absent}
	for _, sb := range sc.siblings {
		sm := sb.w.NewMachine()
		if err := pr.ChannelCreated(ctx, sm, sc.peers, nil); err != nil {
			panic(fmt.Sprintf("c10: ChannelCreated (sibling): %v", err))
		}
		sb.view = view(sm, sc.peers, nil)
	}
	w0 := db.Writes()
	// operation 0: ChannelCreated
	err := pr.ChannelCreated(ctx, m, sc.peers, sc.parent)
	if err != nil {
		panic(fmt.Sprintf("c10: ChannelCreated: %v", err))
	}
	after := view(m, sc.peers, sc.parent)
	rc.ops = append(rc.ops, opRec{op: "ChannelCreated", before: absent, after: after, wBefore: w0, wAfter: db.Writes()})
	rc.last, rc.lastW = after, db.Writes()
	d := pdriver.New(m, pr)
	var seq []mexplore.Op
	if sc.seq == nil {
		e := mexplore.RandomWalk(sc.w, rng, sc.length, d, rc)
		seq = e.Seq
	} else {
		e := mexplore.NewExec(sc.w, d)
		for _, op := range sc.seq {
			st := e.Apply(op)
			if st.Applicable {
				rc.Observe(e, st)
			}
		}
		seq = sc.seq
	}
	return rc, seq
}

func run(r *ev.Run, cfg props.Cfg) {
	nHist := cfg.Pick(1500, 20000)
	lvlFrac := cfg.Pick(10, 100) // percent of boundaries replayed on LevelDB
	var wg sync.WaitGroup
	per := (nHist + cfg.Workers - 1) / cfg.Workers
	skel := skeletons()
	for wk := 0; wk < cfg.Workers; wk++ {
		wk := wk
		wg.Add(1)
		go func() {
			defer wg.Done()
			rng := gen.NewRand(cfg.Seed, fmt.Sprintf("c10/%d", wk))
			for i := 0; i < per; i++ {
				n := 2 + rng.Intn(2)
				if rng.Intn(12) == 0 {
					n = []int{9, 10, 11, 12, 25, 100, 101}[rng.Intn(7)] // key names depend on the participant count (powers of ten are the edges)
				}
				app := gen.AppKind(rng.Intn(3))
				w := mexplore.NewWellFormedWorld(rng, n, rng.Intn(n), app, 1+rng.Intn(2))
				sc := &scenario{w: w, length: 5 + rng.Intn(36)}
				for p := 0; p < n-1 && p < 4; p++ {
					sc.peers = append(sc.peers, gen.WireAddrAny(rng))
				}
				if rng.Intn(8) == 0 {
					sc.peers = append(sc.peers, sc.peers[0]) // one node in two roles
				}
				if rng.Intn(3) == 0 {
					id := gen.ID(rng)
					sc.parent = &id
				}
				if rng.Intn(4) == 0 {
					for k := 0; k < 3; k++ { // three, so that ids below and above the channel's are likely
						sc.siblings = append(sc.siblings, &sibling{w: mexplore.NewWellFormedWorld(rng, 2, rng.Intn(2), gen.AppKind(rng.Intn(3)), 1)})
					}
				}
				// every worker also runs its share of the skeleton histories
				if idx := i*cfg.Workers + wk; idx < len(skel) {
					sc.w = mexplore.NewWellFormedWorld(rng, 2, idx%2, app, 1)
					sc.peers = sc.peers[:1]
					sc.seq = skel[idx]
					r.Count("skeleton_histories", 1)
				}
				one(r, rng, sc, lvlFrac, wk == 0 && i < 2)
			}
		}()
	}
	wg.Wait()
	r.Assume("a batch is one atomic write (what LevelDB guarantees); the in-memory store has no crash semantics of its own, so its batches are treated the same way")
	r.Assume("a history ends when SetWithdrawn removed the channel from the store")
}

func one(r *ev.Run, rng *rand.Rand, sc *scenario, lvlFrac int, sample bool) {
	// --- in-memory store: one run, snapshot at every boundary
	inner := memorydb.NewDatabase()
	db := faultkv.New(inner)
	snaps := map[int]map[string]string{}
	db.AfterWrite = func(n int) { snaps[n] = faultkv.Dump(inner) }
	// the same rng state must drive the LevelDB replays: remember the executed sequence instead
	rc, seq := runHistory(sc, rng, db)
	hist := make([]string, 0, len(rc.ops))
	for _, o := range rc.ops {
		hist = append(hist, o.op)
	}
	hkey := strings.Join(hist, ";") + fmt.Sprintf("|n%d app%d idx%d", sc.w.N(), sc.w.App, sc.w.Idx)
	id := sc.w.Params.ID()
	r.Count("histories", 1)
	r.Count("operations", int64(len(rc.ops)))
	r.Count("write_boundaries_memory", int64(db.Writes()))
	for i, o := range rc.ops {
		if o.wAfter-o.wBefore > 1 {
			r.Count("operations_with_several_writes", 1)
		}
		for k := o.wBefore + 1; k <= o.wAfter; k++ {
			data := map[string]string{}
			for kk, vv := range snaps[k] {
				data[kk] = vv
			}
			check(r, "memory", memorydb.FromData(data), sc, rc, hist, hkey, i, k, id)
		}
	}
	if sample {
		r.Sample(map[string]any{"history": hist, "write_boundaries": db.Writes(), "participants": sc.w.N()})
	}
	// --- LevelDB: re-run the executed sequence per crash point, drop later writes, re-open
	total := rc.ops[len(rc.ops)-1].wAfter // writes after the channel's removal are outside the history
	fixed := &scenario{w: sc.w, peers: sc.peers, parent: sc.parent, seq: seq, siblings: sc.siblings}
	for k := rc.ops[0].wBefore + 1; k <= total; k++ { // (writes that set up sibling channels come before the history)
		if rng.Intn(100) >= lvlFrac {
			continue
		}
		dir, err := os.MkdirTemp("", "verif-c10-")
		if err != nil {
			r.Inconclusive("cannot create a scratch directory")
			return
		}
		func() {
			defer os.RemoveAll(dir)
			ldb, err := leveldb.LoadDatabase(dir)
			if err != nil {
				r.Inconclusive("cannot open LevelDB")
				return
			}
			fdb := faultkv.New(ldb)
			fdb.DropFrom = k // writes 0..k-1 are applied, the rest never happens
			rc2, _ := runHistory(fixed, rng, fdb)
			_ = ldb.Close()
			// Operations after the crash point may behave differently (some read the store), which
			// is irrelevant: only the prefix up to the interrupted operation has to be the same.
			same := false
			for i, o := range rc2.ops {
				if k > o.wBefore && k <= o.wAfter {
					same = i < len(rc.ops) && rc.ops[i].op == o.op && rc.ops[i].wBefore == o.wBefore && rc.ops[i].wAfter == o.wAfter
				}
			}
			if !same {
				if os.Getenv("C10_DEBUG") != "" {
					fmt.Println("DIVERGED k=", k, "total", total)
					for i := range rc.ops {
						var o2 opRec
						if i < len(rc2.ops) {
							o2 = rc2.ops[i]
						}
						fmt.Println(i, rc.ops[i].op, rc.ops[i].wBefore, rc.ops[i].wAfter, "|", o2.op, o2.wBefore, o2.wAfter)
					}
				}
				r.Inconclusive("LevelDB replay diverged from the recorded history before the crash point")
				return
			}
			re, err := leveldb.LoadDatabase(dir) // the real recovery path
			if err != nil {
				r.Violation("C10/leveldb/reopen", fmt.Sprintf("LevelDB could not be re-opened after a simulated crash: %v", err), witness{Store: "leveldb", History: hist, Boundary: k})
				return
			}
			defer re.Close()
			for i, o := range rc2.ops {
				if k > o.wBefore && k <= o.wAfter {
					check(r, "leveldb", re, sc, rc2, hist, hkey, i, k, id)
				}
			}
			r.Count("write_boundaries_leveldb", 1)
		}()
	}
}

// check restores from db (frozen after boundary k inside operation i) and compares.
func check(r *ev.Run, store string, db sortedkv.Database, sc *scenario, rc *recorder, hist []string, hkey string, i, k int, id channel.ID) {
	o := rc.ops[i]
	r.Case(fmt.Sprintf("%s|%s|op%d|k%d", store, hkey, i, k), o.hasTx)
	r.Seen("interrupted_operations", strings.SplitN(o.op, "(", 2)[0])
	pr := keyvalue.NewPersistRestorer(db)
	expect := []string{o.after}
	if k < o.wAfter {
		expect = append(expect, o.before)
		r.Count("boundaries_inside_an_operation", 1)
	}
	inSet := func(v string) bool {
		for _, e := range expect {
			if e == v {
				return true
			}
		}
		return false
	}
	fail := func(class, via, what, restored string) {
		r.Violation("C10/"+class+"/"+store+"/"+strings.SplitN(o.op, "(", 2)[0], what+fmt.Sprintf(" [operation %d %s, boundary %d of (%d,%d], via %s]", i, o.op, k, o.wBefore, o.wAfter, via),
			witness{Store: store, History: hist, OpIndex: i, Op: o.op, Boundary: k, Of: fmt.Sprintf("(%d,%d]", o.wBefore, o.wAfter), Restored: restored, Before: o.before, After: o.after, Via: via})
	}
	judge := func(via string, ch *persistence.Channel, err error) {
		got := absent
		if err == nil && ch != nil {
			got = view(ch, ch.PeersV, ch.Parent)
		}
		if inSet(got) {
			r.Count("restores_matching_"+map[bool]string{true: "after", false: "before"}[got == o.after], 1)
		} else if err != nil && !inSet(absent) {
			fail("restore-error", via, fmt.Sprintf("restoring a channel that exists before and after the interrupted operation failed: %v", err), "")
		} else {
			which := "neither the state before nor after the interrupted operation"
			if k == o.wAfter {
				which = "not the state after the completed operation"
			}
			fail("mismatch", via, "restored channel is "+which+": "+diff(o.after, got), got)
		}
		// the machine rebuilt from the restored channel (what the client does with it) shows the same
		// participant index, parameters, phase, current and staged transaction as the restored channel
		if err == nil && ch != nil && inSet(got) && int(ch.IdxV) < len(sc.w.Parties) {
			var m *channel.StateMachine
			var merr error
			func() {
				defer func() {
					if p := recover(); p != nil {
						merr = fmt.Errorf("panic: %v", p)
					}
				}()
				m, merr = channel.RestoreStateMachine(sc.w.Parties[ch.IdxV].AccMap(), ch)
			}()
			if merr != nil {
				fail("machine-rebuild-error", via, fmt.Sprintf("channel.RestoreStateMachine refused the restored channel: %v", merr), got)
			} else if mv := view(m, ch.PeersV, ch.Parent); mv != got {
				fail("machine-rebuild-mismatch", via, "the machine rebuilt from the restored channel differs from it: "+diff(got, mv), mv)
			} else {
				r.Count("machines_rebuilt_from_restored_channels_and_compared", 1)
			}
		}
		// no signature of another state may ever be restored with the staged state
		if err == nil && ch != nil && ch.StagingTXV.State != nil {
			for j, s := range ch.StagingTXV.Sigs {
				if s == nil || j >= len(sc.w.Parties) {
					continue
				}
				ok, verr := channel.Verify(sc.w.Parties[j].Any(), ch.StagingTXV.State, s)
				r.Count("restored_staging_signatures_verified", 1)
				if !ok || verr != nil {
					fail("stale-signature", via, fmt.Sprintf("restored staging signature %d does not verify for the restored staged state (version %d)", j, ch.StagingTXV.State.Version), got)
				}
			}
		}
	}
	var ch *persistence.Channel
	var err error
	func() {
		defer func() {
			if p := recover(); p != nil {
				err = fmt.Errorf("panic: %v", p)
			}
		}()
		ch, err = pr.RestoreChannel(ctx, id)
	}()
	judge("RestoreChannel", ch, err)
	// by peer
	for pi, p := range sc.peers {
		var found *persistence.Channel
		var ierr error
		others := map[channel.ID]string{}
		func() {
			defer func() {
				if pn := recover(); pn != nil {
					ierr = fmt.Errorf("panic: %v", pn)
				}
			}()
			it, e := pr.RestorePeer(p)
			if e != nil {
				ierr = e
				return
			}
			for it.Next(ctx) {
				c := it.Channel()
				if c.ID() == id {
					found = c
				} else {
					others[c.ID()] = view(c, c.PeersV, c.Parent)
				}
			}
			ierr = it.Close()
		}()
		for _, sb := range sc.siblings {
			r.Count("sibling_restores_checked", 1)
			got, ok := others[sb.w.Params.ID()]
			switch {
			case !ok:
				fail("sibling-lost", fmt.Sprintf("RestorePeer(%d)", pi), fmt.Sprintf("an untouched channel of the same peer is no longer restored (iterator error: %v)", ierr), "")
			case got != sb.view:
				fail("sibling-changed", fmt.Sprintf("RestorePeer(%d)", pi), "an untouched channel of the same peer is restored with other data: "+diff(sb.view, got), got)
			}
		}
		if ierr != nil && found == nil {
			judge(fmt.Sprintf("RestorePeer(%d)", pi), nil, ierr)
		} else {
			judge(fmt.Sprintf("RestorePeer(%d)", pi), found, nil)
		}
	}
}

// skeletons returns all variants of the sign-then-discard-then-restage history.
func skeletons() [][]mexplore.Op {
	op := func(k mexplore.Kind, i, c int) mexplore.Op { return mexplore.Op{Kind: k, I: i, Class: c} }
	var out [][]mexplore.Op
	for bits := 0; bits < 64; bits++ {
		b := func(i uint) bool { return bits&(1<<i) != 0 }
		s := []mexplore.Op{op(mexplore.OpInit, 0, mexplore.InitValid), op(mexplore.OpSig, 0, 0), op(mexplore.OpAddSig, 0, mexplore.SigValid), op(mexplore.OpAddSig, 1, mexplore.SigValid),
			op(mexplore.OpEnableInit, 0, 0), op(mexplore.OpSetFunded, 0, 0), op(mexplore.OpUpdate, 0, mexplore.UpdValid)}
		if b(0) {
			s = append(s, op(mexplore.OpSig, 0, 0))
		}
		if b(1) {
			s = append(s, op(mexplore.OpAddSig, 0, mexplore.SigValid), op(mexplore.OpAddSig, 1, mexplore.SigValid))
		}
		if b(2) {
			s = append(s, op(mexplore.OpDiscard, 0, 0))
		} else {
			s = append(s, op(mexplore.OpForceUpdate, 0, mexplore.UpdValid))
		}
		s = append(s, op(mexplore.OpUpdate, 0, mexplore.UpdValidByPeer))
		if b(3) {
			s = append(s, op(mexplore.OpSig, 0, 0))
		}
		s = append(s, op(mexplore.OpAddSig, 0, mexplore.SigValid), op(mexplore.OpAddSig, 1, mexplore.SigValid), op(mexplore.OpEnableUpdate, 0, 0))
		if b(4) {
			s = append(s, op(mexplore.OpSetRegistering, 0, 0), op(mexplore.OpSetRegistered, 0, 0), op(mexplore.OpSetProgressing, 0, mexplore.UpdValid), op(mexplore.OpSig, 0, 0),
				op(mexplore.OpSetProgressed, 0, mexplore.UpdValid), op(mexplore.OpSetWithdrawing, 0, 0), op(mexplore.OpSetWithdrawn, 0, 0))
		} else {
			s = append(s, op(mexplore.OpUpdate, 0, mexplore.UpdValidFinal), op(mexplore.OpSig, 0, 0))
			if b(5) {
				s = append(s, op(mexplore.OpAddSig, 0, mexplore.SigValid), op(mexplore.OpAddSig, 1, mexplore.SigValid), op(mexplore.OpEnableFinal, 0, 0), op(mexplore.OpSetWithdrawing, 0, 0), op(mexplore.OpSetWithdrawn, 0, 0))
			}
		}
		out = append(out, s)
	}
	return out
}

func diff(a, b string) string {
	i := 0
	for i < len(a) && i < len(b) && a[i] == b[i] {
		i++
	}
	lo := i - 40
	if lo < 0 {
		lo = 0
	}
	cut := func(s string) string {
		if len(s) > 160 {
			return s[:160]
		}
		return s
	}
	return fmt.Sprintf("first difference to the after-state at offset %d: want ...%s got ...%s", i, cut(a[lo:]), cut(b[lo:]))
}
