// Package c03: honest settlement pays each party its balance in the last agreed state.
package c03

import (
	"fmt"
	"math/big"
	"math/rand"
	"os"
	"perun.network/go-perun/channel"
	"strings"
	"sync"

	"verif/internal/childrun"
	"verif/internal/ev"
	"verif/internal/gen"
	"verif/internal/scen"
	"verif/internal/sink"
	"verif/props"
)

func init() {
	props.Register(props.Entry{
		ID:    "C03",
		Level: "exploration",
		Rule: "scenario programs for two real clients on the scheduling bus and the strict reference ledger (verifies signatures, versions, challenge period on a logical clock, conservation; refuses overdrafts): 1-3 assets, initial balances incl. zeros, optional funding agreement different from the initial balances, 0-12 payments of random direction and amount (some exceeding the payer's balance), accept/reject decisions with handler delays, " +
			"optional sub-channel (opened, paid in, closed cooperatively or left open), last state final or not (cooperative settlement vs. registration + timeout), either settle order or concurrent, both secondary flags, no-app and payment app. Oracle: ledger balances before opening vs. after both Settle calls returned nil, against the last state both parties enabled (recording persisters). " +
			"A case is the scenario program; non-trivial iff >= 2 updates were accepted and the payout was evaluated (both Settle calls returned nil, nothing timed out)",
		Run:       run,
		ChildMain: childMain,
	})
}

type witness struct {
	Scenario scen.Scenario `json:"scenario"`
	Problems []string      `json:"problems"`
	Log      []string      `json:"log"`
	Ledger   []string      `json:"ledger_calls"`
}

func run(r *ev.Run, cfg props.Cfg) {
	runScenarios(r, cfg, cfg.Pick(5000, 300000), "main", cfg.Workers)
	sink.RaceSlice(r, cfg, "C03", cfg.Workers, nil)
	r.Assume("the strict ledger is the harness' reference for what a real adjudicator accepts; a call of an honest client that it refuses is reported")
	r.Assume("runs in which a call returned a timeout or a Settle call failed are inconclusive for the payout oracle (counted), but ledger refusals of honest calls are still reported")
}

func childMain(cfg props.Cfg) int {
	em := childrun.NewEmitter()
	var w, W int
	fmt.Sscanf(strings.TrimPrefix(cfg.Child, "race:"), "%d/%d", &w, &W)
	n := cfg.Pick(500, 20000) / W
	if n < 1 {
		n = 1
	}
	runScenarios(sink.Prefixed{Sink: em, P: "race_slice_"}, cfg, n, fmt.Sprintf("race%d", w), 2)
	em.Done()
	return 0
}

func runScenarios(s sink.Sink, cfg props.Cfg, n int, stream string, workers int) {
	var wg sync.WaitGroup
	per := (n + workers - 1) / workers
	for wk := 0; wk < workers; wk++ {
		wk := wk
		wg.Add(1)
		go func() {
			defer wg.Done()
			rng := gen.NewRand(cfg.Seed, fmt.Sprintf("c03/%s/%d", stream, wk))
			for i := 0; i < per; i++ {
				one(s, rng, wk == 0 && i < 2)
			}
		}()
	}
	wg.Wait()
}

func one(s sink.Sink, rng *rand.Rand, sample bool) {
	sc := scen.Generate(rng)
	sc.StrictRegister = rng.Intn(3) == 0
	r := scen.New(rng, sc)
	defer r.Close()
	ok := r.Open() && r.Payments()
	if ok {
		r.Settle()
	}
	idle := r.WaitIdle()
	Evaluate(s, "C03", r, ok && idle, sample)
}

// Evaluate applies the payout oracle to a finished run (shared with C04's honest baseline).
func Evaluate(s sink.Sink, prop string, r *scen.Run, completed, sample bool) {
	sc := r.Sc
	var problems []string
	calls := r.W.Ledger.Calls()
	var callStrs []string
	for _, c := range calls {
		callStrs = append(callStrs, c.String())
		// an honest client must never make a call the reference adjudicator refuses
		if c.Idle {
			// strict mode: the peer's identical registration got there first; harmless by itself
			s.Count("registrations_refused_because_they_changed_nothing", 1)
			continue
		}
		if c.Err != "" && !c.Adversary {
			problems = append(problems, "the ledger refused a call of an honest client: "+c.String())
		}
	}
	s.Count("ledger_calls", int64(len(calls)))
	s.Count("scenarios", 1)
	s.Count("updates_accepted", int64(r.Accepted))
	s.Count("updates_rejected", int64(r.Rejected))
	s.Count("updates_failed_locally", int64(r.Local))
	if sc.Sub != nil {
		s.Count("scenarios_with_sub_channel", 1)
	}
	evaluated := false
	// Two honest clients, a reliable bus: at quiescence every update request that was handed to a
	// client must have been answered (accepted or rejected). A request dropped without an answer
	// makes the life cycle the statement is about impossible (the wall clock plays no role here:
	// the verdict is taken from the recorded messages once everything is at rest).
	if idle := r.WaitIdle(); idle {
		if un := r.Unanswered(); len(un) > 0 {
			problems = append(problems, fmt.Sprintf("honest update request never answered (dropped by the receiving client): %s", strings.Join(un, "; ")))
		}
	}
	if r.Stalled != "" && len(problems) == 0 {
		problems = append(problems, "honest run stalled: "+r.Stalled)
	}
	switch {
	case len(problems) > 0 && (strings.Contains(problems[0], "never answered") || strings.Contains(problems[0], "stalled")):
		// reported below
	case r.TimedOut:
		s.Inconclusive("a request timed out")
	case !completed:
		s.Inconclusive("scenario did not complete: " + r.Failed)
	case r.SettleErr[0] != nil || r.SettleErr[1] != nil:
		// Two honest parties, a healthy ledger, nothing timed out, every retry failed: the
		// settlement the statement is about cannot be carried out.
		problems = append(problems, fmt.Sprintf("an honest Settle call keeps failing (retried 4 times, nothing timed out): A: %v / B: %v", r.SettleErr[0], r.SettleErr[1]))
		if os.Getenv("C03_DEBUG") != "" {
			fmt.Printf("SETTLE FAILED %+v\n%s\n%s\n", sc, strings.Join(r.Log, "\n"), strings.Join(callStrs, "\n"))
		}
	default:
		evaluated = true
		id := r.Ch[0].ID()
		last := r.LastAgreed(id)
		if last == nil {
			problems = append(problems, "no state was enabled by both parties")
			break
		}
		var subLast = last
		subOpen := false
		if r.SubCh[0] != nil && !sc.Sub.Close {
			subOpen = true
			subLast = r.LastAgreed(r.SubCh[0].ID())
			if subLast == nil {
				problems = append(problems, "no sub-channel state was enabled by both parties")
				break
			}
		}
		var nestedLast *channel.State
		if subOpen && r.NestedCh[0] != nil {
			nestedLast = r.LastAgreed(r.NestedCh[0].ID())
			if nestedLast == nil {
				problems = append(problems, "no state of the nested sub-channel was enabled by both parties")
				break
			}
			s.Count("scenarios_with_nested_sub_channel", 1)
		}
		var secondLast *channel.State
		if subOpen && r.SecondCh[0] != nil {
			secondLast = r.LastAgreed(r.SecondCh[0].ID())
			if secondLast == nil {
				problems = append(problems, "no state of the second sub-channel was enabled by both parties")
				break
			}
			s.Count("scenarios_with_two_open_sub_channels", 1)
		}
		for a := 0; a < sc.Assets; a++ {
			total := new(big.Int)
			for i := 0; i < 2; i++ {
				funded := r.W.Ledger.Funded(id, i)[a]
				agreed := sc.Init[a][i]
				if sc.Agreement != nil {
					agreed = sc.Agreement[a][i]
				}
				if funded.Cmp(big.NewInt(agreed)) != 0 {
					problems = append(problems, fmt.Sprintf("funding took %v of asset %d from %s, agreed were %d", funded, a, r.P[i].Name, agreed))
				}
				want := new(big.Int).Sub(last.Balances[a][i], funded)
				if subOpen {
					want.Add(want, subLast.Balances[a][i])
				}
				if nestedLast != nil {
					want.Add(want, nestedLast.Balances[a][i])
				}
				if secondLast != nil {
					want.Add(want, secondLast.Balances[a][i])
				}
				got := r.Delta(i, a)
				total.Add(total, got)
				if got.Cmp(want) != 0 {
					problems = append(problems, fmt.Sprintf("%s: on-chain balance of asset %d changed by %v, expected %v (= balance %v in the last agreed state v%d minus funded %v)", r.P[i].Name, a, got, want, last.Balances[a][i], last.Version, funded))
				}
			}
			if total.Sign() != 0 {
				problems = append(problems, fmt.Sprintf("the ledger's total of asset %d changed by %v", a, total))
			}
			if h := r.W.Ledger.Holdings(id); h != nil && h[a].Sign() != 0 {
				problems = append(problems, fmt.Sprintf("%v of asset %d remains held for the channel after both settled", h[a], a))
			}
		}
		if last.IsFinal {
			s.Count("settled_cooperatively", 1)
		} else {
			s.Count("settled_through_registration_and_timeout", 1)
		}
		s.Count("payouts_evaluated", 1)
	}
	s.Case(fmt.Sprintf("%+v", sc), evaluated && r.Accepted >= 2)
	if len(problems) > 0 {
		class := "payout"
		switch {
		case strings.Contains(problems[0], "never answered"):
			class = "honest-request-never-answered"
		case strings.Contains(problems[0], "stalled"):
			class = "honest-run-stalled"
		case strings.Contains(problems[0], "keeps failing"):
			class = "honest-settle-failed"
		case strings.Contains(problems[0], "refused"):
			class = "honest-call-refused"
		case strings.Contains(problems[0], "funding took"):
			class = "funding-amount"
		case strings.Contains(problems[0], "total"):
			class = "conservation"
		case strings.Contains(problems[0], "remains held"):
			class = "holdings-left"
		}
		s.Violation(prop+"/"+class, problems[0], witness{Scenario: sc, Problems: problems, Log: r.Log, Ledger: callStrs})
	}
	if sample {
		s.Sample(map[string]any{"scenario": sc, "log": r.Log, "ledger_calls": callStrs})
	}
}
