// Package c20: multi-ledger calls reach exactly the ledgers whose assets are in the channel.
package c20

import (
	"context"
	"encoding/binary"
	"errors"
	"fmt"
	"math/rand"
	"os"
	"path/filepath"
	"runtime"
	"sort"
	"strings"
	"sync"
	"time"

	"perun.network/go-perun/channel"
	"perun.network/go-perun/channel/multi"

	"verif/internal/childrun"
	"verif/internal/ev"
	"verif/internal/gen"
	"verif/props"
)

func init() {
	props.Register(props.Entry{
		ID:    "C20",
		Level: "fault_enumeration",
		Rule: "asset lists of 1-6 assets over 1-4 ledgers (repeats in any order, ledgers that differ only in the backend id, unknown ledgers) x subsets of registered ledgers x failing subsets x completion orders of the concurrent sub-calls (every permutation for <= 4 ledgers; the harness releases the blocked sub-calls one by one) x {Register, Progress, Withdraw, Fund, Fund with every egoistic index}; " +
			"scripted per-ledger adjudicators/funders log (ledger, method, start, end) on a logical counter. A case is (asset->ledger list, registered set, failing set, completion order, method); non-trivial iff the asset list names >= 2 distinct ledgers",
		Run:       run,
		ChildMain: childMain,
	})
}

// ---------------------------------------------------------------------------------------------
// harness-side multi-ledger assets

type ledgerID string

func (l ledgerID) MapKey() multi.LedgerIDMapKey { return multi.LedgerIDMapKey(l) }

type lbID struct {
	backend uint32
	ledger  ledgerID
}

func (l lbID) BackendID() uint32        { return l.backend }
func (l lbID) LedgerID() multi.LedgerID { return l.ledger }
func (l lbID) String() string           { return fmt.Sprintf("%s@%d", l.ledger, l.backend) }

type asset struct {
	id lbID
	n  uint64
}

func (a *asset) MarshalBinary() ([]byte, error) {
	b := make([]byte, 8)
	binary.BigEndian.PutUint64(b, a.n)
	return append(b, []byte(a.id.String())...), nil
}
func (a *asset) UnmarshalBinary([]byte) error { return errors.New("not needed") }
func (a *asset) Equal(b channel.Asset) bool {
	o, ok := b.(*asset)
	return ok && *o == *a
}
func (a *asset) Address() []byte                        { b, _ := a.MarshalBinary(); return b }
func (a *asset) LedgerBackendID() multi.LedgerBackendID { return a.id }

// ---------------------------------------------------------------------------------------------
// scripted ledgers

// plainAsset is a channel asset that is not a multi-ledger asset.
type plainAsset struct{ n uint64 }

func (a *plainAsset) MarshalBinary() ([]byte, error) { return []byte{byte(a.n)}, nil }
func (a *plainAsset) UnmarshalBinary([]byte) error   { return errors.New("not needed") }
func (a *plainAsset) Equal(b channel.Asset) bool {
	o, ok := b.(*plainAsset)
	return ok && o.n == a.n
}
func (a *plainAsset) Address() []byte { return []byte{byte(a.n)} }

type callLog struct {
	Ledger     string
	Method     string
	Start, End int64
	Err        bool
	SameArgs   bool
}

type hub struct {
	mu      sync.Mutex
	clock   int64
	calls   []*callLog
	waiting map[string]chan struct{} // ledger -> release gate of its blocked call
	arrived chan string
}

func (h *hub) tick() int64 { h.clock++; return h.clock }

type ledger struct {
	h    *hub
	name string
	fail bool
	kind int // which error a failing sub-call returns
	want any // pointer identity of the request's state to check argument pass-through
}

// failure returns the error of a failing sub-call: a sub-call may fail with any error, including
// ones that look like the caller's own context errors.
func (l *ledger) failure() error {
	switch l.kind % 4 {
	case 1:
		return fmt.Errorf("ledger %s: waiting for the peers' deposits: %w", l.name, context.Canceled)
	case 2:
		return context.DeadlineExceeded
	case 3:
		return context.Canceled
	}
	return fmt.Errorf("scripted failure on ledger %s", l.name)
}

func (l *ledger) enter(method string, same bool) error {
	gate := make(chan struct{})
	l.h.mu.Lock()
	c := &callLog{Ledger: l.name, Method: method, Start: l.h.tick(), SameArgs: same, End: -1}
	l.h.calls = append(l.h.calls, c)
	l.h.waiting[l.name] = gate
	l.h.mu.Unlock()
	l.h.arrived <- l.name
	<-gate
	l.h.mu.Lock()
	c.End = l.h.tick()
	c.Err = l.fail
	l.h.mu.Unlock()
	if l.fail {
		return l.failure()
	}
	return nil
}

func (l *ledger) Register(_ context.Context, req channel.AdjudicatorReq, sub []channel.SignedState) error {
	return l.enter("Register", req.Tx.State == l.want && len(sub) == 1)
}
func (l *ledger) Withdraw(_ context.Context, req channel.AdjudicatorReq, sm channel.StateMap) error {
	return l.enter("Withdraw", req.Tx.State == l.want && len(sm) == 1)
}
func (l *ledger) Progress(_ context.Context, req channel.ProgressReq) error {
	return l.enter("Progress", req.Tx.State == l.want && req.NewState == l.want)
}
func (l *ledger) Subscribe(context.Context, channel.ID) (channel.AdjudicatorSubscription, error) {
	return nil, errors.New("not scripted")
}
func (l *ledger) Fund(_ context.Context, req channel.FundingReq) error {
	return l.enter("Fund", req.State == l.want)
}

// ---------------------------------------------------------------------------------------------

type caseDesc struct {
	Assets     []string `json:"asset_ledgers"`
	Registered []string `json:"registered"`
	Failing    []string `json:"failing"`
	ErrKind    int      `json:"error_kind_of_failing_sub_calls"` // 0 plain, 1 wrapping context.Canceled, 2 DeadlineExceeded, 3 context.Canceled
	Order      []string `json:"completion_order"`
	Method     string   `json:"method"`
	Egoistic   int      `json:"egoistic_index"` // -1: none
	Calls      []string `json:"observed_calls,omitempty"`
	Returned   string   `json:"returned,omitempty"`
}

func (c caseDesc) key() string {
	return fmt.Sprintf("%v|%v|%v|%v|%s|%d", c.Assets, c.Registered, c.Failing, c.Order, c.Method, c.Egoistic)
}

func run(r *ev.Run, cfg props.Cfg) {
	bin := cfg.Self
	race := cfg.Race
	if !race && cfg.SelfAlt != "" {
		bin, race = cfg.SelfAlt, true
	}
	raceDir := filepath.Join(ev.Root(), "evidence", "race")
	_ = os.MkdirAll(raceDir, 0o755)
	logPrefix := filepath.Join(raceDir, fmt.Sprintf("C20.%d", os.Getpid()))
	var env []string
	if race {
		env = append(env, "GORACE=halt_on_error=0 log_path="+logPrefix)
	}
	childrun.Run(r, cfg, childrun.Opts{
		Prop: "C20", Binary: bin, Workers: cfg.Workers, Env: env,
		Arg: func(w int) string { return fmt.Sprintf("%d/%d", w, cfg.Workers) },
		OnDeath: func(w int, last, stderr string, err error) {
			r.Violation("C20/crash/"+childrun.PanicSite(stderr), fmt.Sprintf("the multi-ledger workload killed the process: %s (case: %s)", childrun.FatalLine(stderr), last),
				map[string]any{"case": last, "stderr": childrun.FirstLines(stderr, 40)})
		},
	})
	if race {
		files, _ := filepath.Glob(logPrefix + ".*")
		n, inMulti := 0, 0
		for _, f := range files {
			b, _ := os.ReadFile(f)
			for _, blk := range strings.Split(string(b), "==================") {
				if strings.Contains(blk, "WARNING: DATA RACE") {
					n++
					if strings.Contains(blk, "go-perun/channel/multi.") {
						inMulti++
						if inMulti == 1 {
							r.Note("race detector report in channel/multi (recorded, the verdict is behavioural): %s", childrun.FirstLines(blk, 12))
						}
					}
				}
			}
			_ = os.Remove(f)
		}
		r.Count("race_reports", int64(n))
		r.Count("race_reports_in_channel_multi", int64(inMulti))
		r.Set("race_detector", "on (children built with -race)")
	} else {
		r.Set("race_detector", "off (no race build available)")
	}
	r.Assume("when a call fails, ledgers may have been called at most once each (dispatch is concurrent); 'exactly once each' is required of successful calls")
}

// baseline is the goroutine count of the idle child.
var baseline int

func childMain(cfg props.Cfg) int {
	baseline = runtime.NumGoroutine()
	var w, W int
	fmt.Sscanf(cfg.Child, "%d/%d", &w, &W)
	em := childrun.NewEmitter()
	rng := gen.NewRand(cfg.Seed, fmt.Sprintf("c20/%d", w))
	budget := cfg.Pick(200000, 3000000) / W
	n := 0
	for n < budget {
		n += assetList(em, rng, budget-n, w == 0 && n == 0)
	}
	em.Done()
	return 0
}

var ledgerPool = []lbID{{0, "A"}, {0, "B"}, {1, "A"}, {0, "C"}, {2, "D"}}

func perms(a []string) [][]string {
	if len(a) <= 1 {
		return [][]string{append([]string(nil), a...)}
	}
	var out [][]string
	for i := range a {
		rest := append(append([]string(nil), a[:i]...), a[i+1:]...)
		for _, p := range perms(rest) {
			out = append(out, append([]string{a[i]}, p...))
		}
	}
	return out
}

// assetList enumerates registered subsets x failing subsets x completion orders x methods for
// one asset list; returns the number of cases executed.
func assetList(em *childrun.Emitter, rng *rand.Rand, budget int, sample bool) int {
	nLedgers := 1 + rng.Intn(4)
	lp := rng.Perm(len(ledgerPool))[:nLedgers]
	nAssets := 1 + rng.Intn(6)
	assets := make([]channel.Asset, nAssets)
	var names []string
	var distinct []string
	seen := map[string]bool{}
	for i := range assets {
		l := ledgerPool[lp[rng.Intn(nLedgers)]]
		assets[i] = &asset{id: l, n: uint64(i)}
		names = append(names, l.String())
		if !seen[l.String()] {
			seen[l.String()] = true
			distinct = append(distinct, l.String())
		}
	}
	// an asset that names no ledger at all (a plain channel asset in a multi-ledger channel): no
	// registered adjudicator or funder can serve it, so the request has to fail
	if rng.Intn(6) == 0 {
		i := rng.Intn(nAssets)
		assets[i] = &plainAsset{n: uint64(i)}
		names[i] = "plain-asset-without-a-ledger"
		seen, distinct = map[string]bool{}, nil
		for j, a := range assets {
			if ma, ok := a.(*asset); ok && !seen[names[j]] {
				_ = ma
				seen[names[j]] = true
				distinct = append(distinct, names[j])
			}
		}
	}
	D := len(distinct)
	executed := 0
	methods := []struct {
		m   string
		ego int
	}{{"Register", -1}, {"Progress", -1}, {"Withdraw", -1}, {"Fund", -1}}
	for i := 0; i < D; i++ {
		methods = append(methods, struct {
			m   string
			ego int
		}{"Fund", i})
	}
	methods = append(methods, struct {
		m   string
		ego int
	}{"Fund", D}) // an egoistic index beyond the ledger list selects nothing
	for regBits := 0; regBits < 1<<uint(D); regBits++ {
		var reg []string
		for i, l := range distinct {
			if regBits&(1<<uint(i)) != 0 {
				reg = append(reg, l)
			}
		}
		// also register a ledger that is not among the assets (must never be called)
		for failBits := 0; failBits < 1<<uint(len(reg)); failBits++ {
			var failing []string
			for i, l := range reg {
				if failBits&(1<<uint(i)) != 0 {
					failing = append(failing, l)
				}
			}
			orders := perms(reg)
			for _, me := range methods {
				// sample when the space is large
				for _, ord := range orders {
					if D >= 3 && rng.Intn(D*D) != 0 && !(regBits == 1<<uint(D)-1 && failBits == 0) {
						continue
					}
					c := caseDesc{Assets: names, Registered: reg, Failing: failing, Order: ord, Method: me.m, Egoistic: me.ego}
					if len(failing) > 0 {
						c.ErrKind = rng.Intn(4)
					}
					oneCase(em, assets, distinct, c)
					executed++
					if sample && executed == 5 {
						em.Sample(c)
					}
					if executed >= budget {
						return executed
					}
				}
			}
		}
	}
	return executed
}

func contains(a []string, s string) bool {
	for _, x := range a {
		if x == s {
			return true
		}
	}
	return false
}

func oneCase(em *childrun.Emitter, assets []channel.Asset, distinct []string, c caseDesc) {
	em.Progress(c.key())
	h := &hub{waiting: map[string]chan struct{}{}, arrived: make(chan string, 64)}
	state := &channel.State{Allocation: channel.Allocation{Assets: assets}}
	params := &channel.Params{ChallengeDuration: 1 << 30}
	adj := multi.NewAdjudicator()
	fnd := multi.NewFunder()
	byName := map[string]lbID{}
	for _, l := range ledgerPool {
		byName[l.String()] = l
	}
	for _, name := range c.Registered {
		l := &ledger{h: h, name: name, fail: contains(c.Failing, name), kind: c.ErrKind, want: state}
		adj.RegisterAdjudicator(byName[name], l)
		fnd.RegisterFunder(byName[name], l)
	}
	// a registered ledger that the channel does not use
	for _, l := range ledgerPool {
		if !contains(distinct, l.String()) {
			x := &ledger{h: h, name: l.String() + "(unused)", want: state}
			adj.RegisterAdjudicator(l, x)
			fnd.RegisterFunder(l, x)
			break
		}
	}
	if c.Egoistic >= 0 {
		fnd.SetEgoisticPart(c.Egoistic)
	}
	tx := channel.Transaction{State: state}
	ret := make(chan error, 1)
	go func() {
		var err error
		defer func() {
			if p := recover(); p != nil {
				err = fmt.Errorf("PANIC: %v", p)
			}
			ret <- err
		}()
		ctx := context.Background()
		switch c.Method {
		case "Register":
			err = adj.Register(ctx, channel.AdjudicatorReq{Params: params, Tx: tx}, []channel.SignedState{{}})
		case "Withdraw":
			err = adj.Withdraw(ctx, channel.AdjudicatorReq{Params: params, Tx: tx}, channel.StateMap{channel.ID{1}: state})
		case "Progress":
			err = adj.Progress(ctx, channel.ProgressReq{AdjudicatorReq: channel.AdjudicatorReq{Params: params, Tx: tx}, NewState: state})
		case "Fund":
			err = fnd.Fund(ctx, channel.FundingReq{Params: params, State: state})
		}
	}()
	// Release blocked sub-calls in the scripted completion order. The harness knows when
	// nothing more can arrive without a release: every goroutine alive beyond the baseline
	// (and the runner of the call itself) is then blocked at a gate.
	returned := false
	var retErr error
	alive := func() int {
		n := runtime.NumGoroutine() - baseline
		if !returned {
			n-- // the runner
		}
		return n
	}
	drain := func() {
		for {
			select {
			case <-h.arrived:
				continue
			case retErr = <-ret:
				returned = true
				continue
			default:
			}
			return
		}
	}
	waiting := func() int { h.mu.Lock(); defer h.mu.Unlock(); return len(h.waiting) }
	stable := func() bool {
		deadline := time.Now().Add(5 * time.Second)
		for i := 0; ; i++ {
			drain()
			if alive() <= waiting() {
				drain()
				return true
			}
			if time.Now().After(deadline) {
				return false
			}
			if i < 200 {
				runtime.Gosched()
			} else {
				time.Sleep(50 * time.Microsecond)
			}
		}
	}
	release := func(name string) bool {
		h.mu.Lock()
		g := h.waiting[name]
		delete(h.waiting, name)
		h.mu.Unlock()
		if g != nil {
			close(g)
			return true
		}
		return false
	}
	egoName := ""
	if c.Method == "Fund" && c.Egoistic >= 0 && c.Egoistic < len(distinct) {
		egoName = distinct[c.Egoistic]
	}
	order := append([]string(nil), c.Order...)
	if egoName != "" {
		// the egoistic ledger can only complete last: move it to the end of the scripted order
		var o2 []string
		for _, n := range order {
			if n != egoName {
				o2 = append(o2, n)
			}
		}
		if contains(order, egoName) {
			o2 = append(o2, egoName)
		}
		order = o2
	}
	for _, name := range order {
		if !stable() {
			em.Inconclusive("watchdog: no stable point reached")
			return
		}
		release(name) // if it is not waiting at a stable point it will never arrive
	}
	// release whatever else shows up (calls to ledgers that should not have been called) until
	// the process is back at its baseline
	deadline := time.Now().Add(10 * time.Second)
	for {
		drain()
		h.mu.Lock()
		var names []string
		for n := range h.waiting {
			names = append(names, n)
		}
		h.mu.Unlock()
		for _, n := range names {
			release(n)
		}
		if returned && runtime.NumGoroutine() <= baseline && waiting() == 0 {
			break
		}
		if time.Now().After(deadline) {
			em.Inconclusive("watchdog: multi-ledger call did not come to rest")
			return
		}
		runtime.Gosched()
	}
	h.mu.Lock()
	calls := append([]*callLog(nil), h.calls...)
	h.mu.Unlock()

	// ---- oracle
	h.mu.Lock()
	defer h.mu.Unlock()
	sort.Slice(calls, func(i, j int) bool { return calls[i].Start < calls[j].Start })
	for _, cl := range calls {
		c.Calls = append(c.Calls, fmt.Sprintf("%s.%s[%d,%d]err=%v", cl.Ledger, cl.Method, cl.Start, cl.End, cl.Err))
	}
	c.Returned = fmt.Sprint(retErr)
	nontrivial := len(distinct) >= 2
	em.Case(c.key(), nontrivial)
	em.Count("multi_ledger_calls", 1)
	em.Count("sub_calls_observed", int64(len(calls)))
	em.Seen("methods", c.Method)
	fail := func(class, what string) {
		em.Violation("C20/"+class+"/"+c.Method, what+" ["+c.key()+"]", c)
	}
	if retErr != nil && strings.HasPrefix(retErr.Error(), "PANIC") {
		fail("panic", "the call panicked: "+retErr.Error())
		return
	}
	count := map[string]int{}
	for _, cl := range calls {
		count[cl.Ledger]++
		if cl.Method != c.Method {
			fail("wrong-method", fmt.Sprintf("ledger %s received %s for a %s request", cl.Ledger, cl.Method, c.Method))
		}
		if !cl.SameArgs {
			fail("arguments", fmt.Sprintf("ledger %s did not receive the request's transaction/sub-states unchanged", cl.Ledger))
		}
		if !contains(distinct, cl.Ledger) {
			fail("foreign-ledger", fmt.Sprintf("ledger %s was called although none of the channel's assets belongs to it", cl.Ledger))
		}
		if count[cl.Ledger] > 1 {
			fail("duplicate", fmt.Sprintf("ledger %s was called %d times", cl.Ledger, count[cl.Ledger]))
		}
	}
	allRegistered := len(c.Registered) == len(distinct)
	wantOK := allRegistered && len(c.Failing) == 0 && !contains(c.Assets, "plain-asset-without-a-ledger")
	if contains(c.Assets, "plain-asset-without-a-ledger") {
		em.Count("requests_with_an_asset_that_names_no_ledger", 1)
	}
	if (retErr == nil) != wantOK {
		fail("result", fmt.Sprintf("returned %v, but all ledgers registered=%v and failing sub-calls=%v", retErr, allRegistered, c.Failing))
	}
	if retErr == nil {
		for _, l := range distinct {
			if count[l] != 1 {
				fail("missing", fmt.Sprintf("the call succeeded but ledger %s was called %d times", l, count[l]))
			}
		}
		em.Count("successful_calls", 1)
	} else {
		em.Count("failing_calls", 1)
	}
	if egoName != "" {
		var ego *callLog
		for _, cl := range calls {
			if cl.Ledger == egoName {
				ego = cl
			}
		}
		othersOK := !contains(c.Assets, "plain-asset-without-a-ledger") // such a request cannot be served at all
		for _, l := range distinct {
			if l == egoName {
				continue
			}
			if !contains(c.Registered, l) || contains(c.Failing, l) {
				othersOK = false
			}
		}
		if ego != nil {
			em.Count("egoistic_fund_calls_observed", 1)
			if !othersOK {
				fail("egoistic-after-failure", fmt.Sprintf("the egoistic ledger %s was funded although funding another ledger failed or was impossible", egoName))
			}
			for _, cl := range calls {
				if cl.Ledger != egoName && (cl.End < 0 || cl.End > ego.Start || cl.Err) {
					fail("egoistic-order", fmt.Sprintf("funding of the egoistic ledger %s started at %d before ledger %s had succeeded (end %d, err %v)", egoName, ego.Start, cl.Ledger, cl.End, cl.Err))
				}
			}
		} else if othersOK && contains(c.Registered, egoName) {
			fail("egoistic-missing", fmt.Sprintf("all other ledgers were funded but the egoistic ledger %s never was", egoName))
		}
	}
}
