// Package c15: values are equal exactly when their encodings are; a signature binds one state.
package c15

import (
	"bytes"
	"fmt"
	"math/rand"
	"sync"

	"perun.network/go-perun/channel"

	"verif/internal/canon"
	"verif/internal/ev"
	"verif/internal/gen"
	"verif/props"
)

func init() {
	props.Register(props.Entry{
		ID:    "C15",
		Level: "exploration",
		Rule: "pairs (base state, variant) where the variant is a clone, the result of exactly one single-field mutator (26 mutators: id, version, final flag, app, data, one balance, one asset, one backend id, one locked id/amount/index-map entry, each dimension) or an unrelated random state; " +
			"Equal of State, Allocation, Balances and every SubAlloc pair is compared with byte equality of the encodings; signature triples (signer, verifier key, state A, state B). A case is (kind, mutator, shape of the base); non-trivial iff the pair differs in exactly one field or is an equal pair with distinct pointers",
		Run: run,
	})
}

type witness struct {
	Kind    string `json:"kind"`
	Mutator string `json:"mutator"`
	A       string `json:"a"`
	B       string `json:"b"`
	EncA    string `json:"enc_a_hex,omitempty"`
	EncB    string `json:"enc_b_hex,omitempty"`
}

func enc(f func(*bytes.Buffer) error) (b []byte, ok bool) {
	defer func() {
		if recover() != nil {
			b, ok = nil, false
		}
	}()
	var buf bytes.Buffer
	if err := f(&buf); err != nil {
		return nil, false
	}
	return buf.Bytes(), true
}

func safeEq(f func() error) (eq bool, panicked any) {
	defer func() {
		if p := recover(); p != nil {
			eq, panicked = false, p
		}
	}()
	return f() == nil, nil
}

func run(r *ev.Run, cfg props.Cfg) {
	nBase := cfg.Pick(8000, 120000)
	nSig := cfg.Pick(8000, 120000)
	var wg sync.WaitGroup
	per := (nBase + cfg.Workers - 1) / cfg.Workers
	perS := (nSig + cfg.Workers - 1) / cfg.Workers
	for w := 0; w < cfg.Workers; w++ {
		w := w
		wg.Add(1)
		go func() {
			defer wg.Done()
			rng := gen.NewRand(cfg.Seed, fmt.Sprintf("c15/eq/%d", w))
			for i := 0; i < per; i++ {
				equalityCases(r, rng, w == 0 && i < 2)
			}
			rng = gen.NewRand(cfg.Seed, fmt.Sprintf("c15/sig/%d", w))
			for i := 0; i < perS; i++ {
				signatureCase(r, rng, w == 0 && i == 0)
			}
		}()
	}
	wg.Wait()
	r.Assume("values that cannot be encoded (e.g. an allocation that is not well-formed) have no encoding to compare with and are skipped (counted)")
}

func baseState(rng *rand.Rand) (*channel.State, []gen.Party) {
	n := 2 + rng.Intn(3)
	ps := gen.Parties(rng, n)
	p := gen.Params(rng, ps, gen.AppOf(gen.AppKind(rng.Intn(3))))
	s := gen.RandShape(rng, n)
	if s.Assets > 8 {
		s.Assets = 1 + rng.Intn(4)
	}
	if s.Locked > 4 {
		s.Locked = rng.Intn(4)
	}
	if rng.Intn(3) > 0 && s.Locked == 0 {
		s.Locked = 1 + rng.Intn(2)
	}
	return gen.State(rng, p, s), ps
}

func comparePair(r *ev.Run, kind, mut string, a, b *channel.State, nontrivial bool, shape string) {
	r.Case("eq|"+kind+"|"+mut+"|"+shape, nontrivial)
	fail := func(level, what string, ea, eb []byte) {
		sigMut := mut
		if kind == "two-fields" {
			sigMut = "*"
		}
		r.Violation("C15/"+level+"/"+kind+"/"+sigMut, what, witness{Kind: kind, Mutator: mut, A: canon.String(a), B: canon.String(b), EncA: fmt.Sprintf("%x", ea), EncB: fmt.Sprintf("%x", eb)})
	}
	check := func(level string, eqf func() error, ea, eb []byte, okA, okB bool) {
		if !okA || !okB {
			r.Count("skipped_unencodable", 1)
			return
		}
		eq, p := safeEq(eqf)
		if p != nil {
			fail(level+"-panic", fmt.Sprintf("%s.Equal panicked: %v", level, p), ea, eb)
			return
		}
		r.Count("comparisons_"+level, 1)
		if encEq := bytes.Equal(ea, eb); eq != encEq {
			fail(level, fmt.Sprintf("%s: Equal says %v but encodings identical = %v", level, eq, encEq), ea, eb)
		}
		// symmetry
		if level == "State" {
			if eq2, _ := safeEq(func() error { return b.Equal(a) }); eq2 != eq {
				fail(level+"-asymmetric", "State.Equal is not symmetric", ea, eb)
			}
		}
	}
	ea, okA := enc(func(w *bytes.Buffer) error { return a.Encode(w) })
	eb, okB := enc(func(w *bytes.Buffer) error { return b.Encode(w) })
	check("State", func() error { return a.Equal(b) }, ea, eb, okA, okB)
	ea, okA = enc(func(w *bytes.Buffer) error { return a.Allocation.Encode(w) })
	eb, okB = enc(func(w *bytes.Buffer) error { return b.Allocation.Encode(w) })
	check("Allocation", func() error { return a.Allocation.Equal(&b.Allocation) }, ea, eb, okA, okB)
	ea, okA = enc(func(w *bytes.Buffer) error { return a.Balances.Encode(w) })
	eb, okB = enc(func(w *bytes.Buffer) error { return b.Balances.Encode(w) })
	check("Balances", func() error { return a.Balances.AssertEqual(b.Balances) }, ea, eb, okA, okB)
	if okA && okB {
		if e1, e2 := a.Balances.Equal(b.Balances), a.Balances.AssertEqual(b.Balances) == nil; e1 != e2 {
			fail("Balances-inconsistent", "Balances.Equal and AssertEqual disagree", ea, eb)
		}
	}
	for i := range a.Locked {
		if i >= len(b.Locked) {
			break
		}
		sa, sb := a.Locked[i], b.Locked[i]
		ea, okA = enc(func(w *bytes.Buffer) error { return sa.Encode(w) })
		eb, okB = enc(func(w *bytes.Buffer) error { return sb.Encode(w) })
		check("SubAlloc", func() error { return sa.Equal(&sb) }, ea, eb, okA, okB)
	}
	// SubAllocsAssertEqual over the whole vectors: compare with equality of the concatenated encodings
	var la, lb bytes.Buffer
	okA, okB = true, true
	for _, s := range a.Locked {
		if s.Encode(&la) != nil {
			okA = false
		}
	}
	for _, s := range b.Locked {
		if s.Encode(&lb) != nil {
			okB = false
		}
	}
	if okA && okB {
		eq := channel.SubAllocsAssertEqual(a.Locked, b.Locked) == nil
		encEq := len(a.Locked) == len(b.Locked) && bytes.Equal(la.Bytes(), lb.Bytes())
		r.Count("comparisons_SubAllocs", 1)
		if eq != encEq {
			fail("SubAllocs", fmt.Sprintf("SubAllocsAssertEqual says %v but encodings identical = %v", eq, encEq), la.Bytes(), lb.Bytes())
		}
	}
}

func equalityCases(r *ev.Run, rng *rand.Rand, sample bool) {
	a, _ := baseState(rng)
	shape := canon.Shape(a)
	// equal pair with distinct pointers
	comparePair(r, "clone", "-", a, a.Clone(), true, shape)
	// every single-field mutator
	for _, m := range gen.StateMutators {
		b := a.Clone()
		if !m.Apply(rng, b) {
			r.Count("mutator_not_applicable", 1)
			continue
		}
		r.Seen("mutators_applied", m.Name)
		comparePair(r, "single-field", m.Name, a, b, true, shape)
		if sample && m.Name == "locked-indexmap-entry" {
			r.Sample(map[string]any{"kind": "single-field", "mutator": m.Name, "a": trunc(canon.String(&a.Allocation)), "b": trunc(canon.String(&b.Allocation))})
		}
	}
	// two random mutators
	b := a.Clone()
	m1 := gen.StateMutators[rng.Intn(len(gen.StateMutators))]
	m2 := gen.StateMutators[rng.Intn(len(gen.StateMutators))]
	if m1.Apply(rng, b) && m2.Apply(rng, b) {
		comparePair(r, "two-fields", m1.Name+"+"+m2.Name, a, b, false, shape)
	}
	// unrelated state
	c, _ := baseState(rng)
	comparePair(r, "random", "-", a, c, false, shape)
}

func signatureCase(r *ev.Run, rng *rand.Rand, sample bool) {
	a, ps := baseState(rng)
	var b *channel.State
	mut := "clone"
	if rng.Intn(4) == 0 {
		b = a.Clone()
	} else {
		b = a.Clone()
		m := gen.StateMutators[rng.Intn(len(gen.StateMutators))]
		if m.Apply(rng, b) {
			mut = m.Name
		}
	}
	ea, okA := enc(func(w *bytes.Buffer) error { return a.Encode(w) })
	eb, okB := enc(func(w *bytes.Buffer) error { return b.Encode(w) })
	if !okA || !okB {
		r.Count("skipped_unencodable", 1)
		return
	}
	same := bytes.Equal(ea, eb)
	signer := rng.Intn(len(ps))
	sig := gen.Sign(ps[signer], a)
	for v := range ps {
		var ok bool
		var err error
		func() {
			defer func() {
				if p := recover(); p != nil {
					err = fmt.Errorf("panic: %v", p)
				}
			}()
			ok, err = channel.Verify(ps[v].Any(), b, sig)
		}()
		want := same && v == signer
		r.Case(fmt.Sprintf("sig|%s|same=%v|signer=verifier:%v|%s", mut, same, v == signer, canon.Shape(a)), true)
		r.Count("verify_calls", 1)
		if want {
			r.Count("verify_expected_true", 1)
		}
		if err != nil || ok != want {
			r.Violation(fmt.Sprintf("C15/signature/%s/want=%v", mut, want),
				fmt.Sprintf("Verify(participant %d, B, Sign(participant %d, A)) = (%v, %v), want %v (A and B equal: %v, mutator %s)", v, signer, ok, err, want, same, mut),
				witness{Kind: "signature", Mutator: mut, A: canon.String(a), B: canon.String(b), EncA: fmt.Sprintf("%x", ea), EncB: fmt.Sprintf("%x", eb)})
		}
	}
	if sample {
		r.Sample(map[string]any{"kind": "signature", "mutator": mut, "signer": signer, "verifiers": len(ps), "states_equal": same})
	}
}

func trunc(s string) string {
	if len(s) > 500 {
		return s[:500] + "..."
	}
	return s
}
