// Package c02: only valid successor states can be staged.
package c02

import (
	"fmt"
	"math"
	"math/big"
	"math/rand"
	"sync"
	"verif/internal/mexplore"

	"perun.network/go-perun/channel"

	"verif/internal/canon"
	"verif/internal/ev"
	"verif/internal/gen"
	"verif/internal/refmodel"
	"verif/props"
)

func init() {
	props.Register(props.Entry{
		ID:    "C02",
		Level: "exploration",
		Rule: "for generated (parameters, current state) pairs - the current state is reached on a real StateMachine by Init, signing, EnableInit, SetFunded and 0..6 accepted updates (payments, locked funds added/removed, optionally a final one) with the no-app, payment app and data app, 2..4 participants, 1..3 assets - " +
			"one valid successor, every single-condition violation (38 mutators) and random double violations are offered to Update and CheckUpdate, and valid/invalid initial allocations to Init; the verdict is compared with an independent predicate written from the statement. " +
			"A case is (app, participants, assets, locked count, current final?, version class, mutator); non-trivial iff the candidate violates >= 1 condition or is the valid successor of a state with version >= 1",
		Run: run,
	})
}

type witness struct {
	App       int    `json:"app"`
	Mutator   string `json:"mutator"`
	Actor     int    `json:"actor"`
	Current   string `json:"current_state"`
	Candidate string `json:"candidate"`
	Verdict   string `json:"reference_verdict"`
	Reason    string `json:"reference_reason"`
	Got       string `json:"implementation"`
}

type cand struct {
	name  string
	apply func(r *rand.Rand, c *ctx, s *channel.State, actor *channel.Index) bool
}

type ctx struct {
	p   *channel.Params
	ps  []gen.Party
	cur *channel.State
	app gen.AppKind
}

func one() *big.Int { return big.NewInt(1) }

var mutators = []cand{
	{"sum+1", func(r *rand.Rand, c *ctx, s *channel.State, _ *channel.Index) bool {
		i, j := r.Intn(len(s.Balances)), r.Intn(len(s.Balances[0]))
		s.Balances[i][j] = new(big.Int).Add(s.Balances[i][j], one())
		return true
	}},
	{"sum+2^64-in-word-sized-entries", func(r *rand.Rand, c *ctx, s *channel.State, _ *channel.Index) bool {
		// every entry still fits 64 bits, the row's total grows by exactly 2^64: a total that is
		// accumulated in a machine word cannot tell this row from the current one
		i := r.Intn(len(s.Balances))
		if len(s.Balances[i]) < 2 {
			return false
		}
		rest := new(big.Int).Add(s.Balances[i][0], s.Balances[i][1])
		s.Balances[i][0] = new(big.Int).SetUint64(math.MaxUint64)
		s.Balances[i][1] = rest.Add(rest, one())
		return true
	}},
	{"sum+2^64", func(r *rand.Rand, c *ctx, s *channel.State, _ *channel.Index) bool {
		i, j := r.Intn(len(s.Balances)), r.Intn(len(s.Balances[0]))
		s.Balances[i][j] = new(big.Int).Add(s.Balances[i][j], new(big.Int).Lsh(one(), 64))
		return true
	}},
	{"locked-amount+2^64-in-word-sized-entries", func(r *rand.Rand, c *ctx, s *channel.State, _ *channel.Index) bool {
		// the same through the locked funds: balance 2^64-1, locked amount +1 more than was taken
		if len(s.Locked) == 0 {
			return false
		}
		k := r.Intn(len(s.Locked))
		i := r.Intn(len(s.Balances))
		old := s.Balances[i][0]
		s.Balances[i][0] = new(big.Int).SetUint64(math.MaxUint64)
		s.Locked[k].Bals[i] = new(big.Int).Add(s.Locked[k].Bals[i], new(big.Int).Add(old, one()))
		return true
	}},
	{"sum-1", func(r *rand.Rand, c *ctx, s *channel.State, _ *channel.Index) bool {
		for i := range s.Balances {
			for j := range s.Balances[i] {
				if s.Balances[i][j].Sign() > 0 {
					s.Balances[i][j] = new(big.Int).Sub(s.Balances[i][j], one())
					return true
				}
			}
		}
		return false
	}},
	{"locked-amount+1", func(r *rand.Rand, c *ctx, s *channel.State, _ *channel.Index) bool {
		if len(s.Locked) == 0 {
			return false
		}
		k := r.Intn(len(s.Locked))
		i := r.Intn(len(s.Locked[k].Bals))
		s.Locked[k].Bals[i] = new(big.Int).Add(s.Locked[k].Bals[i], one())
		return true
	}},
	{"locked-added-without-debit", func(r *rand.Rand, c *ctx, s *channel.State, _ *channel.Index) bool {
		sa := gen.SubAlloc(r, len(s.Assets), len(s.Balances[0]), false, func(*rand.Rand) *big.Int { return big.NewInt(3) })
		s.Locked = append(s.Locked, sa)
		return true
	}},
	{"locked-removed-without-credit", func(r *rand.Rand, c *ctx, s *channel.State, _ *channel.Index) bool {
		for k := range s.Locked {
			for _, b := range s.Locked[k].Bals {
				if b.Sign() > 0 {
					s.Locked = append(append([]channel.SubAlloc(nil), s.Locked[:k]...), s.Locked[k+1:]...)
					return true
				}
			}
		}
		return false
	}},
	{"version+0", func(r *rand.Rand, c *ctx, s *channel.State, _ *channel.Index) bool {
		s.Version = c.cur.Version
		return true
	}},
	{"version+2", func(r *rand.Rand, c *ctx, s *channel.State, _ *channel.Index) bool {
		s.Version = c.cur.Version + 2
		return true
	}},
	{"version-1", func(r *rand.Rand, c *ctx, s *channel.State, _ *channel.Index) bool {
		s.Version = c.cur.Version - 1
		return true
	}},
	{"version-max", func(r *rand.Rand, c *ctx, s *channel.State, _ *channel.Index) bool {
		s.Version = math.MaxUint64
		return c.cur.Version != math.MaxUint64-1
	}},
	{"version-zero", func(r *rand.Rand, c *ctx, s *channel.State, _ *channel.Index) bool { s.Version = 0; return true }},
	{"asset-replaced", func(r *rand.Rand, c *ctx, s *channel.State, _ *channel.Index) bool {
		s.Assets[r.Intn(len(s.Assets))] = gen.Asset(r)
		return true
	}},
	{"assets-swapped", func(r *rand.Rand, c *ctx, s *channel.State, _ *channel.Index) bool {
		if len(s.Assets) < 2 {
			return false
		}
		// swap the identifiers only: every asset's total now belongs to the other asset
		s.Assets[0], s.Assets[1] = s.Assets[1], s.Assets[0]
		return true
	}},
	{"asset-dropped", func(r *rand.Rand, c *ctx, s *channel.State, _ *channel.Index) bool {
		if len(s.Assets) < 2 {
			return false
		}
		l := len(s.Assets) - 1
		s.Assets, s.Backends, s.Balances = s.Assets[:l], s.Backends[:l], s.Balances[:l]
		for k := range s.Locked {
			s.Locked[k].Bals = s.Locked[k].Bals[:l]
		}
		return true
	}},
	{"asset-appended-empty", func(r *rand.Rand, c *ctx, s *channel.State, _ *channel.Index) bool {
		s.Assets = append(s.Assets, gen.Asset(r))
		s.Backends = append(s.Backends, gen.B)
		row := make([]channel.Bal, len(s.Balances[0]))
		for i := range row {
			row[i] = big.NewInt(0)
		}
		s.Balances = append(s.Balances, row)
		for k := range s.Locked {
			s.Locked[k].Bals = append(s.Locked[k].Bals, big.NewInt(0))
		}
		return true
	}},
	{"negative-balance-compensated", func(r *rand.Rand, c *ctx, s *channel.State, _ *channel.Index) bool {
		i := r.Intn(len(s.Balances))
		old := s.Balances[i][0]
		s.Balances[i][0] = big.NewInt(-1)
		s.Balances[i][1] = new(big.Int).Add(s.Balances[i][1], new(big.Int).Add(old, one()))
		return true
	}},
	{"negative-locked-compensated", func(r *rand.Rand, c *ctx, s *channel.State, _ *channel.Index) bool {
		if len(s.Locked) == 0 {
			return false
		}
		k := r.Intn(len(s.Locked))
		old := s.Locked[k].Bals[0]
		s.Locked[k].Bals[0] = big.NewInt(-1)
		s.Balances[0][0] = new(big.Int).Add(s.Balances[0][0], new(big.Int).Add(old, one()))
		return true
	}},
	{"ragged-balances", func(r *rand.Rand, c *ctx, s *channel.State, _ *channel.Index) bool {
		if len(s.Balances) < 2 {
			return false
		}
		i := len(s.Balances) - 1
		l := len(s.Balances[i]) - 1
		s.Balances[i][0] = new(big.Int).Add(s.Balances[i][0], s.Balances[i][l])
		s.Balances[i] = s.Balances[i][:l]
		return true
	}},
	{"ragged-later-row-longer-compensated", func(r *rand.Rand, c *ctx, s *channel.State, a *channel.Index) bool {
		// one more entry than participants in a later asset row, taken from the actor so that the
		// row's total (and the payment rule for existing participants) is kept
		if len(s.Balances) < 2 {
			return false
		}
		i := 1 + r.Intn(len(s.Balances)-1)
		half := new(big.Int).Rsh(s.Balances[i][*a], 1)
		s.Balances[i][*a] = new(big.Int).Sub(s.Balances[i][*a], half)
		s.Balances[i] = append(s.Balances[i], half)
		return true
	}},
	{"ragged-first-row-longer-compensated", func(r *rand.Rand, c *ctx, s *channel.State, a *channel.Index) bool {
		if len(s.Balances) < 2 {
			return false
		}
		half := new(big.Int).Rsh(s.Balances[0][*a], 1)
		s.Balances[0][*a] = new(big.Int).Sub(s.Balances[0][*a], half)
		s.Balances[0] = append(s.Balances[0], half)
		return true
	}},
	{"app-refuses-data", func(r *rand.Rand, c *ctx, s *channel.State, _ *channel.Index) bool {
		if c.app != gen.AppData {
			return false
		}
		s.Data = gen.RefusedData(r)
		return true
	}},
	{"participants+1", func(r *rand.Rand, c *ctx, s *channel.State, _ *channel.Index) bool {
		for i := range s.Balances {
			s.Balances[i] = append(s.Balances[i], big.NewInt(0))
		}
		return true
	}},
	{"participants+1-funded", func(r *rand.Rand, c *ctx, s *channel.State, a *channel.Index) bool {
		// move everything the actor owns to a participant that does not exist
		for i := range s.Balances {
			s.Balances[i] = append(s.Balances[i], s.Balances[i][*a])
			s.Balances[i][*a] = big.NewInt(0)
		}
		return true
	}},
	{"participants-1", func(r *rand.Rand, c *ctx, s *channel.State, _ *channel.Index) bool {
		for i := range s.Balances {
			l := len(s.Balances[i]) - 1
			s.Balances[i][0] = new(big.Int).Add(s.Balances[i][0], s.Balances[i][l])
			s.Balances[i] = s.Balances[i][:l]
		}
		return true
	}},
	{"locked-balance-vector-short", func(r *rand.Rand, c *ctx, s *channel.State, _ *channel.Index) bool {
		if len(s.Locked) == 0 || len(s.Assets) < 2 {
			return false
		}
		k := r.Intn(len(s.Locked))
		l := len(s.Locked[k].Bals) - 1
		s.Balances[l][0] = new(big.Int).Add(s.Balances[l][0], s.Locked[k].Bals[l])
		s.Locked[k].Bals = s.Locked[k].Bals[:l]
		return true
	}},
	{"wrong-id", func(r *rand.Rand, c *ctx, s *channel.State, _ *channel.Index) bool {
		s.ID[r.Intn(32)] ^= 4
		return true
	}},
	{"wrong-app", func(r *rand.Rand, c *ctx, s *channel.State, _ *channel.Index) bool {
		switch c.app {
		case gen.AppNone:
			s.App = gen.Payment
		case gen.AppPayment:
			s.App = gen.Payment2
		default:
			s.App, s.Data = channel.NoApp(), channel.NoData()
		}
		return true
	}},
	{"actor=N", func(r *rand.Rand, c *ctx, s *channel.State, a *channel.Index) bool {
		*a = channel.Index(len(c.p.Parts))
		return true
	}},
	{"actor=65535", func(r *rand.Rand, c *ctx, s *channel.State, a *channel.Index) bool { *a = 65535; return true }},
	{"actor-takes-from-peer", func(r *rand.Rand, c *ctx, s *channel.State, a *channel.Index) bool {
		// sums preserved; violates only the payment app's rule
		peer := (int(*a) + 1) % len(c.p.Parts)
		for i := range s.Balances {
			if s.Balances[i][peer].Sign() > 0 && c.cur.Balances[i][peer].Cmp(s.Balances[i][peer]) <= 0 {
				s.Balances[i][peer] = new(big.Int).Sub(c.cur.Balances[i][peer], one())
				s.Balances[i][*a] = new(big.Int).Add(c.cur.Balances[i][*a], one())
				// undo other movements in this row so that the totals stay right
				tot := new(big.Int)
				for j := range s.Balances[i] {
					if j != peer && j != int(*a) {
						s.Balances[i][j] = new(big.Int).Set(c.cur.Balances[i][j])
					}
					tot.Add(tot, s.Balances[i][j])
				}
				return true
			}
		}
		return false
	}},
	{"locked-amount-released-to-the-actor", func(r *rand.Rand, c *ctx, s *channel.State, a *channel.Index) bool {
		// sums preserved: part of a locked amount goes to the actor. Fine without an app; the payment
		// app forbids the actor's balance to grow - also when that balance is zero
		for pass := 0; pass < 2; pass++ {
			for k := range s.Locked {
				for i := range s.Locked[k].Bals {
					if pass == 0 && (i >= len(c.cur.Balances) || int(*a) >= len(c.cur.Balances[i]) || c.cur.Balances[i][*a].Sign() != 0) {
						continue // first choice: a row in which the actor owns nothing
					}
					if s.Locked[k].Bals[i].Sign() > 0 && i < len(s.Balances) && int(*a) < len(s.Balances[i]) {
						// undo what the valid successor did in this row, then move one unit
						for j := range s.Balances[i] {
							s.Balances[i][j] = new(big.Int).Set(c.cur.Balances[i][j])
						}
						s.Locked[k].Bals[i] = new(big.Int).Sub(s.Locked[k].Bals[i], one())
						s.Balances[i][*a] = new(big.Int).Add(s.Balances[i][*a], one())
						return true
					}
				}
			}
		}
		return false
	}},
	{"locked-moved-sums-preserved", func(r *rand.Rand, c *ctx, s *channel.State, _ *channel.Index) bool {
		if len(s.Locked) < 2 {
			return false
		}
		for i := range s.Locked[0].Bals {
			if s.Locked[0].Bals[i].Sign() > 0 {
				s.Locked[0].Bals[i] = new(big.Int).Sub(s.Locked[0].Bals[i], one())
				s.Locked[1].Bals[i] = new(big.Int).Add(s.Locked[1].Bals[i], one())
				return true
			}
		}
		return false
	}},
	{"backend-changed", func(r *rand.Rand, c *ctx, s *channel.State, _ *channel.Index) bool {
		s.Backends[r.Intn(len(s.Backends))] = 3
		return true
	}},
	{"data-changed", func(r *rand.Rand, c *ctx, s *channel.State, _ *channel.Index) bool {
		if c.app != gen.AppData {
			return false
		}
		s.Data = gen.DataFor(r, gen.DApp)
		return true
	}},
	{"final-flag", func(r *rand.Rand, c *ctx, s *channel.State, _ *channel.Index) bool {
		s.IsFinal = !s.IsFinal
		return true
	}},
	{"no-assets", func(r *rand.Rand, c *ctx, s *channel.State, _ *channel.Index) bool {
		s.Assets, s.Backends, s.Balances, s.Locked = nil, nil, nil, nil
		return true
	}},
}

func run(r *ev.Run, cfg props.Cfg) {
	n := cfg.Pick(4000, 60000)
	var wg sync.WaitGroup
	per := (n + cfg.Workers - 1) / cfg.Workers
	for w := 0; w < cfg.Workers; w++ {
		w := w
		wg.Add(1)
		go func() {
			defer wg.Done()
			rng := gen.NewRand(cfg.Seed, fmt.Sprintf("c02/%d", w))
			for i := 0; i < per; i++ {
				scenario(r, rng, w == 0 && i == 0)
			}
		}()
	}
	wg.Wait()
	r.Assume("candidates are states as a decoder can produce them: no nil balances, data of the app's own type")
	r.Assume("a changed backend list and version overflow are not covered by the statement: the oracle abstains (counted)")
}

// validSuccessor builds a valid successor of cur for the given actor.
func validSuccessor(r *rand.Rand, c *ctx, actor int) *channel.State {
	s := c.cur.Clone()
	s.Version = c.cur.Version + 1
	n := len(c.p.Parts)
	for i := range s.Balances {
		if r.Intn(2) == 0 {
			continue
		}
		to := (actor + 1 + r.Intn(n-1)) % n
		if s.Balances[i][actor].Sign() > 0 {
			amt := new(big.Int).Rand(r, s.Balances[i][actor])
			amt.Add(amt, one())
			if amt.Cmp(s.Balances[i][actor]) > 0 {
				amt.Set(s.Balances[i][actor])
			}
			s.Balances[i][actor] = new(big.Int).Sub(s.Balances[i][actor], amt)
			s.Balances[i][to] = new(big.Int).Add(s.Balances[i][to], amt)
		}
	}
	if c.app == gen.AppData {
		s.Data = gen.DataFor(r, gen.DApp)
	}
	// sometimes lock funds of the actor in a new sub-allocation or release one to the actor's peer... (sums preserved)
	switch r.Intn(6) {
	case 0:
		sa := channel.SubAlloc{ID: gen.ID(r), Bals: make([]channel.Bal, len(s.Assets)), IndexMap: []channel.Index{}}
		for i := range sa.Bals {
			sa.Bals[i] = big.NewInt(0)
			if s.Balances[i][actor].Sign() > 0 {
				sa.Bals[i] = big.NewInt(1)
				s.Balances[i][actor] = new(big.Int).Sub(s.Balances[i][actor], one())
			}
		}
		s.Locked = append(s.Locked, sa)
	case 1:
		if len(s.Locked) > 0 {
			k := r.Intn(len(s.Locked))
			to := (actor + 1) % n
			for i, b := range s.Locked[k].Bals {
				s.Balances[i][to] = new(big.Int).Add(s.Balances[i][to], b)
			}
			s.Locked = append(append([]channel.SubAlloc(nil), s.Locked[:k]...), s.Locked[k+1:]...)
		}
	}
	return s
}

func scenario(r *ev.Run, rng *rand.Rand, sample bool) {
	n := 2 + rng.Intn(3)
	app := gen.AppKind(rng.Intn(3))
	ps := gen.Parties(rng, n)
	p := gen.Params(rng, ps, gen.AppOf(app))
	idx := rng.Intn(n)
	m, err := channel.NewStateMachine(ps[idx].AccMap(), *p)
	if err != nil {
		panic(err)
	}
	shape := gen.Shape{Assets: 1 + rng.Intn(3), Parts: n, Locked: rng.Intn(3), Small: true}
	initAlloc := gen.Allocation(rng, shape)
	if rng.Intn(4) == 0 {
		// large magnitudes, still far from the 128-byte encoding limit when summed
		sh := uint(64 + rng.Intn(800))
		for i := range initAlloc.Balances {
			for j := range initAlloc.Balances[i] {
				initAlloc.Balances[i][j] = new(big.Int).Lsh(initAlloc.Balances[i][j], sh)
			}
		}
	}
	c := &ctx{p: p, ps: ps, app: app}

	// --- Init: invalid variants first (they must be refused and leave the machine usable)
	initCases(r, rng, c, m, initAlloc)

	if err := m.Init(*initAlloc, gen.DataFor(rng, p.App)); err != nil {
		r.Violation("C02/init/valid-refused", fmt.Sprintf("Init refused a well-formed allocation: %v", err), witness{App: int(app), Candidate: canon.String(initAlloc)})
		return
	}
	signAll := func() bool {
		for i := range ps {
			if err := m.AddSig(channel.Index(i), gen.Sign(ps[i], m.StagingState())); err != nil {
				return false
			}
		}
		return true
	}
	if !signAll() || m.EnableInit() != nil || m.SetFunded() != nil {
		r.Inconclusive("could not reach the Acting phase")
		return
	}
	// --- reach a current state by accepted updates
	k := rng.Intn(7)
	final := rng.Intn(5) == 0
	for u := 0; u < k; u++ {
		c.cur = m.State()
		actor := rng.Intn(n)
		s := validSuccessor(rng, c, actor)
		if final && u == k-1 {
			s.IsFinal = true
		}
		if err := m.Update(s, channel.Index(actor)); err != nil {
			v, why := refmodel.ValidSuccessor(p, c.cur, s, channel.Index(actor))
			r.Violation("C02/update/valid-refused", fmt.Sprintf("Update refused a valid successor (%v %s): %v", v, why, err),
				witness{App: int(app), Mutator: "history", Actor: actor, Current: canon.String(c.cur), Candidate: canon.String(s), Got: err.Error()})
			return
		}
		if !signAll() {
			r.Inconclusive("signing failed")
			return
		}
		if s.IsFinal {
			err = m.EnableFinal()
		} else {
			err = m.EnableUpdate()
		}
		if err != nil {
			r.Inconclusive("enable failed")
			return
		}
		r.Count("accepted_updates_in_histories", 1)
	}
	c.cur = m.State()
	if c.cur.IsFinal {
		// the machine is in phase Final; Update is a phase error there. CheckUpdate has no phase guard.
		r.Count("current_states_final", 1)
	}
	// The successor rules are about the current *state*, whatever phase the machine is in: move on
	// through the dispute phases, or continue on a machine restored the way a restarted client
	// does it (the phase it reports may be Acting although the current state is final).
	switch rng.Intn(6) {
	case 0:
		steps := []func() error{m.SetRegistering, m.SetRegistered, m.SetWithdrawing}
		for _, f := range steps[:1+rng.Intn(3)] {
			if f() != nil {
				break
			}
		}
		r.Seen("phases_of_the_machine_when_candidates_were_offered", m.Phase().String())
	case 1:
		if m2, err := mexplore.RestoreWithPhase(m, p, ps[idx].AccMap(), channel.Acting); err == nil {
			m = m2
			r.Count("machines_restored_in_phase_acting", 1)
			if c.cur.IsFinal {
				r.Count("machines_restored_in_phase_acting_with_a_final_current_state", 1)
			}
		}
	}
	r.Seen("phases_of_the_machine_when_candidates_were_offered", m.Phase().String())
	verClass := "v0"
	if c.cur.Version > 0 {
		verClass = "v>=1"
	}
	desc := func(mut string) string {
		return fmt.Sprintf("app%d n%d a%d l%d final=%v %s %s", app, n, len(c.cur.Assets), len(c.cur.Locked), c.cur.IsFinal, verClass, mut)
	}

	offer := func(mut string, s *channel.State, actor channel.Index, nontrivial bool) {
		v, why := refmodel.ValidSuccessor(p, c.cur, s, actor)
		r.Case(desc(mut), nontrivial)
		if v == refmodel.Unspecified {
			r.Count("abstained_unspecified", 1)
			return
		}
		r.Seen("mutators", mut)
		r.Count("verdict_"+v.String(), 1)
		w := func(got string) witness {
			return witness{App: int(app), Mutator: mut, Actor: int(actor), Current: canon.String(c.cur), Candidate: canon.String(s), Verdict: v.String(), Reason: why, Got: got}
		}
		// CheckUpdate with a valid signature of an existing participant over the candidate
		sigIdx := int(actor)
		if sigIdx >= n {
			sigIdx = 0
		}
		var sig []byte
		func() {
			defer func() { _ = recover() }()
			sig, _ = channel.Sign(ps[sigIdx].Acc, s, gen.B)
		}()
		if sig != nil {
			err, pan := try(func() error { return m.CheckUpdate(s, actor, sig, channel.Index(sigIdx)) })
			r.Count("checkupdate_calls", 1)
			switch {
			case pan != nil:
				r.Violation("C02/checkupdate/panic/"+mut, fmt.Sprintf("CheckUpdate panicked instead of returning an error: %v", pan), w(fmt.Sprint(pan)))
			case (err == nil) != (v == refmodel.Accept):
				r.Violation("C02/checkupdate/"+v.String()+"/"+mut, fmt.Sprintf("CheckUpdate returned %v, reference says %s (%s)", err, v, why), w(fmt.Sprint(err)))
			}
		} else if v == refmodel.Accept {
			r.Violation("C02/sign/"+mut, "a candidate the reference accepts cannot be signed (encoded)", w("sign failed"))
		}
		if m.Phase() != channel.Acting {
			return
		}
		err, pan := try(func() error { return m.Update(s, actor) })
		r.Count("update_calls", 1)
		switch {
		case pan != nil:
			r.Violation("C02/update/panic/"+mut, fmt.Sprintf("Update panicked instead of returning an error: %v", pan), w(fmt.Sprint(pan)))
		case (err == nil) != (v == refmodel.Accept):
			r.Violation("C02/update/"+v.String()+"/"+mut, fmt.Sprintf("Update returned %v, reference says %s (%s)", err, v, why), w(fmt.Sprint(err)))
		}
		if err != nil || pan != nil {
			if m.StagingState() != nil || m.Phase() != channel.Acting {
				r.Violation("C02/update/refused-but-staged/"+mut, "a refused candidate was staged or the phase changed", w(fmt.Sprint(err)))
			}
		}
		if m.Phase() == channel.Signing {
			if m.StagingState() != s {
				if canon.String(m.StagingState()) != canon.String(s) {
					r.Violation("C02/update/staged-other", "after a successful Update the staged state is not the candidate", w("staged other"))
				}
			}
			_ = m.DiscardUpdate()
		}
	}

	for _, actor := range []int{idx, (idx + 1) % n} {
		base := validSuccessor(rng, c, actor)
		offer("valid", base, channel.Index(actor), c.cur.Version >= 1)
		for _, mu := range mutators {
			s := base.Clone()
			a := channel.Index(actor)
			if !mu.apply(rng, c, s, &a) {
				continue
			}
			offer(mu.name, s, a, true)
		}
		for d := 0; d < 5; d++ {
			s := base.Clone()
			a := channel.Index(actor)
			m1, m2 := mutators[rng.Intn(len(mutators))], mutators[rng.Intn(len(mutators))]
			ok := false
			func() {
				defer func() { _ = recover() }()
				ok = m1.apply(rng, c, s, &a) && m2.apply(rng, c, s, &a)
			}()
			if ok {
				offer("double", s, a, true)
			}
		}
	}
	if sample {
		r.Sample(map[string]any{"app": app, "participants": n, "current": trunc(canon.String(c.cur)), "offered": "valid successor, every applicable single-condition mutator, 5 double mutations; for 2 actors"})
	}
}

func initCases(r *ev.Run, rng *rand.Rand, c *ctx, m *channel.StateMachine, good *channel.Allocation) {
	type ic struct {
		name  string
		apply func(a *channel.Allocation) bool
	}
	n := len(c.p.Parts)
	cases := []ic{
		{"participants+1", func(a *channel.Allocation) bool {
			for i := range a.Balances {
				a.Balances[i] = append(a.Balances[i], big.NewInt(1))
			}
			return true
		}},
		{"participants-1", func(a *channel.Allocation) bool {
			for i := range a.Balances {
				a.Balances[i] = a.Balances[i][:n-1]
			}
			return true
		}},
		{"ragged", func(a *channel.Allocation) bool {
			if len(a.Balances) < 2 {
				return false
			}
			a.Balances[1] = a.Balances[1][:n-1]
			return true
		}},
		{"negative", func(a *channel.Allocation) bool { a.Balances[0][rng.Intn(n)] = big.NewInt(-5); return true }},
		{"no-assets", func(a *channel.Allocation) bool {
			a.Assets, a.Backends, a.Balances, a.Locked = nil, nil, nil, nil
			return true
		}},
		{"balance-rows!=assets", func(a *channel.Allocation) bool { a.Balances = append(a.Balances, a.Balances[0]); return true }},
		{"locked-vector-short", func(a *channel.Allocation) bool {
			if len(a.Locked) == 0 {
				return false
			}
			a.Locked[0].Bals = a.Locked[0].Bals[:len(a.Locked[0].Bals)-1]
			return true
		}},
		{"locked-negative", func(a *channel.Allocation) bool {
			if len(a.Locked) == 0 {
				return false
			}
			a.Locked[0].Bals[0] = big.NewInt(-1)
			return true
		}},
	}
	for _, ca := range cases {
		a := good.Clone()
		if !ca.apply(&a) {
			continue
		}
		v, why := refmodel.ValidInit(c.p, &a)
		r.Case(fmt.Sprintf("init app%d n%d a%d %s", c.app, n, len(good.Assets), ca.name), true)
		r.Seen("init_mutators", ca.name)
		err, pan := try(func() error { return m.Init(a, gen.DataFor(rng, c.p.App)) })
		w := witness{App: int(c.app), Mutator: "init/" + ca.name, Candidate: canon.String(&a), Verdict: v.String(), Reason: why, Got: fmt.Sprint(err, pan)}
		switch {
		case pan != nil:
			r.Violation("C02/init/panic/"+ca.name, fmt.Sprintf("Init panicked instead of returning an error: %v", pan), w)
		case (err == nil) != (v == refmodel.Accept):
			r.Violation("C02/init/"+v.String()+"/"+ca.name, fmt.Sprintf("Init returned %v, reference says %s (%s)", err, v, why), w)
		}
		if m.Phase() != channel.InitActing {
			// accepted something: start over is impossible, so stop this scenario's init cases
			return
		}
		if m.StagingState() != nil {
			r.Violation("C02/init/refused-but-staged", "a refused initial allocation was staged", w)
		}
	}
	// a well-formed allocation whose data the app refuses (no-app: anything but NoData; the
	// harness' DataApp: marked data; the payment app documents a panic and is left out)
	var bad channel.Data
	switch c.app {
	case gen.AppData:
		bad = gen.RefusedData(rng)
	case gen.AppNone:
		bad = &gen.BytesData{B: []byte{1, 2, 3}}
	default:
		return
	}
	a := good.Clone()
	r.Case(fmt.Sprintf("init app%d n%d a%d app-refuses-data", c.app, n, len(good.Assets)), true)
	r.Seen("init_mutators", "app-refuses-data")
	err, pan := try(func() error { return m.Init(a, bad) })
	w := witness{App: int(c.app), Mutator: "init/app-refuses-data", Candidate: canon.String(&a), Verdict: "refuse", Reason: "the app's ValidInit refuses the data", Got: fmt.Sprint(err, pan)}
	switch {
	case pan != nil:
		r.Violation("C02/init/panic/app-refuses-data", fmt.Sprintf("Init panicked instead of returning an error: %v", pan), w)
	case err == nil:
		r.Violation("C02/init/refuse/app-refuses-data", "Init accepted an initial state that the app refuses", w)
	}
	if m.Phase() == channel.InitActing && m.StagingState() != nil || err != nil && m.Phase() != channel.InitActing {
		r.Violation("C02/init/refused-but-staged", "an initial state refused by the app was staged or the phase changed", w)
	}
}

func try(f func() error) (err error, pan any) {
	defer func() {
		if p := recover(); p != nil {
			pan = p
		}
	}()
	return f(), nil
}

func trunc(s string) string {
	if len(s) > 600 {
		return s[:600] + "..."
	}
	return s
}
