// Package c18: the message relay hands every envelope over exactly once.
package c18

import (
	"bytes"
	"context"
	"fmt"
	"math/rand"
	"os"
	"path/filepath"
	"runtime"
	"sort"
	"strconv"
	"strings"
	"sync"
	"sync/atomic"
	"time"

	"github.com/anishathalye/porcupine"

	"perun.network/go-perun/wire"
	psync "polycry.pt/poly-go/sync"

	"verif/internal/childrun"
	"verif/internal/ev"
	"verif/internal/gen"
	"verif/props"
)

func init() {
	props.Register(props.Entry{
		ID:    "C18",
		Level: "exploration",
		Rule: "histories of put / subscribe / enable-cache-predicate / release / consumer-close on one wire.Relay with overlapping predicates over envelope classes, unique envelope ids and recording consumers: " +
			"(1) single-threaded histories compared step by step with an exact reference model, (2) short concurrent histories (<= 4 threads, <= 24 operations) checked for linearizability against a nondeterministic model with porcupine, " +
			"(3) long stress histories (4-8 producers, 3-6 consumers, toggling cache predicates, closing consumers) under the race detector with exactly-once / no-wrong-recipient / conservation invariants at quiescence and interval bounds from a logical clock. " +
			"A case is a history (operation list per thread); non-trivial iff >= 2 threads overlap and >= 1 envelope took the cache path (sequential histories: >= 1 envelope took the cache path)",
		Run:       run,
		ChildMain: childMain,
	})
}

// ---------------------------------------------------------------------------------------------
// instrumentation at the relay's boundary

const nClasses = 6

func envelope(id int64) *wire.Envelope {
	return &wire.Envelope{Msg: &wire.PingMsg{PingPongMsg: wire.PingPongMsg{Created: time.Unix(0, id)}}}
}

func idOf(e *wire.Envelope) int64 { return e.Msg.(*wire.PingMsg).Created.UnixNano() }
func classOf(id int64) uint       { return uint(id % nClasses) }

func maskPred(mask uint) wire.Predicate {
	return func(e *wire.Envelope) bool { return mask&(1<<classOf(idOf(e))) != 0 }
}

func gid() int64 {
	var buf [64]byte
	n := runtime.Stack(buf[:], false)
	// "goroutine 123 ["
	f := bytes.Fields(buf[:n])
	if len(f) < 2 {
		return -1
	}
	v, _ := strconv.ParseInt(string(f[1]), 10, 64)
	return v
}

type delivery struct {
	env  int64
	gid  int64
	tick int64
}

// recConsumer records every Put, also after it was closed.
type recConsumer struct {
	psync.Closer
	id   int
	mask uint
	mu   sync.Mutex
	got  []delivery
	clk  *int64
}

func (c *recConsumer) Put(e *wire.Envelope) {
	d := delivery{env: idOf(e), gid: gid(), tick: atomic.AddInt64(c.clk, 1)}
	c.mu.Lock()
	c.got = append(c.got, d)
	c.mu.Unlock()
}

// quiesce waits until the goroutines started by the relay have ended.
func quiesce(base int) bool {
	deadline := time.Now().Add(10 * time.Second)
	for i := 0; ; i++ {
		if runtime.NumGoroutine() <= base {
			return true
		}
		if time.Now().After(deadline) {
			return false
		}
		if i < 100 {
			runtime.Gosched()
		} else {
			time.Sleep(100 * time.Microsecond)
		}
	}
}

// ---------------------------------------------------------------------------------------------
// operations and recorded history

type opKind int

const (
	opPut opKind = iota
	opSubscribe
	opCache
	opRelease
	opClose
)

func (k opKind) String() string {
	return [...]string{"put", "subscribe", "cache", "release", "close"}[k]
}

type op struct {
	Kind opKind
	Env  int64 // put
	Con  int   // subscribe / close
	Mask uint  // subscribe / cache
	Pred int   // cache / release: predicate slot
}

func (o op) String() string {
	switch o.Kind {
	case opPut:
		return fmt.Sprintf("put(e%d,class%d)", o.Env, classOf(o.Env))
	case opSubscribe:
		return fmt.Sprintf("subscribe(c%d,%06b)", o.Con, o.Mask)
	case opCache:
		return fmt.Sprintf("cache(p%d,%06b)", o.Pred, o.Mask)
	case opRelease:
		return fmt.Sprintf("release(p%d)", o.Pred)
	default:
		return fmt.Sprintf("close(c%d)", o.Con)
	}
}

type rec struct {
	op        op
	thread    int
	gid       int64
	call, ret int64
	err       bool
}

// world is one relay with its recording environment.
type world struct {
	relay     *wire.Relay
	clk       int64
	cons      []*recConsumer
	preds     []*wire.Predicate
	pmu       sync.Mutex
	defMu     sync.Mutex
	defaulted []delivery
}

func newWorld(nCons, nPreds int) *world {
	w := &world{relay: wire.NewRelay()}
	w.cons = make([]*recConsumer, nCons)
	for i := range w.cons {
		w.cons[i] = &recConsumer{id: i, clk: &w.clk}
	}
	w.preds = make([]*wire.Predicate, nPreds)
	w.relay.SetDefaultMsgHandler(func(e *wire.Envelope) {
		d := delivery{env: idOf(e), gid: gid(), tick: atomic.AddInt64(&w.clk, 1)}
		w.defMu.Lock()
		w.defaulted = append(w.defaulted, d)
		w.defMu.Unlock()
	})
	return w
}

func (w *world) do(o op, thread int) rec {
	r := rec{op: o, thread: thread, gid: gid()}
	r.call = atomic.AddInt64(&w.clk, 1)
	switch o.Kind {
	case opPut:
		w.relay.Put(envelope(o.Env))
	case opSubscribe:
		w.cons[o.Con].mu.Lock()
		w.cons[o.Con].mask = o.Mask
		w.cons[o.Con].mu.Unlock()
		r.err = w.relay.Subscribe(w.cons[o.Con], maskPred(o.Mask)) != nil
	case opCache:
		p := maskPred(o.Mask)
		w.pmu.Lock()
		w.preds[o.Pred] = &p
		w.pmu.Unlock()
		w.relay.Cache(&p)
	case opRelease:
		w.pmu.Lock()
		p := w.preds[o.Pred]
		w.pmu.Unlock()
		if p != nil {
			w.relay.ReleaseCache(p)
		}
	case opClose:
		_ = w.cons[o.Con].Close()
	}
	r.ret = atomic.AddInt64(&w.clk, 1)
	return r
}

// ---------------------------------------------------------------------------------------------
// reference model (appendix A of DESIGN.md)

type mstate struct {
	subs    map[int]uint // consumer -> mask
	closing map[int]bool // Close was called, removal may not have happened yet
	closed  map[int]bool // Close was called (Subscribe must fail)
	cpreds  map[int]uint // predicate slot -> mask
	cache   []int64      // cached envelopes in order
}

func newState() *mstate {
	return &mstate{subs: map[int]uint{}, closing: map[int]bool{}, closed: map[int]bool{}, cpreds: map[int]uint{}}
}

func (s *mstate) clone() *mstate {
	c := newState()
	for k, v := range s.subs {
		c.subs[k] = v
	}
	for k, v := range s.closing {
		c.closing[k] = v
	}
	for k, v := range s.closed {
		c.closed[k] = v
	}
	for k, v := range s.cpreds {
		c.cpreds[k] = v
	}
	c.cache = append([]int64(nil), s.cache...)
	return c
}

func (s *mstate) key() string {
	var b strings.Builder
	ks := func(m map[int]uint) {
		var keys []int
		for k := range m {
			keys = append(keys, k)
		}
		sort.Ints(keys)
		for _, k := range keys {
			fmt.Fprintf(&b, "%d:%d,", k, m[k])
		}
	}
	kb := func(m map[int]bool) {
		var keys []int
		for k := range m {
			keys = append(keys, k)
		}
		sort.Ints(keys)
		for _, k := range keys {
			fmt.Fprintf(&b, "%d,", k)
		}
	}
	b.WriteString("S")
	ks(s.subs)
	b.WriteString("|G")
	kb(s.closing)
	b.WriteString("|D")
	kb(s.closed)
	b.WriteString("|P")
	ks(s.cpreds)
	b.WriteString("|C")
	c := append([]int64(nil), s.cache...)
	sort.Slice(c, func(i, j int) bool { return c[i] < c[j] })
	for _, e := range c {
		fmt.Fprintf(&b, "%d,", e)
	}
	return b.String()
}

// output of an operation as observed at the relay's boundary
type output struct {
	Direct    []int   // put: consumers that received the envelope on the producer's goroutine (sorted)
	Defaulted bool    // put: default handler saw it
	Err       bool    // subscribe
	Cached    []int64 // subscribe: envelopes received through the cache path (sorted)
}

func sortedInts(m map[int]bool) []int {
	var out []int
	for k := range m {
		out = append(out, k)
	}
	sort.Ints(out)
	return out
}

func eqInts(a, b []int) bool {
	if len(a) != len(b) {
		return false
	}
	for i := range a {
		if a[i] != b[i] {
			return false
		}
	}
	return true
}

func eqInt64s(a, b []int64) bool {
	if len(a) != len(b) {
		return false
	}
	for i := range a {
		if a[i] != b[i] {
			return false
		}
	}
	return true
}

// removals returns s and every state reachable from it by completing pending removals.
func removals(s *mstate) []*mstate {
	var pend []int
	for c := range s.closing {
		if _, ok := s.subs[c]; ok {
			pend = append(pend, c)
		}
	}
	sort.Ints(pend)
	out := []*mstate{}
	for bits := 0; bits < 1<<uint(len(pend)); bits++ {
		n := s.clone()
		for i, c := range pend {
			if bits&(1<<uint(i)) != 0 {
				delete(n.subs, c)
				delete(n.closing, c)
			}
		}
		out = append(out, n)
	}
	return out
}

// step applies o with the observed output to s; it returns the possible successor states
// (empty: the observation is impossible in s). immediate: removals happen at once (sequential mode).
func step(s *mstate, o op, out output, immediate bool) []*mstate {
	starts := removals(s)
	if immediate {
		starts = starts[len(starts)-1:] // all pending removals done
	}
	var res []*mstate
	for _, st := range starts {
		n := st
		switch o.Kind {
		case opPut:
			match := map[int]bool{}
			for c, m := range n.subs {
				if m&(1<<classOf(o.Env)) != 0 {
					match[c] = true
				}
			}
			if len(match) > 0 {
				if !eqInts(sortedInts(match), out.Direct) || out.Defaulted {
					continue
				}
			} else {
				cacheIt := false
				for _, m := range n.cpreds {
					if m&(1<<classOf(o.Env)) != 0 {
						cacheIt = true
					}
				}
				if len(out.Direct) != 0 || out.Defaulted == cacheIt {
					continue
				}
				if cacheIt {
					n.cache = append(n.cache, o.Env)
				}
			}
		case opSubscribe:
			if n.closed[o.Con] {
				if !out.Err || len(out.Cached) != 0 {
					continue
				}
				break
			}
			if out.Err {
				continue
			}
			var take, keep []int64
			for _, e := range n.cache {
				if o.Mask&(1<<classOf(e)) != 0 {
					take = append(take, e)
				} else {
					keep = append(keep, e)
				}
			}
			sort.Slice(take, func(i, j int) bool { return take[i] < take[j] })
			if !eqInt64s(take, out.Cached) {
				continue
			}
			n.cache = keep
			n.subs[o.Con] = o.Mask
		case opCache:
			n.cpreds[o.Pred] = o.Mask
		case opRelease:
			delete(n.cpreds, o.Pred)
		case opClose:
			n.closed[o.Con] = true
			if _, ok := n.subs[o.Con]; ok {
				n.closing[o.Con] = true
			}
		}
		res = append(res, n)
	}
	return res
}

// ---------------------------------------------------------------------------------------------
// outputs from the recordings

// outputs derives the per-operation outputs once the history is quiescent.
func outputs(w *world, recs []rec) ([]output, []string) {
	var problems []string
	outs := make([]output, len(recs))
	putIdx := map[int64]int{}
	subIdx := map[int]int{}
	for i, r := range recs {
		switch r.op.Kind {
		case opPut:
			putIdx[r.op.Env] = i
		case opSubscribe:
			subIdx[r.op.Con] = i
			outs[i].Err = r.err
		}
	}
	w.defMu.Lock()
	defaulted := append([]delivery(nil), w.defaulted...)
	w.defMu.Unlock()
	for _, d := range defaulted {
		i, ok := putIdx[d.env]
		if !ok {
			problems = append(problems, fmt.Sprintf("the default handler saw envelope e%d that was never put", d.env))
			continue
		}
		if outs[i].Defaulted {
			problems = append(problems, fmt.Sprintf("envelope e%d reached the default handler twice", d.env))
		}
		outs[i].Defaulted = true
	}
	for _, c := range w.cons {
		seen := map[int64]bool{}
		c.mu.Lock()
		got := append([]delivery(nil), c.got...)
		cmask := c.mask
		c.mu.Unlock()
		for _, d := range got {
			if seen[d.env] {
				problems = append(problems, fmt.Sprintf("envelope e%d was handed to consumer c%d twice", d.env, c.id))
				continue
			}
			seen[d.env] = true
			if cmask&(1<<classOf(d.env)) == 0 {
				problems = append(problems, fmt.Sprintf("envelope e%d (class %d) reached consumer c%d whose predicate %06b rejects it", d.env, classOf(d.env), c.id, cmask))
				continue
			}
			pi, ok := putIdx[d.env]
			if !ok {
				problems = append(problems, fmt.Sprintf("consumer c%d saw envelope e%d that was never put", c.id, d.env))
				continue
			}
			if d.gid == recs[pi].gid {
				outs[pi].Direct = append(outs[pi].Direct, c.id)
			} else {
				si, ok := subIdx[c.id]
				if !ok {
					problems = append(problems, fmt.Sprintf("consumer c%d received e%d but never subscribed", c.id, d.env))
					continue
				}
				outs[si].Cached = append(outs[si].Cached, d.env)
			}
		}
	}
	for i := range outs {
		sort.Ints(outs[i].Direct)
		sort.Slice(outs[i].Cached, func(a, b int) bool { return outs[i].Cached[a] < outs[i].Cached[b] })
	}
	return outs, problems
}

// conservation checks that every put envelope is accounted for exactly once.
func conservation(w *world, recs []rec, outs []output, drained map[int64]bool) []string {
	var problems []string
	cachedTo := map[int64]int{}
	for i, r := range recs {
		if r.op.Kind == opSubscribe {
			for _, e := range outs[i].Cached {
				cachedTo[e]++
			}
		}
	}
	for i, r := range recs {
		if r.op.Kind != opPut {
			continue
		}
		e := r.op.Env
		direct, def, cached := len(outs[i].Direct), outs[i].Defaulted, cachedTo[e]
		if drained[e] {
			cached++
		}
		ways := 0
		if direct > 0 {
			ways++
		}
		if def {
			ways++
		}
		if cached > 0 {
			ways++
		}
		switch {
		case ways == 0:
			problems = append(problems, fmt.Sprintf("envelope e%d was lost: no consumer, not cached, not given to the default handler", e))
		case ways > 1:
			problems = append(problems, fmt.Sprintf("envelope e%d was handed over in more than one way: direct to %d consumers, cache path %d times, default handler %v", e, direct, cached, def))
		case cached > 1:
			problems = append(problems, fmt.Sprintf("cached envelope e%d was handed to %d subscribers", e, cached))
		}
	}
	return problems
}

// ---------------------------------------------------------------------------------------------
// parent

func run(r *ev.Run, cfg props.Cfg) {
	bin := cfg.Self
	race := cfg.Race
	if !race && cfg.SelfAlt != "" {
		bin, race = cfg.SelfAlt, true
	}
	raceDir := filepath.Join(ev.Root(), "evidence", "race")
	_ = os.MkdirAll(raceDir, 0o755)
	logPrefix := filepath.Join(raceDir, fmt.Sprintf("C18.%d", os.Getpid()))
	var env []string
	if race {
		env = append(env, "GORACE=halt_on_error=0 log_path="+logPrefix)
	}
	childrun.Run(r, cfg, childrun.Opts{
		Prop: "C18", Binary: bin, Workers: cfg.Workers, Env: env,
		Arg: func(w int) string { return fmt.Sprintf("%d/%d", w, cfg.Workers) },
		OnDeath: func(w int, last, stderr string, err error) {
			fatal := childrun.FatalLine(stderr)
			r.Violation("C18/crash/"+childrun.PanicSite(stderr), fmt.Sprintf("the relay workload killed the process: %s (history: %s)", fatal, last),
				map[string]any{"history": last, "stderr": childrun.FirstLines(stderr, 40)})
		},
	})
	// race reports
	if race {
		files, _ := filepath.Glob(logPrefix + ".*")
		relevant, other := 0, 0
		seen := map[string]bool{}
		for _, f := range files {
			b, _ := os.ReadFile(f)
			for _, blk := range strings.Split(string(b), "==================") {
				if !strings.Contains(blk, "WARNING: DATA RACE") {
					continue
				}
				sig := raceSig(blk)
				if strings.Contains(blk, "go-perun/wire.(*Relay)") || strings.Contains(blk, "go-perun/wire.(*Cache)") || strings.Contains(blk, "go-perun/wire.(*Receiver)") {
					relevant++
					if !seen[sig] {
						seen[sig] = true
						r.Violation("C18/data-race/"+sig, "the race detector reports a data race in the relay/cache/receiver code: "+sig, map[string]any{"report": trunc(blk, 6000)})
					}
				} else {
					other++
				}
			}
			_ = os.Remove(f)
		}
		r.Count("race_reports_in_relay_code", int64(relevant))
		r.Count("race_reports_elsewhere", int64(other))
		r.Set("race_detector", "on (children built with -race)")
	} else {
		r.Set("race_detector", "off (no race build available)")
	}
	r.Assume("a consumer that was closed stays subscribed until the relay's asynchronous removal ran; deliveries to it in that window count as deliveries")
	r.Assume("quiescence = the process' goroutine count is back to its baseline (children run one history at a time)")
}

// raceSig de-duplicates race reports by the two innermost go-perun functions.
func raceSig(blk string) string {
	var fs []string
	for _, l := range strings.Split(blk, "\n") {
		t := strings.TrimSpace(l)
		if strings.HasPrefix(t, "perun.network/go-perun/") {
			f := strings.TrimPrefix(t, "perun.network/go-perun/")
			if i := strings.Index(f, "("); i > 0 && !strings.HasPrefix(f[i:], "(*") {
				f = f[:i]
			} else if j := strings.LastIndex(f, "("); j > 0 {
				f = f[:j]
			}
			fs = append(fs, f)
		}
	}
	// first go-perun frame after each "by goroutine" header: approximate by the first two distinct
	out := []string{}
	for _, f := range fs {
		dup := false
		for _, o := range out {
			if o == f {
				dup = true
			}
		}
		if !dup {
			out = append(out, f)
		}
		if len(out) == 2 {
			break
		}
	}
	return strings.Join(out, "+")
}

func trunc(s string, n int) string {
	if len(s) > n {
		return s[:n]
	}
	return s
}

// ---------------------------------------------------------------------------------------------
// child

type historyWitness struct {
	Mode     string     `json:"mode"`
	Threads  [][]string `json:"threads"`
	Problems []string   `json:"problems"`
	Recorded []string   `json:"recorded,omitempty"`
}

// baseline is the goroutine count of the idle child process.
var baseline int

func childMain(cfg props.Cfg) int {
	baseline = runtime.NumGoroutine()
	var w, W int
	fmt.Sscanf(cfg.Child, "%d/%d", &w, &W)
	em := childrun.NewEmitter()
	rng := gen.NewRand(cfg.Seed, fmt.Sprintf("c18/%d", w))
	nSeq := cfg.Pick(5000, 100000) / W
	nLin := cfg.Pick(2000, 40000) / W
	nStress := (cfg.Pick(40, 800) + W - 1) / W
	for i := 0; i < nSeq; i++ {
		sequential(em, rng, w == 0 && i == 0)
	}
	for i := 0; i < nLin; i++ {
		linearizable(em, rng, w == 0 && i == 0)
	}
	for i := 0; i < nStress; i++ {
		stress(em, rng, w == 0 && i == 0)
	}
	for i := 0; i < nStress; i++ {
		receiverStress(em, rng)
	}
	// last: a stuck Put would leave a goroutine behind and spoil the quiescence baseline of the others
	for i := 0; i < nStress; i++ {
		if !closedFullReceiver(em, rng) {
			break
		}
	}
	em.Done()
	return 0
}

// genOps generates a list of operations over the given numbers of consumers and predicate slots.
type genState struct {
	nextEnv            *int64
	nextPred           int
	subscribed, closed []bool
}

func genOp(rng *rand.Rand, gs *genState, nCons, nPreds int, wPut int) op {
	for {
		switch x := rng.Intn(10 + wPut); {
		case x < wPut+3:
			*gs.nextEnv++
			return op{Kind: opPut, Env: *gs.nextEnv}
		case x < wPut+6:
			c := rng.Intn(nCons)
			if gs.subscribed[c] {
				continue // a consumer subscribes at most once (a second time panics by contract)
			}
			gs.subscribed[c] = true
			return op{Kind: opSubscribe, Con: c, Mask: uint(1 + rng.Intn(1<<nClasses-1))}
		case x < wPut+8:
			// every cache operation installs a fresh predicate (the relay identifies them by pointer)
			if gs.nextPred >= nPreds {
				continue
			}
			gs.nextPred++
			return op{Kind: opCache, Pred: gs.nextPred - 1, Mask: uint(1 + rng.Intn(1<<nClasses-1))}
		case x < wPut+9:
			if gs.nextPred == 0 {
				continue
			}
			return op{Kind: opRelease, Pred: rng.Intn(gs.nextPred)}
		default:
			c := rng.Intn(nCons)
			if gs.closed[c] {
				continue
			}
			gs.closed[c] = true
			return op{Kind: opClose, Con: c}
		}
	}
}

func strs(ops []op) []string {
	out := make([]string, len(ops))
	for i, o := range ops {
		out[i] = o.String()
	}
	return out
}

// finish subscribes a catch-all consumer to drain what is still cached, closes the relay and
// returns the drained envelope ids.
func finish(w *world, base int) (map[int64]bool, bool) {
	ok := quiesce(base)
	final := &recConsumer{id: -1, mask: 1<<nClasses - 1, clk: &w.clk}
	_ = w.relay.Subscribe(final, func(*wire.Envelope) bool { return true })
	ok = quiesce(base) && ok
	drained := map[int64]bool{}
	final.mu.Lock()
	for _, d := range final.got {
		drained[d.env] = true
	}
	final.mu.Unlock()
	_ = w.relay.Close()
	return drained, ok
}

// sequential: single-threaded history, exact model, quiescence after every operation.
func sequential(em *childrun.Emitter, rng *rand.Rand, sample bool) {
	nCons, nPreds := 2+rng.Intn(4), 2+rng.Intn(6)
	n := 5 + rng.Intn(36)
	var env int64
	gs := &genState{nextEnv: &env, subscribed: make([]bool, nCons), closed: make([]bool, nCons)}
	ops := make([]op, n)
	for i := range ops {
		ops[i] = genOp(rng, gs, nCons, nPreds, 4)
	}
	em.Progress("sequential " + strings.Join(strs(ops), " ; "))
	base := baseline
	if !quiesce(base) {
		em.Inconclusive("quiescence watchdog (before the history)")
		return
	}
	w := newWorld(nCons, nPreds)
	recs := make([]rec, 0, n)
	for _, o := range ops {
		recs = append(recs, w.do(o, 0))
		if !quiesce(base) {
			em.Inconclusive("quiescence watchdog (sequential)")
			return
		}
	}
	outs, problems := outputs(w, recs)
	// replay against the exact model
	st := newState()
	cachePath := false
	if len(problems) == 0 {
		for i, r := range recs {
			next := step(st, r.op, outs[i], true)
			if len(next) == 0 {
				problems = append(problems, fmt.Sprintf("operation %d %s: observed %+v is impossible in the reference model state %s", i, r.op, outs[i], st.key()))
				break
			}
			st = next[0]
			if len(outs[i].Cached) > 0 {
				cachePath = true
			}
		}
	}
	drained, ok := finish(w, base)
	if !ok {
		em.Inconclusive("quiescence watchdog (sequential, final)")
		return
	}
	if len(problems) == 0 {
		problems = append(problems, conservation(w, recs, outs, drained)...)
		// what is still cached must be what the model says
		var left []int64
		for e := range drained {
			left = append(left, e)
		}
		sort.Slice(left, func(i, j int) bool { return left[i] < left[j] })
		want := append([]int64(nil), st.cache...)
		sort.Slice(want, func(i, j int) bool { return want[i] < want[j] })
		if !eqInt64s(left, want) {
			problems = append(problems, fmt.Sprintf("at the end the relay's cache holds %v, the reference model %v", left, want))
		}
	}
	em.Case("seq|"+strings.Join(strs(ops), ";"), cachePath)
	em.Count("sequential_histories", 1)
	em.Count("operations", int64(n))
	if len(problems) > 0 {
		em.Violation("C18/sequential-model", problems[0], historyWitness{Mode: "sequential", Threads: [][]string{strs(ops)}, Problems: problems})
	}
	if sample {
		em.Sample(map[string]any{"mode": "sequential", "history": strs(ops)})
	}
}

// concurrent runs per-thread op lists concurrently and returns the records in a global order.
func concurrent(w *world, threads [][]op, yield *rand.Rand) []rec {
	var wg sync.WaitGroup
	all := make([][]rec, len(threads))
	start := make(chan struct{})
	seeds := make([]int64, len(threads))
	for i := range seeds {
		seeds[i] = yield.Int63()
	}
	for t := range threads {
		t := t
		wg.Add(1)
		go func() {
			defer wg.Done()
			lr := rand.New(rand.NewSource(seeds[t]))
			<-start
			for _, o := range threads[t] {
				for k := lr.Intn(3); k > 0; k-- {
					runtime.Gosched()
				}
				all[t] = append(all[t], w.do(o, t))
			}
		}()
	}
	close(start)
	wg.Wait()
	var recs []rec
	for _, a := range all {
		recs = append(recs, a...)
	}
	sort.Slice(recs, func(i, j int) bool { return recs[i].call < recs[j].call })
	return recs
}

func overlap(recs []rec) bool {
	for i := range recs {
		for j := i + 1; j < len(recs); j++ {
			if recs[i].thread != recs[j].thread && recs[i].call < recs[j].ret && recs[j].call < recs[i].ret {
				return true
			}
		}
	}
	return false
}

type linInput struct{ o op }

// linearizable: short concurrent history checked with porcupine.
func linearizable(em *childrun.Emitter, rng *rand.Rand, sample bool) {
	nThreads := 2 + rng.Intn(3)
	nCons, nPreds := 2+rng.Intn(3), 1+rng.Intn(4)
	total := 6 + rng.Intn(19)
	var env int64
	gs := &genState{nextEnv: &env, subscribed: make([]bool, nCons), closed: make([]bool, nCons)}
	threads := make([][]op, nThreads)
	for i := 0; i < total; i++ {
		t := rng.Intn(nThreads)
		threads[t] = append(threads[t], genOp(rng, gs, nCons, nPreds, 4))
	}
	var desc []string
	tw := make([][]string, nThreads)
	for t := range threads {
		tw[t] = strs(threads[t])
		desc = append(desc, strings.Join(tw[t], ";"))
	}
	em.Progress("linearizability " + strings.Join(desc, " || "))
	base := baseline
	if !quiesce(base) {
		em.Inconclusive("quiescence watchdog (before the history)")
		return
	}
	w := newWorld(nCons, nPreds)
	recs := concurrent(w, threads, rng)
	if !quiesce(base) {
		em.Inconclusive("quiescence watchdog (linearizability)")
		return
	}
	outs, problems := outputs(w, recs)
	drained, ok := finish(w, base)
	if !ok {
		em.Inconclusive("quiescence watchdog (linearizability, final)")
		return
	}
	cachePath := false
	for _, o := range outs {
		if len(o.Cached) > 0 {
			cachePath = true
		}
	}
	if len(drained) > 0 {
		cachePath = true
	}
	problems = append(problems, conservation(w, recs, outs, drained)...)
	em.Case("lin|"+strings.Join(desc, "||"), cachePath && overlap(recs))
	em.Count("concurrent_short_histories", 1)
	em.Count("operations", int64(total))
	if len(problems) > 0 {
		em.Violation("C18/invariant/"+classOfProblem(problems[0]), problems[0], historyWitness{Mode: "concurrent-short", Threads: tw, Problems: problems})
		return
	}
	// porcupine
	model := porcupine.NondeterministicModel{
		Init: func() []interface{} { return []interface{}{newState()} },
		Step: func(st interface{}, in interface{}, out interface{}) []interface{} {
			next := step(st.(*mstate), in.(linInput).o, out.(output), false)
			res := make([]interface{}, len(next))
			for i, n := range next {
				res[i] = n
			}
			return res
		},
		Equal: func(a, b interface{}) bool { return a.(*mstate).key() == b.(*mstate).key() },
		DescribeOperation: func(in interface{}, out interface{}) string {
			return fmt.Sprintf("%s -> %+v", in.(linInput).o, out.(output))
		},
	}
	opsP := make([]porcupine.Operation, len(recs))
	for i, r := range recs {
		opsP[i] = porcupine.Operation{ClientId: r.thread, Input: linInput{r.op}, Call: r.call, Output: outs[i], Return: r.ret}
	}
	res := porcupine.CheckOperationsTimeout(model.ToModel(), opsP, 20*time.Second)
	switch res {
	case porcupine.Ok:
		em.Count("porcupine_ok", 1)
	case porcupine.Unknown:
		em.Inconclusive("porcupine timed out")
	case porcupine.Illegal:
		var lines []string
		for i, r := range recs {
			lines = append(lines, fmt.Sprintf("t%d [%d,%d] %s -> %+v", r.thread, r.call, r.ret, r.op, outs[i]))
		}
		em.Violation("C18/not-linearizable", "the recorded history has no linearization in the relay reference model", historyWitness{Mode: "concurrent-short", Threads: tw, Problems: []string{"not linearizable"}, Recorded: lines})
	}
	if sample {
		em.Sample(map[string]any{"mode": "concurrent-short (porcupine)", "threads": tw, "verdict": fmt.Sprint(res)})
	}
}

func classOfProblem(p string) string {
	switch {
	case strings.Contains(p, "twice"):
		return "duplicate"
	case strings.Contains(p, "lost"):
		return "lost"
	case strings.Contains(p, "rejects"):
		return "wrong-recipient"
	case strings.Contains(p, "more than one way"):
		return "double-path"
	case strings.Contains(p, "subscribers"):
		return "cached-to-several"
	case strings.Contains(p, "must"):
		return "interval"
	}
	return "other"
}

// stress: long history with many producers; invariants + interval bounds.
// receiverStress: the library's own consumer (wire.Receiver) behind a relay, read by one reader
// that polls with short-lived contexts (Next with a timeout, retried with a fresh context) while
// producers put. Every envelope the relay handed to the receiver must come out of Next exactly
// once, whatever the contexts do.
func receiverStress(em *childrun.Emitter, rng *rand.Rand) {
	relay := wire.NewRelay()
	recv := wire.NewReceiver()
	if err := relay.Subscribe(recv, func(*wire.Envelope) bool { return true }); err != nil {
		em.Inconclusive("receiver stress: subscribe failed: " + err.Error())
		return
	}
	nProd := 2 + rng.Intn(4)
	per := 200 + rng.Intn(600)
	total := nProd * per
	waits := make([]time.Duration, 64)
	for i := range waits {
		waits[i] = time.Duration(rng.Intn(40)) * time.Microsecond
	}
	var wg sync.WaitGroup
	for p := 0; p < nProd; p++ {
		p := p
		wg.Add(1)
		go func() {
			defer wg.Done()
			for i := 0; i < per; i++ {
				relay.Put(envelope(int64(1 + p*per + i)))
				if i%7 == p%7 {
					runtime.Gosched()
				}
			}
		}()
	}
	seen := map[int64]int{}
	got, expired := 0, 0
	prodDone := make(chan struct{})
	go func() { wg.Wait(); close(prodDone) }()
	finishing := false
	for got < total {
		d := waits[(got+expired)%len(waits)]
		if finishing {
			d = 5 * time.Second // everything has been put: what is still missing is queued or lost
		}
		ctx, cancel := context.WithTimeout(context.Background(), d)
		e, err := recv.Next(ctx)
		cancel()
		if err != nil {
			expired++
			if finishing {
				break
			}
			select {
			case <-prodDone:
				finishing = true
			default:
			}
			continue
		}
		seen[idOf(e)]++
		got++
	}
	<-prodDone
	_ = relay.Close()
	em.Count("receiver_stress_runs", 1)
	em.Count("receiver_stress_envelopes", int64(total))
	em.Count("receiver_stress_expired_contexts", int64(expired))
	em.Case(fmt.Sprintf("receiver-stress|%d|%d|%d", nProd, per, expired), expired > 0)
	lost, dup := 0, 0
	for id := int64(1); id <= int64(total); id++ {
		switch n := seen[id]; {
		case n == 0:
			lost++
		case n > 1:
			dup++
		}
	}
	if lost > 0 || dup > 0 {
		em.Violation("C18/receiver/lost-or-duplicated", fmt.Sprintf("%d producers put %d envelopes into a relay whose only consumer is a wire.Receiver read with short-lived contexts (%d of them expired): %d envelopes never came out of Next, %d came out twice", nProd, total, expired, lost, dup),
			map[string]any{"producers": nProd, "envelopes": total, "expired_contexts": expired, "lost": lost, "duplicated": dup})
	}
}

func stress(em *childrun.Emitter, rng *rand.Rand, sample bool) {
	nProd := 4 + rng.Intn(5)
	nCons, nPreds := 3+rng.Intn(4), 4+rng.Intn(20)
	total := 2000 + rng.Intn(18000)
	var env int64
	gs := &genState{nextEnv: &env, subscribed: make([]bool, nCons), closed: make([]bool, nCons)}
	threads := make([][]op, nProd+2)
	// producers only put; two control threads subscribe/close/toggle cache predicates
	for i := 0; i < total; i++ {
		t := rng.Intn(nProd)
		env++
		threads[t] = append(threads[t], op{Kind: opPut, Env: env})
	}
	// control operations are spread over the run by interleaving them with yields (puts of their own)
	for c := 0; c < 2; c++ {
		t := nProd + c
		k := 10 + rng.Intn(40)
		for i := 0; i < k; i++ {
			o := genOp(rng, gs, nCons, nPreds, 0)
			threads[t] = append(threads[t], o)
			for j := rng.Intn(1 + total/(nProd*k)); j > 0; j-- {
				env++
				threads[t] = append(threads[t], op{Kind: opPut, Env: env})
			}
		}
	}
	em.Progress(fmt.Sprintf("stress producers=%d consumers=%d cache-predicates=%d operations=%d", nProd, nCons, nPreds, total))
	base := baseline
	if !quiesce(base) {
		em.Inconclusive("quiescence watchdog (before the history)")
		return
	}
	w := newWorld(nCons, nPreds)
	recs := concurrent(w, threads, rng)
	if !quiesce(base) {
		em.Inconclusive("quiescence watchdog (stress)")
		return
	}
	outs, problems := outputs(w, recs)
	drained, ok := finish(w, base)
	if !ok {
		em.Inconclusive("quiescence watchdog (stress, final)")
		return
	}
	problems = append(problems, conservation(w, recs, outs, drained)...)
	problems = append(problems, intervals(recs, outs, drained)...)
	cachePath := len(drained) > 0
	direct, cached, def := 0, 0, 0
	for i, o := range outs {
		if len(o.Cached) > 0 {
			cachePath = true
			cached += len(o.Cached)
		}
		if recs[i].op.Kind == opPut {
			if len(o.Direct) > 0 {
				direct++
			}
			if o.Defaulted {
				def++
			}
		}
	}
	em.Case(fmt.Sprintf("stress|%d|%d|%d|%d|%d", nProd, nCons, nPreds, total, rng.Int63()), cachePath)
	em.Count("stress_histories", 1)
	em.Count("operations", int64(len(recs)))
	em.Count("envelopes_delivered_directly", int64(direct))
	em.Count("envelopes_delivered_from_cache", int64(cached))
	em.Count("envelopes_still_cached_at_end", int64(len(drained)))
	em.Count("envelopes_to_default_handler", int64(def))
	if len(problems) > 0 {
		if len(problems) > 20 {
			problems = problems[:20]
		}
		em.Violation("C18/invariant/"+classOfProblem(problems[0]), problems[0]+fmt.Sprintf(" (stress history: %d producers, %d consumers, %d operations)", nProd, nCons, len(recs)),
			historyWitness{Mode: "stress", Problems: problems})
	}
	if sample {
		em.Sample(map[string]any{"mode": "stress", "producers": nProd, "consumers": nCons, "operations": len(recs), "direct": direct, "from_cache": cached, "default": def})
	}
}

// intervals: bounds that follow from the logical clock. A consumer whose Subscribe returned
// before Put(e) was called and whose Close was not called before Put(e) returned must have
// received e directly if its predicate matches.
func intervals(recs []rec, outs []output, drained map[int64]bool) []string {
	var problems []string
	type life struct {
		mask              uint
		subRet, closeCall int64
		ok                bool
	}
	lives := map[int]*life{}
	for _, r := range recs {
		switch r.op.Kind {
		case opSubscribe:
			if !r.err {
				lives[r.op.Con] = &life{mask: r.op.Mask, subRet: r.ret, closeCall: 1 << 62, ok: true}
			}
		}
	}
	for _, r := range recs {
		if r.op.Kind == opClose {
			if l := lives[r.op.Con]; l != nil {
				l.closeCall = r.call
			}
		}
	}
	for i, r := range recs {
		if r.op.Kind != opPut {
			continue
		}
		got := map[int]bool{}
		for _, c := range outs[i].Direct {
			got[c] = true
		}
		for c, l := range lives {
			if l.mask&(1<<classOf(r.op.Env)) == 0 {
				continue
			}
			if l.subRet < r.call && l.closeCall > r.ret && !got[c] {
				problems = append(problems, fmt.Sprintf("consumer c%d was subscribed with a matching predicate during the whole put of e%d but must have missed it", c, r.op.Env))
				if len(problems) > 10 {
					return problems
				}
			}
		}
	}
	return problems
}

// closedFullReceiver: a wire.Receiver that nobody reads fills up and the next Put into the relay waits
// inside it. Closing the receiver has to release that Put: the envelope still reaches the consumer
// subscribed behind the receiver exactly once, and so do all later envelopes. The moment of the
// Close is random (before, while or after the queue filled up). A run that does not finish is a
// violation only if the goroutine dump shows the producer parked in a plain channel send inside
// Receiver.Put of the closed receiver, which nothing can ever release (nobody reads it); any other
// unfinished run is inconclusive. Returns false if the run did not finish (the caller stops then).
func closedFullReceiver(em *childrun.Emitter, rng *rand.Rand) bool {
	relay := wire.NewRelay()
	recv := wire.NewReceiver()
	var clk int64
	tail := &recConsumer{id: 1, mask: ^uint(0), clk: &clk}
	all := func(*wire.Envelope) bool { return true }
	if err := relay.Subscribe(recv, all); err != nil {
		em.Inconclusive("closed full receiver: subscribe failed: " + err.Error())
		return true
	}
	if err := relay.Subscribe(tail, all); err != nil {
		em.Inconclusive("closed full receiver: subscribe failed: " + err.Error())
		return true
	}
	total := 20 + rng.Intn(40)
	wait := time.Duration(rng.Intn(3000)) * time.Microsecond
	done := make(chan struct{})
	go func() {
		defer close(done)
		for i := 1; i <= total; i++ {
			relay.Put(envelope(int64(i)))
		}
	}()
	time.Sleep(wait)
	tail.mu.Lock()
	atClose := len(tail.got)
	tail.mu.Unlock()
	_ = recv.Close()
	em.Count("closed_full_receiver_runs", 1)
	em.Case(fmt.Sprintf("closed-full-receiver|%d|%d", total, atClose), atClose < total)
	if atClose < total {
		em.Count("closed_full_receiver_runs_with_puts_pending_at_the_close", 1)
	}
	select {
	case <-done:
	case <-time.After(20 * time.Second):
		buf := make([]byte, 1<<20)
		buf = buf[:runtime.Stack(buf, true)]
		for _, blk := range strings.Split(string(buf), "\n\n") {
			if strings.Contains(blk, "[chan send") && strings.Contains(blk, "go-perun/wire.(*Receiver).Put") {
				em.Violation("C18/receiver/put-parked-in-closed-receiver", fmt.Sprintf("a Put into the relay that waited in a full wire.Receiver was not released when the receiver was closed: %d of %d envelopes reached the consumer subscribed behind it, the producer is parked in a channel send that nothing can release", func() int { tail.mu.Lock(); defer tail.mu.Unlock(); return len(tail.got) }(), total),
					map[string]any{"envelopes": total, "delivered_at_close": atClose, "goroutine": trunc(blk, 3000)})
				return false
			}
		}
		em.Inconclusive("closed full receiver: producer did not finish (watchdog)")
		return false
	}
	seen := map[int64]int{}
	tail.mu.Lock()
	for _, d := range tail.got {
		seen[d.env]++
	}
	tail.mu.Unlock()
	lost, dup := 0, 0
	for id := int64(1); id <= int64(total); id++ {
		switch n := seen[id]; {
		case n == 0:
			lost++
		case n > 1:
			dup++
		}
	}
	if lost > 0 || dup > 0 {
		em.Violation("C18/receiver/closed-receiver-lost-or-duplicated", fmt.Sprintf("%d envelopes were put into a relay with an unread wire.Receiver (closed after %d deliveries) in front of a recording consumer: %d never reached the recording consumer, %d reached it twice", total, atClose, lost, dup),
			map[string]any{"envelopes": total, "delivered_at_close": atClose, "lost": lost, "duplicated": dup})
	}
	_ = relay.Close()
	return true
}
