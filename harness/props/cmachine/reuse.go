package cmachine

import (
	"fmt"
	"math/big"
	"math/rand"

	"perun.network/go-perun/channel"
	"perun.network/go-perun/wallet"

	"verif/internal/ev"
	"verif/internal/gen"
)

type reuseWitness struct {
	World    string   `json:"world"`
	Sequence []string `json:"sequence"`
	Finding  string   `json:"finding"`
}

// reusedStateObject: the caller keeps the *State it proposed, discards the update, changes the same
// object and proposes it again (Update stages the pointer it is given). A peer signature collected
// for the first content must not be accepted for the second one, and whatever becomes current must
// carry signatures that verify for an independent copy of it. Returns false after a violation.
func reusedStateObject(r *ev.Run, rng *rand.Rand) bool {
	n := 2 + rng.Intn(2)
	ps := gen.Parties(rng, n)
	init := gen.Allocation(rng, gen.Shape{Assets: 1 + rng.Intn(2), Parts: n, Small: true})
	init.Locked = nil
	params := gen.Params(rng, ps, channel.NoApp())
	idx := rng.Intn(n)
	m, err := channel.NewStateMachine(ps[idx].AccMap(), *params)
	if err != nil {
		r.Inconclusive("reused state object: NewStateMachine: " + err.Error())
		return true
	}
	world := fmt.Sprintf("n=%d idx=%d", n, idx)
	var seq []string
	sign := func(i int, s *channel.State) wallet.Sig {
		for id, acc := range ps[i].AccMap() {
			sig, err := channel.Sign(acc, s, id)
			if err == nil {
				return sig
			}
		}
		return nil
	}
	setup := func() bool {
		if m.Init(*init, channel.NoData()) != nil {
			return false
		}
		if _, err := m.Sig(); err != nil {
			return false
		}
		for i := 0; i < n; i++ {
			if i != idx {
				if m.AddSig(channel.Index(i), sign(i, m.StagingState())) != nil {
					return false
				}
			}
		}
		return m.EnableInit() == nil && m.SetFunded() == nil
	}
	if !setup() {
		r.Inconclusive("reused state object: could not bring the machine to Acting")
		return true
	}
	// a donor with funds in asset 0
	from := -1
	for i := 0; i < n; i++ {
		if m.State().Balances[0][i].Sign() > 0 {
			from = i
		}
	}
	if from < 0 {
		r.Case("reuse|"+world+"|no funds", false)
		return true
	}
	to := (from + 1) % n
	s := m.State().Clone()
	s.Version++
	seq = append(seq, "Update(s)")
	if err := m.Update(s, channel.Index(idx)); err != nil {
		r.Inconclusive("reused state object: valid update refused: " + err.Error())
		return true
	}
	peer := (idx + 1) % n
	old := sign(peer, s)
	seq = append(seq, fmt.Sprintf("AddSig(%d, sig over s)", peer))
	if err := m.AddSig(channel.Index(peer), old); err != nil {
		r.Inconclusive("reused state object: valid signature refused: " + err.Error())
		return true
	}
	seq = append(seq, "DiscardUpdate", "s changed in place", "Update(s)")
	if err := m.DiscardUpdate(); err != nil {
		r.Inconclusive("reused state object: DiscardUpdate: " + err.Error())
		return true
	}
	s.Balances[0][from] = new(big.Int).Sub(s.Balances[0][from], big.NewInt(1))
	s.Balances[0][to] = new(big.Int).Add(s.Balances[0][to], big.NewInt(1))
	if err := m.Update(s, channel.Index(idx)); err != nil {
		r.Inconclusive("reused state object: second update refused: " + err.Error())
		return true
	}
	seq = append(seq, fmt.Sprintf("AddSig(%d, the signature over the earlier content)", peer))
	err = m.AddSig(channel.Index(peer), old)
	r.Count("reused_state_object_cases", 1)
	r.Case("reuse|"+world+"|"+fmt.Sprint(s.Balances), true)
	if okIndep, _ := channel.Verify(ps[peer].Any(), s.Clone(), old); okIndep {
		r.Inconclusive("reused state object: the old signature verifies for the changed state")
		return true
	}
	if err == nil {
		what := fmt.Sprintf("AddSig accepted participant %d's signature for a staged state it does not verify for (the state object was proposed, discarded, changed in place and proposed again)", peer)
		r.Violation("C01/staged-invalid-sig/reused-state-object", what+" [sequence: "+fmt.Sprint(seq)+"; "+world+"]", reuseWitness{World: world, Sequence: seq, Finding: what})
		return false
	}
	return true
}
