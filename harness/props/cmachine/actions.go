package cmachine

// ActionMachine walks (C09): channel/actionmachine.go adds AddAction, Init and Update to the phase
// protocol. Random call sequences on a real ActionMachine are compared, call by call, with a small
// reference model written from the method documentation: AddAction succeeds exactly in an action
// phase for an index that has no action yet and an action the app accepts; Init / Update succeed
// exactly in InitActing / Acting, stage the state the app computes from exactly the actions added
// since the last staging and consume them; a failing call changes nothing observable.

import (
	"bytes"
	"fmt"
	"math/rand"

	"perun.network/go-perun/channel"

	"verif/internal/ev"
	"verif/internal/gen"
)

type actModel struct {
	phase     channel.Phase
	actions   [][]byte // per participant; nil: none
	staged    []byte   // expected data of the staged state; nil: nothing staged
	stagedVer uint64
	stagedSig []bool
	curData   []byte
	curVer    uint64
	hasCur    bool
}

type actWitness struct {
	World    string   `json:"world"`
	Sequence []string `json:"sequence"`
	Finding  string   `json:"finding"`
}

func dataOf(s *channel.State) []byte {
	if s == nil {
		return nil
	}
	if d, ok := s.Data.(*gen.BytesData); ok {
		return append([]byte{}, d.B...)
	}
	return []byte("?")
}

func snap(am *channel.ActionMachine) string {
	enc := func(s *channel.State) []byte {
		if s == nil {
			return nil
		}
		return gen.EncodeState(s)
	}
	return fmt.Sprintf("%v|%x|%x|%d|%d", am.Phase(), enc(am.State()), enc(am.StagingState()), len(am.CurrentTX().Sigs), nonNil(am.StagingTX().Sigs))
}

func nonNil(s [][]byte) int {
	n := 0
	for _, x := range s {
		if x != nil {
			n++
		}
	}
	return n
}

// actionWalk runs one random walk; returns false after a violation.
func actionWalk(r *ev.Run, rng *rand.Rand, sample bool) bool {
	n := 2 + rng.Intn(2)
	ps := gen.Parties(rng, n)
	init := gen.Allocation(rng, gen.Shape{Assets: 1 + rng.Intn(2), Parts: n, Small: true})
	app := gen.NewActApp(rng, *init)
	params := gen.Params(rng, ps, app)
	idx := rng.Intn(n)
	am, err := channel.NewActionMachine(ps[idx].AccMap(), *params)
	if err != nil {
		r.Inconclusive("NewActionMachine: " + err.Error())
		return true
	}
	world := fmt.Sprintf("n=%d idx=%d", n, idx)
	m := actModel{phase: channel.InitActing, actions: make([][]byte, n), stagedSig: make([]bool, n)}
	var seq []string
	fail := func(class, what string) bool {
		r.Violation("C09/action-machine/"+class, what+" [sequence: "+fmt.Sprint(seq)+"; "+world+"]", actWitness{World: world, Sequence: seq, Finding: what})
		r.Case("action|"+world+"|"+fmt.Sprint(seq), true)
		return false
	}
	complete := func() bool {
		if m.staged == nil {
			return false
		}
		for _, b := range m.stagedSig {
			if !b {
				return false
			}
		}
		return true
	}
	clearStaged := func() { m.staged, m.stagedSig = nil, make([]bool, n) }
	length := 10 + rng.Intn(30)
	for step := 0; step < length; step++ {
		before := snap(am)
		var name string
		var got error
		wantOK := false
		apply := func() {} // model update on success
		// progressive bias: half of the time pick an operation the model expects to succeed
		k := rng.Intn(9)
		if rng.Intn(2) == 0 {
			switch m.phase {
			case channel.InitActing:
				k = []int{0, 0, 1}[rng.Intn(3)]
			case channel.InitSigning, channel.Signing:
				k = []int{3, 4, 4, 5, 6, 7}[rng.Intn(6)]
			case channel.Funding:
				k = 8
			case channel.Acting:
				k = []int{0, 0, 2}[rng.Intn(3)]
			}
		}
		switch k {
		case 0: // AddAction
			i := rng.Intn(n)
			b := make([]byte, 1+rng.Intn(3))
			rng.Read(b)
			if rng.Intn(8) == 0 {
				b[0] = gen.RefusedActionMarker
			} else if b[0] == gen.RefusedActionMarker {
				b[0] = 1
			}
			name = fmt.Sprintf("AddAction(%d,%x)", i, b)
			wantOK = (m.phase == channel.InitActing || m.phase == channel.Acting) && m.actions[i] == nil && b[0] != gen.RefusedActionMarker
			apply = func() { m.actions[i] = b }
			got = am.AddAction(channel.Index(i), &gen.BytesAction{B: b})
		case 1: // Init
			name = "Init"
			wantOK = m.phase == channel.InitActing
			apply = func() {
				m.staged, m.stagedVer, m.stagedSig = gen.ActInitData(m.actions), 0, make([]bool, n)
				m.phase, m.actions = channel.InitSigning, make([][]byte, n)
			}
			got = am.Init()
		case 2: // Update
			name = "Update"
			wantOK = m.phase == channel.Acting
			apply = func() {
				m.staged, m.stagedVer, m.stagedSig = gen.ActApplyData(m.actions), m.curVer+1, make([]bool, n)
				m.phase, m.actions = channel.Signing, make([][]byte, n)
			}
			got = am.Update()
		case 3: // Sig
			name = "Sig"
			wantOK = m.phase == channel.InitSigning || m.phase == channel.Signing
			apply = func() { m.stagedSig[idx] = true }
			_, got = am.Sig()
		case 4: // AddSig valid
			i := rng.Intn(n)
			name = fmt.Sprintf("AddSig(%d)", i)
			wantOK = (m.phase == channel.InitSigning || m.phase == channel.Signing) && !m.stagedSig[i]
			apply = func() { m.stagedSig[i] = true }
			st := am.StagingState()
			if st == nil {
				st = am.State()
			}
			if st == nil {
				continue
			}
			got = am.AddSig(channel.Index(i), gen.Sign(ps[i], st))
		case 5: // EnableInit
			name = "EnableInit"
			wantOK = m.phase == channel.InitSigning && complete()
			apply = func() {
				m.curData, m.curVer, m.hasCur = m.staged, m.stagedVer, true
				clearStaged()
				m.phase = channel.Funding
			}
			got = am.EnableInit()
		case 6: // EnableUpdate
			name = "EnableUpdate"
			wantOK = m.phase == channel.Signing && complete()
			apply = func() {
				m.curData, m.curVer = m.staged, m.stagedVer
				clearStaged()
				m.phase = channel.Acting
			}
			got = am.EnableUpdate()
		case 7: // DiscardUpdate
			name = "DiscardUpdate"
			wantOK = m.phase == channel.Signing
			apply = func() { clearStaged(); m.phase = channel.Acting }
			got = am.DiscardUpdate()
		default: // SetFunded
			name = "SetFunded"
			wantOK = m.phase == channel.Funding
			apply = func() { m.phase = channel.Acting }
			got = am.SetFunded()
		}
		seq = append(seq, name)
		r.Count("action_machine_calls", 1)
		if wantOK != (got == nil) {
			return fail("outcome", fmt.Sprintf("%s in phase %v with actions set for %v: expected success=%v, got error %v", name, m.phase, setOf(m.actions), wantOK, got))
		}
		if got != nil {
			if after := snap(am); after != before {
				return fail("failed-call-changed-state", fmt.Sprintf("%s failed (%v) but phase, current or staged transaction changed", name, got))
			}
			r.Count("action_machine_calls_failed_as_expected", 1)
			continue
		}
		apply()
		// compare the observable state with the model
		if am.Phase() != m.phase {
			return fail("phase", fmt.Sprintf("after %s the phase is %v, documented %v", name, am.Phase(), m.phase))
		}
		st := am.StagingState()
		switch {
		case (st == nil) != (m.staged == nil):
			return fail("staging", fmt.Sprintf("after %s: staged state present=%v, expected present=%v", name, st != nil, m.staged != nil))
		case st != nil && (!bytes.Equal(dataOf(st), m.staged) || st.Version != m.stagedVer):
			return fail("staged-state", fmt.Sprintf("after %s the staged state is version %d with data %x; the actions added since the last staging give version %d with data %x", name, st.Version, dataOf(st), m.stagedVer, m.staged))
		}
		if cur := am.State(); m.hasCur && (cur == nil || cur.Version != m.curVer || !bytes.Equal(dataOf(cur), m.curData)) {
			return fail("current-state", fmt.Sprintf("after %s the current state is not the one enabled last (version %d, data %x)", name, m.curVer, m.curData))
		}
		r.Seen("action_machine_phase_x_operation", m.phase.String()+"|"+trimArgs(name))
	}
	r.Count("action_machine_walks", 1)
	r.Case("action|"+world+"|"+fmt.Sprint(seq), m.hasCur)
	if sample {
		r.Sample(map[string]any{"action_machine_walk": seq, "world": world})
	}
	return true
}

func setOf(a [][]byte) []int {
	var out []int
	for i, x := range a {
		if x != nil {
			out = append(out, i)
		}
	}
	return out
}

func trimArgs(s string) string {
	for i := range s {
		if s[i] == '(' {
			return s[:i]
		}
	}
	return s
}
