// Package cmachine holds C01 (current state always fully signed) and C09 (phase protocol,
// atomic failures): both run the machine explorer, with different monitors.
package cmachine

import (
	"fmt"
	"sync"
	"sync/atomic"

	"perun.network/go-perun/channel"

	"verif/internal/ev"
	"verif/internal/gen"
	"verif/internal/mexplore"
	"verif/props"
)

func init() {
	props.Register(props.Entry{
		ID:    "C01",
		Level: "exploration",
		Rule: "operation sequences over the complete state-machine alphabet (Init/Update/ForceUpdate with valid and invalid arguments, Sig, AddSig(i, {valid, bit-flipped, foreign, replayed, short, empty, nil}) for every i < N, all Enable*/Discard/phase setters, SetProgressing/SetProgressed) " +
			"on machines of every participant index of 2- and 3-party channels with the no-app, payment app and a data app: breadth-first over abstract states (phase, staged?, signature slots, current version/final/signed) with all length-k suffixes from every state, plus random walks of length 30; " +
			"after every call the monitor re-verifies current and staging transaction with channel.Verify. A case is an operation sequence (with argument classes); non-trivial iff it contains >= 1 successful enable or >= 1 failing call after a successful one",
		Run: func(r *ev.Run, cfg props.Cfg) { run(r, cfg, "C01") },
	})
	props.Register(props.Entry{
		ID:    "C09",
		Level: "exploration",
		Rule: "same explorer and alphabet as C01; every call's (error?, resulting phase, staged transaction, current transaction, returned signature) is compared with a reference automaton written from the method documentation, and a failing call must leave phase, staged and current transaction untouched. " +
			"A case is an operation sequence; non-trivial iff it contains >= 1 successful enable or >= 1 failing call after a successful one. The evidence lists the (phase x operation) matrix with hit counts, fresh and after a failure",
		Run: func(r *ev.Run, cfg props.Cfg) { run(r, cfg, "C09") },
	})
}

type witness struct {
	World    string   `json:"world"`
	Sequence []string `json:"sequence"`
	Finding  string   `json:"finding"`
}

type worldSpec struct {
	n, idx int
	app    gen.AppKind
	split  int // 0: none; k+1: participant k has two different keys under two backends
}

func (w worldSpec) String() string {
	return fmt.Sprintf("n=%d idx=%d app=%d split=%d", w.n, w.idx, w.app, w.split-1)
}

func run(r *ev.Run, cfg props.Cfg, prop string) {
	var worlds []worldSpec
	for _, app := range []gen.AppKind{gen.AppNone, gen.AppPayment, gen.AppData} {
		worlds = append(worlds, worldSpec{2, 0, app, 0}, worldSpec{2, 1, app, 0})
	}
	worlds = append(worlds, worldSpec{3, 0, gen.AppPayment, 0}, worldSpec{3, 1, gen.AppNone, 0}, worldSpec{3, 2, gen.AppData, 0})
	if len(gen.ExtraBackends) > 0 {
		// a peer whose two addresses are different keys: every AddSig for it must fail atomically
		worlds = append(worlds, worldSpec{2, 0, gen.AppNone, 2}, worldSpec{3, 0, gen.AppData, 3})
	}

	var mu sync.Mutex
	matrix := map[string]*[4]int64{} // phase|op -> [ok fresh, fail fresh, ok after failure, fail after failure]
	report := func(ws worldSpec) func(e *mexplore.Exec, st *mexplore.Step, f mexplore.Finding) {
		return func(e *mexplore.Exec, st *mexplore.Step, f mexplore.Finding) {
			seq := make([]string, len(st.Seq))
			for i, o := range st.Seq {
				seq[i] = o.String()
			}
			r.Violation(f.Class, f.What+" [sequence: "+mexplore.SeqString(st.Seq)+"; "+ws.String()+"]", witness{World: ws.String(), Sequence: seq, Finding: f.What})
		}
	}
	// case accounting: one case per executed sequence (= per call, since every call ends a prefix)
	caseObs := func(ws worldSpec) *caseCounter { return &caseCounter{r: r, world: ws.String()} }

	mkObs := func(ws worldSpec, w *mexplore.World) func() mexplore.ForkableObserver {
		return func() mexplore.ForkableObserver {
			var mon mexplore.ForkableObserver
			if prop == "C01" {
				mon = mexplore.NewSignedMonitor(w, report(ws), func(full, ex, ss int) {
					r.Count("current_tx_fully_verified", int64(full))
					r.Count("current_tx_exempt_progressed", int64(ex))
					r.Count("staging_signatures_verified", int64(ss))
				})
			} else {
				mon = mexplore.NewAutomatonMonitor(w, report(ws), func(ph channel.Phase, op mexplore.Op, ok, afterFail bool) {
					k := ph.String() + "|" + op.String()
					i := 0
					if !ok {
						i = 1
					}
					if afterFail {
						i += 2
					}
					mu.Lock()
					c := matrix[k]
					if c == nil {
						c = new([4]int64)
						matrix[k] = c
					}
					c[i]++
					mu.Unlock()
				})
			}
			return mexplore.Multi{mon, caseObs(ws)}
		}
	}

	depth := cfg.Pick(7, 10)
	suffix := cfg.Pick(1, 2)
	nRandom := cfg.Pick(20000, 400000)
	var totalStates, totalTrans int
	var wg sync.WaitGroup
	for wi, ws := range worlds {
		ws, wi := ws, wi
		sfx := suffix
		if ws.n == 3 && sfx > 1 && !cfg.Thorough() {
			sfx = 1
		}
		wg.Add(1)
		go func() {
			defer wg.Done()
			rng := gen.NewRand(cfg.Seed, fmt.Sprintf("cmachine/world/%d", wi))
			w := mexplore.NewWorld(rng, ws.n, ws.idx, ws.app, 1+wi%2)
			if ws.split > 0 {
				w = mexplore.NewWorldSplit(rng, ws.n, ws.idx, ws.app, 1+wi%2, ws.split-1)
			}
			st := mexplore.Explore(w, depth, sfx, maxInt(1, cfg.Workers/2), mkObs(ws, w))
			mu.Lock()
			totalStates += st.States
			totalTrans += st.Transitions
			mu.Unlock()
			r.Count("explorer_calls", st.Calls)
			r.Max("explorer_max_depth", int64(st.MaxDepth))
		}()
	}
	wg.Wait()
	r.Set("states", totalStates)
	r.Set("transitions", totalTrans)

	// random long sequences, driven by calls only (no forking)
	per := (nRandom + cfg.Workers - 1) / cfg.Workers
	for wk := 0; wk < cfg.Workers; wk++ {
		wk := wk
		wg.Add(1)
		go func() {
			defer wg.Done()
			rng := gen.NewRand(cfg.Seed, fmt.Sprintf("cmachine/random/%d", wk))
			for i := 0; i < per; i++ {
				ws := worlds[rng.Intn(len(worlds))]
				w := mexplore.NewWorld(rng, ws.n, ws.idx, ws.app, 1+rng.Intn(2))
				e := mexplore.RandomWalk(w, rng, 30, mexplore.Plain{StateMachine: w.NewMachine()}, mkObs(ws, w)())
				r.Count("random_walks", 1)
				r.Seen("final_phases_of_random_walks", e.D.Source().Phase().String())
				if wk == 0 && i < 2 {
					r.Sample(map[string]any{"world": ws.String(), "random_walk": mexplore.SeqString(e.Seq)})
				}
			}
		}()
	}
	wg.Wait()
	if prop == "C01" {
		rng := gen.NewRand(cfg.Seed, "cmachine/reuse")
		for i, n := 0, cfg.Pick(2000, 40000); i < n; i++ {
			if !reusedStateObject(r, rng) {
				break
			}
		}
	}
	if prop == "C09" {
		// ActionMachine (channel/actionmachine.go): random walks against the documented behaviour
		nAct := cfg.Pick(20000, 400000)
		perA := (nAct + cfg.Workers - 1) / cfg.Workers
		for wk := 0; wk < cfg.Workers; wk++ {
			wk := wk
			wg.Add(1)
			go func() {
				defer wg.Done()
				rng := gen.NewRand(cfg.Seed, fmt.Sprintf("cmachine/actions/%d", wk))
				for i := 0; i < perA; i++ {
					if !actionWalk(r, rng, wk == 0 && i < 2) {
						return
					}
				}
			}()
		}
		wg.Wait()
		out := map[string][4]int64{}
		phases := map[string]bool{}
		for k, v := range matrix {
			out[k] = *v
			for i := 0; i < len(k); i++ {
				if k[i] == '|' {
					phases[k[:i]] = true
					break
				}
			}
		}
		r.Set("phase_x_operation_matrix", out)
		r.Set("phase_x_operation_matrix_legend", "[succeeded fresh, failed fresh, succeeded after an earlier failure, failed after an earlier failure]")
		r.Count("matrix_cells_hit", int64(len(out)))
		r.Count("phases_hit", int64(len(phases)))
	}
	r.Count("random_walks_continued_on_a_clone_of_the_machine", atomic.LoadInt64(&mexplore.Clones))
	r.Count("steps_skipped_after_an_ill_dimensioned_forced_state", atomic.LoadInt64(&mexplore.NarrowSkips))
	if n := atomic.LoadInt64(&mexplore.HarnessPanics); n > 0 {
		r.Note("%d steps were skipped because the explorer's bookkeeping could not follow the implementation (only possible after a reported defect)", n)
		r.Count("explorer_steps_skipped_after_a_defect", n)
	}
	r.Assume("signature indices are below the participant count; ForceUpdate is applied only when a current state exists (as the property states)")
	r.Assume("branching in the breadth-first explorer rebuilds machines with channel.RestoreStateMachine from harness-made snapshots; random walks use call sequences only")
}

// caseCounter records one case per call (the sequence up to and including it).
type caseCounter struct {
	r         *ev.Run
	world     string
	enabled   bool // a successful enable happened
	okBefore  bool // some call succeeded
	nontriv   bool
	signature []byte
}

func (c *caseCounter) Fork() mexplore.ForkableObserver {
	d := *c
	d.signature = append([]byte(nil), c.signature...)
	return &d
}

func (c *caseCounter) Observe(e *mexplore.Exec, st *mexplore.Step) {
	ok := st.Err == nil && st.Panic == nil
	if ok {
		switch st.Op.Kind {
		case mexplore.OpEnableInit, mexplore.OpEnableUpdate, mexplore.OpEnableFinal:
			c.enabled = true
		}
	} else if c.okBefore {
		c.nontriv = true
	}
	if ok {
		c.okBefore = true
	}
	c.signature = append(c.signature, byte(st.Op.Kind), byte(st.Op.I), byte(st.Op.Class), ';')
	c.r.Case(c.world+string(c.signature), c.enabled || c.nontriv)
}

func maxInt(a, b int) int {
	if a > b {
		return a
	}
	return b
}
