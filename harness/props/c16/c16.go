// Package c16: message framing must not depend on how the transport chunks the bytes.
package c16

import (
	"bytes"
	"fmt"
	"io"
	"math/rand"
	"strings"
	"sync"

	"perun.network/go-perun/wire"
	wirenet "perun.network/go-perun/wire/net"

	"verif/internal/canon"
	"verif/internal/codecs"
	"verif/internal/ev"
	"verif/internal/gen"
	"verif/props"
)

func init() {
	props.Register(props.Entry{
		ID:    "C16",
		Level: "exploration",
		Rule: "streams of 1-5 generated envelopes per serializer (native, protobuf; all 17 message types; small, larger than a 1460-byte segment, near the 64 KiB protobuf frame) read through a chunking io.Reader " +
			"under partitions: whole, 1-byte, every two-chunk split point (sampled for streams > 6000 bytes), MSS-sized, random; a case is (serializer, message types of the stream, partition kind and chunk-size vector hash); non-trivial iff the stream was delivered in >= 2 chunks",
		Run: run,
	})
}

// chunkReader delivers data in the given chunk sizes, like segments arriving on a TCP
// connection that stays open: a Read returns at most what is left of the current chunk, never
// (0, nil) for a non-empty buffer, and EOF only on a call after the last byte was handed out.
type chunkReader struct {
	data   []byte
	chunks []int // sizes; when exhausted the rest arrives as one chunk
	cur    int   // bytes left in the current chunk
	reads  int
}

func (c *chunkReader) Read(p []byte) (int, error) {
	if len(p) == 0 {
		return 0, nil
	}
	if len(c.data) == 0 {
		return 0, io.EOF
	}
	if c.cur == 0 {
		if len(c.chunks) > 0 {
			c.cur, c.chunks = c.chunks[0], c.chunks[1:]
		} else {
			c.cur = len(c.data)
		}
		if c.cur <= 0 {
			c.cur = 1
		}
	}
	n := len(p)
	if n > c.cur {
		n = c.cur
	}
	if n > len(c.data) {
		n = len(c.data)
	}
	copy(p, c.data[:n])
	c.data = c.data[n:]
	c.cur -= n
	c.reads++
	return n, nil
}

type witness struct {
	Serializer string   `json:"serializer"`
	Types      []string `json:"message_types"`
	Partition  string   `json:"partition"`
	Chunks     []int    `json:"chunk_sizes"`
	StreamHex  string   `json:"stream_hex"`
	Envelope   int      `json:"failing_envelope_index"`
}

func run(r *ev.Run, cfg props.Cfg) {
	nStreams := cfg.Pick(60, 600)
	nRandom := cfg.Pick(50, 500)
	sers := []struct {
		name string
		ser  wire.EnvelopeSerializer
	}{{"native", codecs.Native}, {"protobuf", codecs.Proto}}
	var wg sync.WaitGroup
	sem := make(chan struct{}, cfg.Workers)
	for _, s := range sers {
		for i := 0; i < nStreams; i++ {
			s, i := s, i
			wg.Add(1)
			sem <- struct{}{}
			go func() {
				defer wg.Done()
				defer func() { <-sem }()
				rng := gen.NewRand(cfg.Seed, fmt.Sprintf("c16/%s/%d", s.name, i))
				checkStream(r, rng, s.name, s.ser, i, nRandom)
			}()
		}
	}
	wg.Wait()
	// long-lived connections: many envelopes (more than 1 MiB in total) over one wire/net ioConn
	for _, s := range sers {
		for i := 0; i < cfg.Pick(1, 6); i++ {
			longConn(r, gen.NewRand(cfg.Seed, fmt.Sprintf("c16/long/%s/%d", s.name, i)), s.name, s.ser)
		}
	}
	r.Assume("the reader models an open connection: it never returns (0,nil) for a non-empty buffer and reports EOF only after the last byte (the statement excludes EOF together with data)")
}

func checkStream(r *ev.Run, rng *rand.Rand, sname string, ser wire.EnvelopeSerializer, idx, nRandom int) {
	// build the stream
	k := 1 + rng.Intn(5)
	var stream bytes.Buffer
	var want []string
	var types []string
	var ends []int
	for len(want) < k {
		t := gen.MsgTypes[rng.Intn(len(gen.MsgTypes))]
		o := gen.MsgOpts{Small: sname == "protobuf" || rng.Intn(3) != 0}
		env := gen.Envelope(rng, t, o)
		if rng.Intn(4) == 0 {
			// make it longer than a network segment / approach the protobuf frame limit
			if m, ok := env.Msg.(*wire.AuthResponseMsg); ok || rng.Intn(2) == 0 {
				n := 1500 + rng.Intn(6000)
				if rng.Intn(4) == 0 {
					n = 60000 + rng.Intn(5000)
				}
				b := make([]byte, n)
				rng.Read(b)
				if ok {
					m.Signature = b
				} else {
					env.Msg = &wire.AuthResponseMsg{Signature: b}
					t = wire.AuthResponse
				}
			}
		}
		if rng.Intn(10) == 0 {
			// beyond the protobuf frame limit: the writer has to refuse it without touching the stream
			b := make([]byte, 65536+rng.Intn(70000))
			rng.Read(b)
			env.Msg, t = &wire.AuthResponseMsg{Signature: b}, wire.AuthResponse
			r.Count("envelopes_beyond_64KiB_offered", 1)
		}
		var one bytes.Buffer
		if err := ser.Encode(&one, env); err != nil {
			r.Count("abstained_encode_error", 1)
			if one.Len() != 0 {
				r.Violation("C16/"+sname+"/refused-envelope-left-bytes", fmt.Sprintf("Encode refused a %s envelope (%v) but had already written %d bytes to the stream: every later envelope on it is lost", t, err, one.Len()),
					witness{Serializer: sname, Types: []string{t.String()}, Partition: "encode", StreamHex: hexTrunc(one.Bytes())})
			}
			continue
		}
		// reference: decode from the contiguous buffer
		rd := bytes.NewReader(one.Bytes())
		ref, err := ser.Decode(rd)
		if err != nil || rd.Len() != 0 {
			// the writer produced a frame its reader cannot take back as one envelope: whatever
			// follows on the stream is lost for every chunking (also C14's business)
			r.Violation("C16/"+sname+"/frame-not-readable", fmt.Sprintf("a %s envelope of %d bytes was written without error but reading it back gives %v with %d bytes left over", t, one.Len(), err, rd.Len()),
				witness{Serializer: sname, Types: []string{t.String()}, Partition: "whole", StreamHex: hexTrunc(one.Bytes())})
			continue
		}
		stream.Write(one.Bytes())
		want = append(want, canon.String(ref))
		types = append(types, t.String())
		ends = append(ends, stream.Len())
	}
	data := stream.Bytes()
	L := len(data)
	r.Max("max_stream_len", int64(L))
	if L > 1460 {
		r.Count("streams_longer_than_a_segment", 1)
	}

	try := func(kind string, chunks []int) {
		cr := &chunkReader{data: data, chunks: append([]int(nil), chunks...)}
		desc := fmt.Sprintf("%s|%v|%s|%v", sname, types, kind, chunks)
		if len(chunks) > 16 {
			desc = fmt.Sprintf("%s|%v|%s|%d:%v", sname, types, kind, len(chunks), chunks[:16])
		}
		failed := -1
		var what string
		// a third of the partitions go through the connection type the library itself puts on top of
		// a byte stream (wire/net.NewIoConn ... Recv) instead of calling the serializer directly
		viaConn := (len(chunks)+cr.chunks0())%3 == 1
		var conn wirenet.Conn
		if viaConn {
			conn = wirenet.NewIoConn(rwc{cr}, ser)
			kind += "/ioconn"
		}
		for j := range want {
			var env *wire.Envelope
			err := safely(func() (e error) {
				if viaConn {
					env, e = conn.Recv()
				} else {
					env, e = ser.Decode(cr)
				}
				return
			})
			if err != nil {
				failed, what = j, fmt.Sprintf("envelope %d of %d (%s) failed to decode under partition %s: %v", j, len(want), types[j], kind, err)
				break
			}
			if got := canon.String(env); got != want[j] {
				failed, what = j, fmt.Sprintf("envelope %d of %d (%s) decoded to a different envelope under partition %s", j, len(want), types[j], kind)
				break
			}
		}
		r.Case(desc, cr.reads >= 2 && !strings.HasPrefix(kind, "whole"))
		r.Count("partitions_"+kind, 1)
		r.Count("reader_calls", int64(cr.reads))
		if failed >= 0 {
			r.Violation("C16/"+sname+"/"+kind, what, witness{Serializer: sname, Types: types, Partition: kind, Chunks: trimInts(chunks), StreamHex: hexTrunc(data), Envelope: failed})
		}
	}

	try("whole", nil)
	ones := make([]int, L)
	for i := range ones {
		ones[i] = 1
	}
	try("one-byte", ones)
	// every two-chunk split point (sampled for long streams)
	step := 1
	if L > 6000 {
		step = L / 3000
	}
	for sp := 1; sp < L; sp += step {
		try("two-chunks", []int{sp})
	}
	// split exactly at and around every envelope boundary and header
	for _, e := range ends {
		for d := -3; d <= 3; d++ {
			if sp := e + d; sp > 0 && sp < L {
				try("two-chunks", []int{sp})
			}
		}
	}
	// MSS-sized
	for _, mss := range []int{1460, 536, 1448} {
		var cs []int
		for n := 0; n < L; n += mss {
			cs = append(cs, mss)
		}
		try("mss", cs)
	}
	for i := 0; i < nRandom; i++ {
		var cs []int
		maxc := 1 + rng.Intn(1+min(L, []int{4, 64, 1500, 70000}[rng.Intn(4)]))
		for n := 0; n < L; {
			c := 1 + rng.Intn(maxc)
			cs = append(cs, c)
			n += c
		}
		try("random", cs)
	}
	if idx == 0 {
		r.Sample(map[string]any{"serializer": sname, "message_types": types, "stream_len": L, "partitions": "whole, 1-byte, every split point, mss, random"})
	}
}

// longConn sends a long history of envelopes over one connection object.
func longConn(r *ev.Run, rng *rand.Rand, sname string, ser wire.EnvelopeSerializer) {
	var stream bytes.Buffer
	var want []string
	target := (1 << 20) + rng.Intn(1<<20)
	for stream.Len() < target {
		t := gen.MsgTypes[rng.Intn(len(gen.MsgTypes))]
		env := gen.Envelope(rng, t, gen.MsgOpts{Small: true})
		if rng.Intn(2) == 0 {
			b := make([]byte, 1000+rng.Intn(3000))
			rng.Read(b)
			env.Msg = &wire.AuthResponseMsg{Signature: b}
		}
		var one bytes.Buffer
		if ser.Encode(&one, env) != nil {
			continue
		}
		ref, err := ser.Decode(bytes.NewReader(one.Bytes()))
		if err != nil {
			continue
		}
		stream.Write(one.Bytes())
		want = append(want, canon.String(ref))
	}
	var cs []int
	mss := []int{1460, 536, 4096, 65536}[rng.Intn(4)]
	for n := 0; n < stream.Len(); n += mss {
		cs = append(cs, mss)
	}
	cr := &chunkReader{data: stream.Bytes(), chunks: cs}
	conn := wirenet.NewIoConn(rwc{cr}, ser)
	r.Count("long_connections", 1)
	r.Max("max_bytes_over_one_connection", int64(stream.Len()))
	for j := range want {
		var env *wire.Envelope
		err := safely(func() (e error) { env, e = conn.Recv(); return })
		if err != nil || canon.String(env) != want[j] {
			r.Violation("C16/"+sname+"/long-connection", fmt.Sprintf("envelope %d of %d on one long-lived connection (%d bytes in total, read in chunks of %d) was not decoded as sent: %v", j, len(want), stream.Len(), mss, err),
				witness{Serializer: sname, Partition: "long-connection", Envelope: j})
			r.Case(fmt.Sprintf("long|%s|%d|%d", sname, len(want), mss), true)
			return
		}
	}
	r.Count("envelopes_over_long_connections", int64(len(want)))
	r.Case(fmt.Sprintf("long|%s|%d|%d", sname, len(want), mss), true)
}

func safely(f func() error) (err error) {
	defer func() {
		if p := recover(); p != nil {
			err = fmt.Errorf("panic: %v", p)
		}
	}()
	return f()
}

// rwc makes the chunk reader an io.ReadWriteCloser for wire/net.NewIoConn.
type rwc struct{ *chunkReader }

func (rwc) Write(p []byte) (int, error) { return len(p), nil }
func (rwc) Close() error                { return nil }

func (c *chunkReader) chunks0() int {
	if len(c.chunks) > 0 {
		return c.chunks[0]
	}
	return 0
}

func trimInts(a []int) []int {
	if len(a) > 64 {
		return a[:64]
	}
	return a
}

func hexTrunc(b []byte) string {
	if len(b) > 8192 {
		b = b[:8192]
	}
	return fmt.Sprintf("%x", b)
}
