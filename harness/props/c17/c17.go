// Package c17: a channel ID commits to the channel parameters.
package c17

import (
	"bytes"
	"fmt"
	"math/big"
	"math/rand"
	"sync"

	"perun.network/go-perun/channel"
	"perun.network/go-perun/wallet"
	"perun.network/go-perun/wire/protobuf"

	"verif/internal/canon"
	"verif/internal/ev"
	"verif/internal/gen"
	"verif/props"
)

func init() {
	props.Register(props.Entry{
		ID:    "C17",
		Level: "exploration",
		Rule: "generated parameter sets (2..6 participants, occasionally the 1024 limit; no-app, payment app, data app; nonces of 0..32 bytes; both flags) x {clone, native round trip, protobuf round trip, reconstruction, CalcID} must keep the ID, " +
			"x 12 single-field variants (duration, each address, order, app, nonce, ledger flag, virtual flag, participant added/removed) must change it; Init of a state machine must stamp the ID; 9 kinds of constraint-violating constructor/decoder inputs must be refused with an error. " +
			"A case is (operation or variant, parameter shape); non-trivial iff the parameters have >= 2 participants and a non-zero nonce",
		Run: run,
	})
}

type witness struct {
	What   string `json:"what"`
	Params string `json:"params"`
	Other  string `json:"other,omitempty"`
}

type variant struct {
	name  string
	apply func(r *rand.Rand, f *fields) bool
}

type fields struct {
	dur     uint64
	parts   []map[wallet.BackendID]wallet.Address
	app     channel.App
	nonce   *big.Int
	ledger  bool
	virtual bool
	aux     channel.Aux
}

func fieldsOf(p *channel.Params) *fields {
	c := p.Clone()
	return &fields{c.ChallengeDuration, c.Parts, c.App, c.Nonce, c.LedgerChannel, c.VirtualChannel, c.Aux}
}

func (f *fields) build() (p *channel.Params, err error) {
	defer func() {
		if x := recover(); x != nil {
			p, err = nil, fmt.Errorf("PANIC: %v", x)
		}
	}()
	return channel.NewParams(f.dur, f.parts, f.app, f.nonce, f.ledger, f.virtual, f.aux)
}

var variants = []variant{
	{"duration+1", func(r *rand.Rand, f *fields) bool { f.dur++; return f.dur != 0 }},
	{"duration-high-bit", func(r *rand.Rand, f *fields) bool { f.dur ^= 1 << 63; return f.dur != 0 }},
	{"one-address", func(r *rand.Rand, f *fields) bool { f.parts[r.Intn(len(f.parts))] = gen.WalletAddr(r); return true }},
	{"one-participant-moved-to-another-backend", func(r *rand.Rand, f *fields) bool {
		// the same key, but registered with another backend: another participant as far as the ID goes
		if len(gen.ExtraBackends) == 0 {
			return false
		}
		i := r.Intn(len(f.parts))
		for id, a := range f.parts[i] {
			to := gen.ExtraBackends[r.Intn(len(gen.ExtraBackends))]
			if id == to {
				to = gen.B
			}
			if _, has := f.parts[i][to]; has {
				return false
			}
			na := gen.OnBackend(to, a)
			if na == nil {
				return false
			}
			m := map[wallet.BackendID]wallet.Address{}
			for k, v := range f.parts[i] {
				if k != id {
					m[k] = v
				}
			}
			m[to] = na
			f.parts[i] = m
			return true
		}
		return false
	}},
	{"one-participant-on-one-backend-more", func(r *rand.Rand, f *fields) bool {
		if len(gen.ExtraBackends) == 0 {
			return false
		}
		i := r.Intn(len(f.parts))
		for _, a := range f.parts[i] {
			for _, to := range append([]wallet.BackendID{gen.B}, gen.ExtraBackends...) {
				if _, has := f.parts[i][to]; !has {
					m := map[wallet.BackendID]wallet.Address{to: gen.OnBackend(to, a)}
					for k, v := range f.parts[i] {
						m[k] = v
					}
					f.parts[i] = m
					return true
				}
			}
			return false
		}
		return false
	}},
	{"last-address", func(r *rand.Rand, f *fields) bool { f.parts[len(f.parts)-1] = gen.WalletAddr(r); return true }},
	{"order-swap-01", func(r *rand.Rand, f *fields) bool { f.parts[0], f.parts[1] = f.parts[1], f.parts[0]; return true }},
	{"order-rotate", func(r *rand.Rand, f *fields) bool {
		if len(f.parts) < 3 {
			return false
		}
		f.parts = append(f.parts[1:], f.parts[0])
		return true
	}},
	{"participant-added", func(r *rand.Rand, f *fields) bool {
		if len(f.parts) >= channel.MaxNumParts {
			return false
		}
		f.parts = append(f.parts, gen.WalletAddr(r))
		return true
	}},
	{"participant-removed", func(r *rand.Rand, f *fields) bool {
		if len(f.parts) <= 2 {
			return false
		}
		f.parts = f.parts[:len(f.parts)-1]
		return true
	}},
	{"app", func(r *rand.Rand, f *fields) bool {
		switch {
		case channel.IsNoApp(f.app):
			f.app = gen.Payment
		case f.app == channel.App(gen.Payment):
			f.app = gen.Payment2
		default:
			f.app = channel.NoApp()
		}
		return true
	}},
	{"nonce+1", func(r *rand.Rand, f *fields) bool {
		n := new(big.Int).Add(f.nonce, big.NewInt(1))
		if len(n.Bytes()) > channel.MaxNonceLen {
			n = new(big.Int).Sub(f.nonce, big.NewInt(1))
		}
		f.nonce = n
		return true
	}},
	{"nonce-shifted-by-whole-bytes", func(r *rand.Rand, f *fields) bool {
		// n and n*256^k have the same significant bytes: an ID that pads or trims the nonce
		// instead of committing to its value cannot tell them apart
		free := channel.MaxNonceLen - len(f.nonce.Bytes())
		if f.nonce.Sign() == 0 || free < 1 {
			return false
		}
		f.nonce = new(big.Int).Lsh(f.nonce, uint(8*(1+r.Intn(free))))
		return true
	}},
	{"nonce-bit", func(r *rand.Rand, f *fields) bool {
		n := new(big.Int).Set(f.nonce)
		b := r.Intn(256)
		n.SetBit(n, b, n.Bit(b)^1)
		f.nonce = n
		return true
	}},
	{"ledger-flag", func(r *rand.Rand, f *fields) bool { f.ledger = !f.ledger; return true }},
	{"virtual-flag", func(r *rand.Rand, f *fields) bool { f.virtual = !f.virtual; return true }},
}

func run(r *ev.Run, cfg props.Cfg) {
	n := cfg.Pick(40000, 500000)
	var wg sync.WaitGroup
	per := (n + cfg.Workers - 1) / cfg.Workers
	for w := 0; w < cfg.Workers; w++ {
		w := w
		wg.Add(1)
		go func() {
			defer wg.Done()
			rng := gen.NewRand(cfg.Seed, fmt.Sprintf("c17/%d", w))
			for i := 0; i < per; i++ {
				one(r, rng, w == 0 && i == 0, w == 0 && i%500 == 7)
			}
		}()
	}
	wg.Wait()
	constraints(r, gen.NewRand(cfg.Seed, "c17/constraints"), cfg.Pick(40, 400))
	r.Assume("Aux is deliberately not asserted either way (the statement does not list it)")
}

func one(r *ev.Run, rng *rand.Rand, sample, big1024 bool) {
	n := 2 + rng.Intn(5)
	if big1024 {
		n = channel.MaxNumParts
	}
	ps := gen.Parties(rng, n)
	kind := gen.AppKind(rng.Intn(3))
	p := gen.Params(rng, ps, gen.AppOf(kind))
	shape := fmt.Sprintf("n%d app%d nonce%d l%v v%v", n, kind, len(p.Nonce.Bytes()), p.LedgerChannel, p.VirtualChannel)
	nontriv := p.Nonce.Sign() != 0
	id := p.ID()
	fail := func(class, what string, other any) {
		o := ""
		if other != nil {
			o = canon.String(other)
		}
		r.Violation("C17/"+class, what, witness{What: what, Params: canon.String(p), Other: o})
	}
	same := func(op string, q *channel.Params, err error) {
		r.Case("same|"+op+"|"+shape, nontriv)
		if err != nil {
			fail("same/"+op+"/error", fmt.Sprintf("%s of valid parameters failed: %v", op, err), nil)
			return
		}
		if q.ID() != id {
			fail("same/"+op, fmt.Sprintf("%s changed the channel ID", op), q)
		}
		r.Count("id_preserving_ops", 1)
	}
	if id == channel.Zero {
		fail("zero-id", "parameters have the zero ID", nil)
	}
	same("clone", p.Clone(), nil)
	if cid, err := channel.CalcID(p); err != nil || cid != id {
		fail("same/CalcID", fmt.Sprintf("CalcID(p) = %x, %v differs from p.ID()", cid, err), nil)
	}
	q, err := fieldsOf(p).build()
	same("reconstruct", q, err)
	{
		var buf bytes.Buffer
		err := p.Encode(&buf)
		q := new(channel.Params)
		if err == nil {
			err = safely(func() error { return q.Decode(&buf) })
		}
		same("native-roundtrip", q, err)
		// decode a second time from a clone's encoding
		var buf2 bytes.Buffer
		_ = p.Clone().Encode(&buf2)
		q2 := new(channel.Params)
		same("native-roundtrip-of-clone", q2, safely(func() error { return q2.Decode(&buf2) }))
	}
	if n <= 64 {
		pp, err := protobuf.FromParams(p)
		var q *channel.Params
		if err == nil {
			err = safely(func() (e error) { q, e = protobuf.ToParams(pp); return })
		}
		same("protobuf-roundtrip", q, err)
	}
	// single-field variants must change the ID
	for _, v := range variants {
		f := fieldsOf(p)
		if !v.apply(rng, f) {
			continue
		}
		q, err := f.build()
		r.Case("variant|"+v.name+"|"+shape, nontriv)
		if err != nil {
			fail("variant/"+v.name+"/error", fmt.Sprintf("constructing the %s variant failed: %v", v.name, err), nil)
			continue
		}
		r.Seen("variants", v.name)
		if q.ID() == id {
			fail("variant/"+v.name, fmt.Sprintf("the %s variant has the same channel ID", v.name), q)
		}
		if cid, _ := channel.CalcID(q); cid != q.ID() {
			fail("variant/"+v.name+"/CalcID", "CalcID differs from the cached ID of the variant", q)
		}
	}
	// every state a machine creates carries the ID of its parameters
	if n <= 8 {
		idx := rng.Intn(n)
		m, err := channel.NewStateMachine(ps[idx].AccMap(), *p)
		r.Case("machine-init|"+shape, nontriv)
		if err != nil {
			fail("machine/new", fmt.Sprintf("NewStateMachine failed: %v", err), nil)
		} else {
			alloc := gen.Allocation(rng, gen.Shape{Assets: 1 + rng.Intn(3), Parts: n, Small: true})
			if err := safely(func() error { return m.Init(*alloc, gen.DataFor(rng, p.App)) }); err != nil {
				fail("machine/init", fmt.Sprintf("Init with a well-formed allocation failed: %v", err), alloc)
			} else if m.StagingState().ID != id || m.ID() != id {
				fail("machine/state-id", "the initial state created by the machine does not carry the ID of its parameters", m.StagingState())
			} else {
				r.Count("machine_states_checked", 1)
			}
		}
	}
	if sample {
		r.Sample(map[string]any{"params": trunc(canon.String(p)), "id": fmt.Sprintf("%x", id), "checked": "clone, reconstruct, native/protobuf round trip, 13 variants, machine Init"})
	}
}

// constraints feeds inputs that violate the documented constraints to the constructor and to the decoder.
func constraints(r *ev.Run, rng *rand.Rand, n int) {
	type bad struct {
		name  string
		apply func(f *fields)
	}
	bads := []bad{
		{"duration-zero", func(f *fields) { f.dur = 0 }},
		{"one-participant", func(f *fields) { f.parts = f.parts[:1] }},
		{"no-participants", func(f *fields) { f.parts = nil }},
		{"1025-participants", func(f *fields) {
			for len(f.parts) < channel.MaxNumParts+1 {
				f.parts = append(f.parts, f.parts[len(f.parts)%2])
			}
		}},
		{"nil-app", func(f *fields) { f.app = nil }},
		{"app-neither-state-nor-action", func(f *fields) { f.app = bareApp{gen.Payment.Def()} }},
		{"nil-nonce", func(f *fields) { f.nonce = nil }},
		{"empty-address-map-for-a-later-participant", func(f *fields) {
			f.parts[len(f.parts)-1] = map[wallet.BackendID]wallet.Address{}
		}},
		{"empty-address-map-for-participant-0", func(f *fields) { f.parts[0] = map[wallet.BackendID]wallet.Address{} }},
		{"address-under-the-key-of-another-registered-backend", func(f *fields) {
			if len(gen.ExtraBackends) == 0 {
				f.parts[0] = nil
				return
			}
			i := rng.Intn(len(f.parts))
			for id, a := range f.parts[i] {
				to := gen.ExtraBackends[0]
				if id == to {
					to = gen.B
				}
				f.parts[i] = map[wallet.BackendID]wallet.Address{to: a} // the address itself reports id
				break
			}
		}},
		{"nonce-33-bytes", func(f *fields) { f.nonce = new(big.Int).Lsh(big.NewInt(1), 256) }},
		{"address-under-wrong-backend-key", func(f *fields) {
			i := rng.Intn(len(f.parts))
			for _, a := range f.parts[i] {
				f.parts[i] = map[wallet.BackendID]wallet.Address{7: a} // no backend 7; and the address says another id
				break
			}
		}},
	}
	for i := 0; i < n; i++ {
		for _, b := range bads {
			p := gen.Params(rng, gen.Parties(rng, 2+rng.Intn(3)), gen.AppOf(gen.AppKind(rng.Intn(3))))
			f := fieldsOf(p)
			b.apply(f)
			q, err := f.build()
			r.Case(fmt.Sprintf("constraint|%s|n%d", b.name, len(p.Parts)), true)
			r.Seen("constraints", b.name)
			if err == nil {
				r.Violation("C17/constraint/"+b.name+"/accepted", "NewParams accepted parameters violating a documented constraint: "+b.name, witness{What: b.name, Params: canon.String(q)})
			} else if len(err.Error()) > 5 && err.Error()[:5] == "PANIC" {
				r.Violation("C17/constraint/"+b.name+"/panic", "NewParams panicked instead of refusing: "+b.name+": "+err.Error(), witness{What: b.name, Params: canon.String(p)})
			} else {
				r.Count("constraint_violations_refused", 1)
			}
		}
		// the same through the decoder, for the constraints an encoding can express
		for _, name := range []string{"duration-zero", "one-participant", "no-participants", "1025-participants", "nonce-33-bytes-impossible"} {
			p := gen.Params(rng, gen.Parties(rng, 2+rng.Intn(3)), gen.AppOf(gen.AppKind(rng.Intn(3))))
			q := *p
			switch name {
			case "duration-zero":
				q.ChallengeDuration = 0
			case "one-participant":
				q.Parts = q.Parts[:1]
			case "no-participants":
				q.Parts = nil
			case "1025-participants":
				for len(q.Parts) < channel.MaxNumParts+1 {
					q.Parts = append(q.Parts, q.Parts[len(q.Parts)%2])
				}
			default:
				continue
			}
			var buf bytes.Buffer
			if err := q.Encode(&buf); err != nil {
				continue
			}
			d := new(channel.Params)
			err := safely(func() error { return d.Decode(&buf) })
			r.Case(fmt.Sprintf("decode-constraint|%s|n%d", name, len(p.Parts)), true)
			if err == nil {
				r.Violation("C17/decode-constraint/"+name+"/accepted", "Params.Decode accepted an encoding violating a documented constraint: "+name, witness{What: name, Params: canon.String(d)})
			} else if len(err.Error()) > 5 && err.Error()[:5] == "panic" {
				r.Violation("C17/decode-constraint/"+name+"/panic", "Params.Decode panicked instead of refusing: "+name+": "+err.Error(), witness{What: name, Params: canon.String(p)})
			} else {
				r.Count("decode_constraint_violations_refused", 1)
			}
		}
	}
}

// bareApp implements channel.App but neither StateApp nor ActionApp.
type bareApp struct{ id channel.AppID }

func (a bareApp) Def() channel.AppID    { return a.id }
func (a bareApp) NewData() channel.Data { return channel.NoData() }

func safely(f func() error) (err error) {
	defer func() {
		if p := recover(); p != nil {
			err = fmt.Errorf("panic: %v", p)
		}
	}()
	return f()
}

func trunc(s string) string {
	if len(s) > 700 {
		return s[:700] + "..."
	}
	return s
}
