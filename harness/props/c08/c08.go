// Package c08: channel opening - both sides derive the same channel; bad proposals are dropped.
package c08

import (
	"bytes"
	"context"
	"fmt"
	"math/big"
	"math/rand"
	"strings"
	"sync"
	"sync/atomic"
	"time"

	"perun.network/go-perun/channel"
	"perun.network/go-perun/client"
	"perun.network/go-perun/wallet"
	"perun.network/go-perun/wire"

	"verif/internal/canon"
	"verif/internal/childrun"
	"verif/internal/codecs"
	"verif/internal/ev"
	"verif/internal/gen"
	"verif/internal/party"
	"verif/internal/recpr"
	"verif/internal/sink"
	"verif/props"
)

func init() {
	props.Register(props.Entry{
		ID:    "C08",
		Level: "exploration",
		Rule: "positives: ledger, sub-channel and virtual-channel openings between real clients with random parameters (1-3 assets, balances incl. zeros, no-app/payment/data app with initial data, duration, aux, funding agreement) under bus noise; both returned channels are compared (ID, participant order, nonce, app, duration, flags, fully signed version-0 state = proposed balances and data) and nonce-share differential pairs must change the ID. " +
			"negatives: each listed validity condition as a mutator on well-formed ledger/sub-channel/virtual-channel proposals (1 participant, duration 0, invalid or pre-locked allocation, peers not (sender, receiver), unknown parent, other assets, more funds than the parent, virtual: funding agreement != balances, parent list length, index-map count/length/entries, funds > parent), delivered to a client with and without matching parents, as objects and through both serializers; the recording proposal handler must not be invoked and no channel created (checked after a barrier proposal from the same sender). " +
			"A case is (kind, mutator, delivery); non-trivial iff the message was decodable and reached proposal validation at a client with >= 1 open channel, or (positives) the opening completed",
		Run:       run,
		ChildMain: childMain,
	})
}

func run(r *ev.Run, cfg props.Cfg) {
	childrun.Run(r, cfg, childrun.Opts{
		Prop: "C08", Binary: cfg.Self, Workers: cfg.Workers,
		Arg: func(w int) string { return fmt.Sprintf("main:%d/%d", w, cfg.Workers) },
		OnDeath: func(w int, last, stderr string, err error) {
			r.Violation("C08/crash/"+childrun.PanicSite(stderr), fmt.Sprintf("a received proposal killed the client process: %s (case: %s)", childrun.FatalLine(stderr), last),
				map[string]any{"case": last, "stderr": childrun.FirstLines(stderr, 50)})
		},
	})
	sink.RaceSlice(r, cfg, "C08", cfg.Workers/2, nil)
	r.Assume("only proposals that survive a round trip through the native serializer are delivered (a proposal that cannot be encoded cannot arrive from the network)")
	r.Assume("'dropped' is judged after a barrier: a valid proposal from the same sender (rejected by the receiver's policy) has been answered, the bus is drained and no handler is in flight")
}

func childMain(cfg props.Cfg) int {
	em := childrun.NewEmitter()
	mode := "main"
	arg := cfg.Child
	if strings.HasPrefix(arg, "race:") {
		mode, arg = "race", strings.TrimPrefix(arg, "race:")
	} else {
		arg = strings.TrimPrefix(arg, "main:")
	}
	var w, W int
	fmt.Sscanf(arg, "%d/%d", &w, &W)
	var s sink.Sink = em
	nPos, nNeg := cfg.Pick(3000, 120000)/W+1, cfg.Pick(20000, 800000)/W+1
	if mode == "race" {
		s = sink.Prefixed{Sink: em, P: "race_slice_"}
		nPos, nNeg = nPos/4+1, nNeg/8+1
	}
	rng := gen.NewRand(cfg.Seed, fmt.Sprintf("c08/%s/%d", mode, w))
	for i := 0; i < nPos && atomic.LoadInt64(&stallsSeen) < 3 && atomic.LoadInt64(&openFailures) < 4; i++ {
		positive(s, em, rng, w == 0 && i < 2)
	}
	for done := 0; done < nNeg; {
		done += negatives(s, em, rng, w == 0 && done == 0)
	}
	em.Done()
	return 0
}

// ---------------------------------------------------------------------------------------------
// positives

type openWitness struct {
	Kind     string   `json:"kind"`
	Proposal string   `json:"proposal"`
	Problems []string `json:"problems"`
}

func randBals(rng *rand.Rand, assets int, max int64) [][]int64 {
	b := make([][]int64, assets)
	for a := range b {
		b[a] = []int64{rng.Int63n(max + 1), rng.Int63n(max + 1)}
		if rng.Intn(8) == 0 {
			b[a][rng.Intn(2)] = 0
		}
	}
	return b
}

func v0Enabled(p *party.Party, id channel.ID) *recpr.Event {
	for _, e := range p.Rec.Events() {
		if e.Kind == recpr.Enabled && e.ID == id && e.Current.State != nil && e.Current.State.Version == 0 {
			e := e
			return &e
		}
	}
	return nil
}

func compareOpening(kind string, prop client.ChannelProposal, P, Q *party.Party, chP, chQ *client.Channel) []string {
	var pr []string
	add := func(f string, a ...any) { pr = append(pr, fmt.Sprintf(f, a...)) }
	pp, pq := chP.Params(), chQ.Params()
	base := prop.Base()
	if pp.ID() != pq.ID() || chP.ID() != chQ.ID() {
		add("the two sides derived different channel IDs")
	}
	if id, err := channel.CalcID(pp); err != nil || id != pp.ID() {
		add("the proposer's channel ID is not the ID of its parameters")
	}
	if pp.ChallengeDuration != base.ChallengeDuration || pq.ChallengeDuration != base.ChallengeDuration {
		add("challenge duration differs from the proposal")
	}
	if pp.Nonce.Cmp(pq.Nonce) != 0 {
		add("nonces differ")
	}
	if canon.String(pp.App) != canon.String(pq.App) || canon.String(pp.App) != canon.String(base.App) {
		add("app differs")
	}
	if pp.Aux != base.Aux || pq.Aux != base.Aux {
		add("aux differs from the proposal")
	}
	wantLedger, wantVirtual := kind == "ledger", kind == "virtual"
	for _, x := range []*channel.Params{pp, pq} {
		if x.LedgerChannel != wantLedger || x.VirtualChannel != wantVirtual {
			add("channel type flags are ledger=%v virtual=%v for a %s channel", x.LedgerChannel, x.VirtualChannel, kind)
		}
	}
	if len(pp.Parts) != 2 || len(pq.Parts) != 2 {
		add("participant count is not 2")
	} else if kind != "sub" {
		if !pp.Parts[0][gen.B].Equal(P.Addr) || !pp.Parts[1][gen.B].Equal(Q.Addr) || !pq.Parts[0][gen.B].Equal(P.Addr) || !pq.Parts[1][gen.B].Equal(Q.Addr) {
			add("participant order is not (proposer, responder) on both sides")
		}
	}
	if chP.Idx() != 0 || chQ.Idx() != 1 {
		add("own indices are %d/%d, want 0/1", chP.Idx(), chQ.Idx())
	}
	ep, eq := v0Enabled(P, chP.ID()), v0Enabled(Q, chQ.ID())
	if ep == nil || eq == nil {
		add("a side never enabled a version-0 state")
		return pr
	}
	sp, sq := ep.Current.State, eq.Current.State
	if !bytes.Equal(gen.EncodeState(sp), gen.EncodeState(sq)) {
		add("the version-0 states of the two sides differ")
	}
	if sp.ID != pp.ID() || sp.Version != 0 || sp.IsFinal {
		add("version-0 state has wrong id/version/final flag")
	}
	if canon.String(&sp.Allocation) != canon.String(base.InitBals) {
		add("initial allocation differs from the proposed one")
	}
	if canon.String(sp.Data) != canon.String(base.InitData) {
		add("initial data differs from the proposed one")
	}
	for _, e := range []*recpr.Event{ep, eq} {
		for i, sig := range e.Current.Sigs {
			ok := false
			if sig != nil {
				ok, _ = channel.Verify(pp.Parts[i][gen.B], e.Current.State, sig)
			}
			if !ok {
				add("version-0 state at %s lacks a valid signature of participant %d", e.Owner, i)
			}
		}
	}
	return pr
}

func ledgerProposal(rng *rand.Rand, w *party.World, P, Q *party.Party, noApp bool, opts ...client.ProposalOpts) *client.LedgerChannelProposalMsg {
	assets := len(w.Assets)
	alloc := channel.NewAllocation(2, backends(assets), append([]channel.Asset(nil), w.Assets...)...)
	bals := randBals(rng, assets, 100)
	for a := range bals {
		for i := range bals[a] {
			alloc.Balances[a][i] = big.NewInt(bals[a][i])
		}
	}
	if k := rng.Intn(3); !noApp {
		switch k {
		case 1:
			opts = append(opts, client.WithApp(gen.Payment, channel.NoData()))
		case 2:
			opts = append(opts, client.WithApp(gen.DApp, gen.DataFor(rng, gen.DApp)))
		}
	}
	if rng.Intn(3) == 0 {
		opts = append(opts, client.WithAux(gen.Aux(rng)))
	}
	if rng.Intn(3) == 0 {
		fa := alloc.Balances.Clone()
		for a := range fa {
			fa[a][0], fa[a][1] = fa[a][1], fa[a][0]
		}
		opts = append(opts, client.WithFundingAgreement(fa))
	}
	prop, err := client.NewLedgerChannelProposal(uint64(1+rng.Intn(1000)), P.WAddr, alloc, []map[wallet.BackendID]wire.Address{P.Wire, Q.Wire}, opts...)
	if err != nil {
		panic(err)
	}
	return prop
}

func backends(n int) []wallet.BackendID {
	b := make([]wallet.BackendID, n)
	for i := range b {
		b[i] = gen.B
	}
	return b
}

func propose(P *party.Party, prop client.ChannelProposal) (*client.Channel, error) {
	ctx, cancel := P.Ctx()
	defer cancel()
	return P.Client.ProposeChannel(ctx, prop)
}

// stalled is a failed opening between honest clients in which nothing moved for a long time
// before the request gave up: every message had been delivered, no ledger call was in flight,
// the proposal had been accepted - the protocol is stuck, not slow.
// stallsSeen counts stalled openings in this process: after a few, the remaining positives are
// skipped (each costs the full patience; the violation is established).
var stallsSeen int64

type stallWatch struct {
	w        *party.World
	stop     chan struct{}
	done     chan struct{}
	mu       sync.Mutex
	lastMove time.Time
	start    time.Time
}

func watchStall(w *party.World) *stallWatch {
	sw := &stallWatch{w: w, stop: make(chan struct{}), done: make(chan struct{}), lastMove: time.Now(), start: time.Now()}
	go func() {
		defer close(sw.done)
		last := int64(-1)
		for {
			cur := w.Bus.Delivered()*1000003 + int64(len(w.Ledger.Calls()))
			if cur != last || !w.Bus.Drained() || !w.Ledger.Idle() {
				last = cur
				sw.mu.Lock()
				sw.lastMove = time.Now()
				sw.mu.Unlock()
			}
			select {
			case <-sw.stop:
				return
			case <-time.After(50 * time.Millisecond):
			}
		}
	}()
	return sw
}

// quietFor stops the watch and tells for how long nothing had moved and how long it watched.
func (sw *stallWatch) quietFor() (quiet, total time.Duration) {
	close(sw.stop)
	<-sw.done
	sw.mu.Lock()
	defer sw.mu.Unlock()
	return time.Since(sw.lastMove), time.Since(sw.start)
}

// openingFailed classifies a failed honest opening: stalled (violation) or inconclusive.
func openingFailed(s sink.Sink, sw *stallWatch, kind, what string, prop client.ChannelProposal, responder *party.Party, err error) {
	quiet, total := sw.quietFor()
	accepted := false
	for _, p := range responder.Proposals() {
		if p.Base().ProposalID == prop.Base().ProposalID {
			accepted = true
		}
	}
	// no message was delivered and no ledger call made during the last two thirds of the wait
	if accepted && total > 10*time.Second && quiet > total*2/3 {
		atomic.AddInt64(&stallsSeen, 1)
		s.Violation("C08/opening-stalled/"+kind, fmt.Sprintf("%s: the proposal was accepted but the opening never completed: every message had been delivered and nothing moved for %v before the request gave up (%v)", what, quiet.Round(time.Second), err),
			openWitness{Kind: kind, Proposal: trunc(canon.String(prop)), Problems: []string{err.Error()}})
		s.Case(fmt.Sprintf("positive|%s|%s", kind, canon.Shape(prop)), true)
		return
	}
	atomic.AddInt64(&openFailures, 1)
	s.Inconclusive(what + " failed: " + err.Error())
}

// openFailures counts honest openings that failed without a verdict in this process; after a few
// the remaining positives are skipped (each costs the full patience and decides nothing).
var openFailures int64

func positive(s sink.Sink, em *childrun.Emitter, rng *rand.Rand, sample bool) {
	kind := []string{"ledger", "ledger", "sub", "virtual", "nonce-differential"}[rng.Intn(5)]
	if rng.Intn(100) == 0 {
		kind = "ledger-initial-signature-lost" // each costs the short patience set below
	}
	em.Progress("positive " + kind)
	w := party.NewWorld(rng, 1+rng.Intn(3), rng.Intn(5))
	w.MultiWire = rng.Intn(3) == 0
	defer w.Close()
	A, B := w.NewParty("A", 100000), w.NewParty("B", 100000)
	report := func(prop client.ChannelProposal, problems []string) {
		s.Case(fmt.Sprintf("positive|%s|%s", kind, canon.Shape(prop)), len(problems) == 0)
		s.Count("openings_compared", 1)
		s.Seen("opening_kinds", kind)
		if len(problems) > 0 {
			s.Violation("C08/opening/"+kind, problems[0], openWitness{Kind: kind, Proposal: trunc(canon.String(prop)), Problems: problems})
		}
		if sample {
			s.Sample(map[string]any{"kind": kind, "proposal": trunc(canon.String(prop))})
		}
	}
	switch kind {
	case "ledger-initial-signature-lost":
		// One side's connection drops exactly when it sends its signature on the version-0 state
		// (it still receives the peer's). Whatever each side reports: a party that reports the
		// channel as opened, or deposits funds for it, needs a peer that holds the same fully
		// signed version-0 state.
		prop := ledgerProposal(rng, w, A, B, false)
		loser := []*party.Party{A, B}[rng.Intn(2)]
		lk := wire.Keys(loser.Wire)
		var refused int64
		w.Bus.SetSendFault(func(_ context.Context, e *wire.Envelope) error {
			if m, ok := e.Msg.(*client.ChannelUpdateAccMsg); ok && m.Version == 0 && wire.Keys(e.Sender) == lk {
				atomic.AddInt64(&refused, 1)
				return fmt.Errorf("connection closed")
			}
			return nil
		})
		A.SetTimeout(1500 * time.Millisecond)
		B.SetTimeout(1500 * time.Millisecond)
		ch, err := propose(A, prop)
		w.Bus.SetSendFault(nil)
		if !w.Quiesce() {
			s.Inconclusive("quiescence watchdog")
			return
		}
		ids := map[channel.ID]bool{}
		for _, p := range []*party.Party{A, B} {
			for _, e := range p.Rec.Events() {
				if e.Kind == recpr.Created {
					ids[e.ID] = true
				}
			}
		}
		var problems []string
		for id := range ids {
			for i, p := range []*party.Party{A, B} {
				peer := []*party.Party{B, A}[i]
				if v0Enabled(peer, id) != nil {
					continue
				}
				if i == 0 && err == nil && ch != nil && ch.ID() == id {
					problems = append(problems, fmt.Sprintf("the proposer's call reported the channel as opened although the responder never obtained the fully signed version-0 state (%s's signature could not be sent)", loser.Name))
				}
				if i == 1 && p.Channel(id) != nil && len(p.AcceptErrors()) == 0 {
					problems = append(problems, fmt.Sprintf("the responder's Accept reported the channel as opened although the proposer never obtained the fully signed version-0 state (%s's signature could not be sent)", loser.Name))
				}
				for _, c := range w.Ledger.Calls() {
					if c.Method == "Fund" && c.Channel == id && c.Account == p.Addr.String() {
						problems = append(problems, fmt.Sprintf("%s deposited funds for a channel whose fully signed version-0 state its peer never obtained", p.Name))
						break
					}
				}
			}
		}
		s.Count("openings_with_a_lost_initial_signature", 1)
		if atomic.LoadInt64(&refused) == 0 {
			s.Count("openings_with_a_lost_initial_signature_fault_not_reached", 1)
		}
		report(prop, problems)
	case "ledger":
		prop := ledgerProposal(rng, w, A, B, false)
		sw := watchStall(w)
		ch, err := propose(A, prop)
		if err != nil {
			openingFailed(s, sw, kind, "ledger opening", prop, B, err)
			return
		}
		sw.quietFor()
		chB := B.AwaitChannel(ch.ID())
		if chB == nil {
			report(prop, []string{"the responder never obtained the channel the proposer obtained"})
			return
		}
		report(prop, compareOpening(kind, prop, A, B, ch, chB))
	case "nonce-differential":
		// the same proposal between the same parties twice, with one side's nonce share changed:
		// the ID must change. Each round runs in a world of its own built from the same seed (same
		// keys, addresses and assets), so that an unchanged ID shows as such and not as a refusal
		// to open the same channel twice.
		var shareP, shareQ1, shareQ2 client.NonceShare
		rng.Read(shareP[:])
		rng.Read(shareQ1[:])
		shareQ2 = shareQ1
		shareQ2[rng.Intn(32)] ^= 1 << uint(rng.Intn(8))
		changeProposer := rng.Intn(2) == 0
		worldSeed, nAssets, noise := rng.Int63(), 1+rng.Intn(3), rng.Intn(5)
		flavour := []string{"ledger", "sub", "virtual"}[rng.Intn(3)]
		var fixedP, fixedQ client.NonceShare // shares of the parents' openings: the same in both rounds
		rng.Read(fixedP[:])
		rng.Read(fixedQ[:])
		var ids []channel.ID
		var props []client.ChannelProposal
		for round := 0; round < 2; round++ {
			sp, sq := shareP, shareQ1
			if round == 1 {
				if changeProposer {
					sp = shareQ2 // any other share
				} else {
					sq = shareQ2
				}
			}
			w2 := party.NewWorld(rand.New(rand.NewSource(worldSeed)), nAssets, noise)
			A2, B2 := w2.NewParty("A", 100000), w2.NewParty("B", 100000)
			r2 := rand.New(rand.NewSource(42)) // identical proposals apart from the nonce share
			var prop client.ChannelProposal
			fail := func(err error) {
				w2.Close()
				s.Inconclusive(flavour + " opening failed: " + err.Error())
			}
			switch flavour {
			case "ledger":
				prop = ledgerProposal(r2, w2, A2, B2, false, client.WithNonce(sp))
			case "sub":
				B2.SetAcceptNonce(&fixedQ)
				parent, err := propose(A2, ledgerProposal(r2, w2, A2, B2, true, client.WithNonce(fixedP)))
				if err != nil {
					fail(err)
					return
				}
				B2.AwaitChannel(parent.ID())
				alloc := channel.NewAllocation(2, backends(nAssets), append([]channel.Asset(nil), w2.Assets...)...)
				cur := parent.State()
				for a := range alloc.Balances {
					for i := range alloc.Balances[a] {
						alloc.Balances[a][i] = big.NewInt(r2.Int63n(cur.Balances[a][i].Int64() + 1))
					}
				}
				prop, err = client.NewSubChannelProposal(parent.ID(), uint64(1+r2.Intn(100)), alloc, client.WithNonce(sp))
				if err != nil {
					panic(err)
				}
			case "virtual":
				I2 := w2.NewParty("I", 100000)
				A2.SetAcceptNonce(&fixedQ)
				I2.SetAcceptNonce(&fixedQ)
				chA, err := propose(A2, ledgerProposal(r2, w2, A2, I2, true, client.WithNonce(fixedP)))
				if err != nil {
					fail(err)
					return
				}
				chB, err := propose(B2, ledgerProposal(r2, w2, B2, I2, true, client.WithNonce(fixedP)))
				if err != nil {
					fail(err)
					return
				}
				if I2.AwaitChannel(chA.ID()) == nil || I2.AwaitChannel(chB.ID()) == nil {
					fail(fmt.Errorf("hub did not register the parents"))
					return
				}
				alloc := channel.NewAllocation(2, backends(nAssets), append([]channel.Asset(nil), w2.Assets...)...)
				sa, sb := chA.State(), chB.State()
				for a := range alloc.Balances {
					ma := min64(sa.Balances[a][0].Int64(), sb.Balances[a][1].Int64())
					mb := min64(sb.Balances[a][0].Int64(), sa.Balances[a][1].Int64())
					alloc.Balances[a][0] = big.NewInt(r2.Int63n(ma + 1))
					alloc.Balances[a][1] = big.NewInt(r2.Int63n(mb + 1))
				}
				prop, err = client.NewVirtualChannelProposal(uint64(1+r2.Intn(100)), A2.WAddr, alloc,
					[]map[wallet.BackendID]wire.Address{A2.Wire, B2.Wire}, []channel.ID{chA.ID(), chB.ID()}, [][]channel.Index{{0, 1}, {1, 0}}, client.WithNonce(sp))
				if err != nil {
					panic(err)
				}
			}
			// the responder's share is chosen by the harness through its accept message
			B2.SetAcceptNonce(&sq)
			ch, err := propose(A2, prop)
			if err != nil {
				fail(err)
				return
			}
			B2.AwaitChannel(ch.ID())
			ids = append(ids, ch.ID())
			props = append(props, prop)
			w2.Close()
		}
		kind = "nonce-differential/" + flavour
		var pr []string
		if ids[0] == ids[1] {
			pr = append(pr, fmt.Sprintf("changing only the %s nonce share left the channel ID unchanged", map[bool]string{true: "proposer's", false: "responder's"}[changeProposer]))
		}
		report(props[0], pr)
	case "sub":
		parentProp := ledgerProposal(rng, w, A, B, true)
		parent, err := propose(A, parentProp)
		if err != nil {
			s.Inconclusive("parent opening failed: " + err.Error())
			return
		}
		if B.AwaitChannel(parent.ID()) == nil {
			s.Inconclusive("parent not registered at the peer")
			return
		}
		alloc := channel.NewAllocation(2, backends(len(w.Assets)), append([]channel.Asset(nil), w.Assets...)...)
		cur := parent.State()
		for a := range alloc.Balances {
			for i := range alloc.Balances[a] {
				alloc.Balances[a][i] = big.NewInt(rng.Int63n(cur.Balances[a][i].Int64() + 1))
			}
		}
		var opts []client.ProposalOpts
		if rng.Intn(2) == 0 {
			opts = append(opts, client.WithApp(gen.DApp, gen.DataFor(rng, gen.DApp)))
		}
		prop, err := client.NewSubChannelProposal(parent.ID(), uint64(1+rng.Intn(100)), alloc, opts...)
		if err != nil {
			panic(err)
		}
		sw := watchStall(w)
		ch, err := propose(A, prop)
		if err != nil {
			openingFailed(s, sw, kind, "sub-channel opening", prop, B, err)
			return
		}
		sw.quietFor()
		chB := B.AwaitChannel(ch.ID())
		if chB == nil {
			report(prop, []string{"the responder never obtained the sub-channel"})
			return
		}
		report(prop, compareOpening(kind, prop, A, B, ch, chB))
	case "virtual":
		I := w.NewParty("I", 100000)
		pa := ledgerProposal(rng, w, A, I, true)
		pb := ledgerProposal(rng, w, B, I, true)
		chA, err := propose(A, pa)
		if err != nil {
			s.Inconclusive("parent opening failed: " + err.Error())
			return
		}
		chB, err := propose(B, pb)
		if err != nil {
			s.Inconclusive("parent opening failed: " + err.Error())
			return
		}
		if I.AwaitChannel(chA.ID()) == nil || I.AwaitChannel(chB.ID()) == nil {
			s.Inconclusive("hub did not register the parents")
			return
		}
		// funds: Alice's from her parent balance, Bob's from his; the hub must cover the other side
		alloc := channel.NewAllocation(2, backends(len(w.Assets)), append([]channel.Asset(nil), w.Assets...)...)
		sa, sb := chA.State(), chB.State()
		for a := range alloc.Balances {
			ma := min64(sa.Balances[a][0].Int64(), sb.Balances[a][1].Int64())
			mb := min64(sb.Balances[a][0].Int64(), sa.Balances[a][1].Int64())
			alloc.Balances[a][0] = big.NewInt(rng.Int63n(ma + 1))
			alloc.Balances[a][1] = big.NewInt(rng.Int63n(mb + 1))
		}
		prop, err := client.NewVirtualChannelProposal(uint64(1+rng.Intn(100)), A.WAddr, alloc,
			[]map[wallet.BackendID]wire.Address{A.Wire, B.Wire}, []channel.ID{chA.ID(), chB.ID()}, [][]channel.Index{{0, 1}, {1, 0}})
		if err != nil {
			panic(err)
		}
		sw := watchStall(w)
		ch, err := propose(A, prop)
		if err != nil {
			openingFailed(s, sw, kind, "virtual channel opening", prop, B, err)
			return
		}
		sw.quietFor()
		chQ := B.AwaitChannelNoWatch(ch.ID())
		if chQ == nil {
			report(prop, []string{"the responder never obtained the virtual channel"})
			return
		}
		report(prop, compareOpening(kind, prop, A, B, ch, chQ))
	}
}

func min64(a, b int64) int64 {
	if a < b {
		return a
	}
	return b
}

// ---------------------------------------------------------------------------------------------
// negatives

type negWitness struct {
	Kind     string `json:"kind"`
	Mutator  string `json:"mutator"`
	Delivery string `json:"delivery"`
	Sender   string `json:"sender"`
	Proposal string `json:"proposal"`
	Detail   string `json:"detail"`
}

type mutator struct {
	name  string
	kind  string // ledger | sub | virtual
	apply func(rng *rand.Rand, a *arena, p client.ChannelProposal) bool
}

type arena struct {
	w       *party.World
	V, M, S *party.Party    // victim, counterparty of the victim's channels, stranger
	I       *party.Party    // hub
	parent  *client.Channel // ledger channel M-V (M proposer) for sub-channel proposals
	hubCh   *client.Channel // ledger channel V-I at V (V proposer, index 0)
}

func ledgerBase(p client.ChannelProposal) *client.LedgerChannelProposalMsg {
	return p.(*client.LedgerChannelProposalMsg)
}

var mutators = []mutator{
	{"one-participant", "ledger", func(rng *rand.Rand, a *arena, p client.ChannelProposal) bool {
		b := p.Base()
		for i := range b.InitBals.Balances {
			b.InitBals.Balances[i] = b.InitBals.Balances[i][:1]
			b.FundingAgreement[i] = b.FundingAgreement[i][:1]
		}
		return true
	}},
	{"three-participants", "ledger", func(rng *rand.Rand, a *arena, p client.ChannelProposal) bool {
		b := p.Base()
		for i := range b.InitBals.Balances {
			b.InitBals.Balances[i] = append(b.InitBals.Balances[i], big.NewInt(1))
			b.FundingAgreement[i] = append(b.FundingAgreement[i], big.NewInt(1))
		}
		return true
	}},
	{"duration-zero", "any", func(rng *rand.Rand, a *arena, p client.ChannelProposal) bool {
		p.Base().ChallengeDuration = 0
		return true
	}},
	{"pre-locked-allocation", "any", func(rng *rand.Rand, a *arena, p client.ChannelProposal) bool {
		b := p.Base()
		sa := gen.SubAlloc(rng, len(b.InitBals.Assets), 2, false, gen.SmallBal)
		b.InitBals.Locked = append(b.InitBals.Locked, sa)
		return true
	}},
	{"ragged-balances", "any", func(rng *rand.Rand, a *arena, p client.ChannelProposal) bool {
		b := p.Base()
		if len(b.InitBals.Balances) < 2 {
			return false
		}
		b.InitBals.Balances[1] = b.InitBals.Balances[1][:1]
		return true
	}},
	{"balance-rows!=assets", "any", func(rng *rand.Rand, a *arena, p client.ChannelProposal) bool {
		b := p.Base()
		b.InitBals.Balances = append(b.InitBals.Balances, b.InitBals.Balances[0])
		return true
	}},
	{"peers-swapped", "ledger", func(rng *rand.Rand, a *arena, p client.ChannelProposal) bool {
		l := ledgerBase(p)
		l.Peers[0], l.Peers[1] = l.Peers[1], l.Peers[0]
		return true
	}},
	{"peer-is-a-third-party", "ledger", func(rng *rand.Rand, a *arena, p client.ChannelProposal) bool {
		ledgerBase(p).Peers[1] = a.S.Wire
		return true
	}},
	{"sender-is-not-peer-0", "ledger", func(rng *rand.Rand, a *arena, p client.ChannelProposal) bool {
		ledgerBase(p).Peers[0] = a.S.Wire
		return true
	}},
	{"peer-entry-is-an-empty-address-map", "ledger", func(rng *rand.Rand, a *arena, p client.ChannelProposal) bool {
		ledgerBase(p).Peers[rng.Intn(2)] = map[wallet.BackendID]wire.Address{}
		return true
	}},
	{"both-peer-entries-are-empty-address-maps", "ledger", func(rng *rand.Rand, a *arena, p client.ChannelProposal) bool {
		l := ledgerBase(p)
		l.Peers[0], l.Peers[1] = map[wallet.BackendID]wire.Address{}, map[wallet.BackendID]wire.Address{}
		return true
	}},
	{"peer-entry-lacks-one-of-the-peer's-addresses", "ledger", func(rng *rand.Rand, a *arena, p client.ChannelProposal) bool {
		l := ledgerBase(p)
		i := rng.Intn(2)
		if len(l.Peers[i]) < 2 {
			i = 1 - i
		}
		if len(l.Peers[i]) < 2 {
			return false
		}
		m := map[wallet.BackendID]wire.Address{}
		skip := true
		for k, v := range l.Peers[i] {
			if skip {
				skip = false
				continue
			}
			m[k] = v
		}
		l.Peers[i] = m
		return true
	}},
	{"three-peers", "ledger", func(rng *rand.Rand, a *arena, p client.ChannelProposal) bool {
		l := ledgerBase(p)
		l.Peers = append(l.Peers, a.S.Wire)
		return true
	}},
	{"unknown-parent", "sub", func(rng *rand.Rand, a *arena, p client.ChannelProposal) bool {
		p.(*client.SubChannelProposalMsg).Parent = gen.ID(rng)
		return true
	}},
	{"other-asset", "sub", func(rng *rand.Rand, a *arena, p client.ChannelProposal) bool {
		b := p.Base()
		b.InitBals.Assets[rng.Intn(len(b.InitBals.Assets))] = gen.Asset(rng)
		return true
	}},
	{"asset-list-shorter", "sub", func(rng *rand.Rand, a *arena, p client.ChannelProposal) bool {
		b := p.Base()
		if len(b.InitBals.Assets) < 2 {
			return false
		}
		n := len(b.InitBals.Assets) - 1
		b.InitBals.Assets, b.InitBals.Backends, b.InitBals.Balances, b.FundingAgreement = b.InitBals.Assets[:n], b.InitBals.Backends[:n], b.InitBals.Balances[:n], b.FundingAgreement[:n]
		return true
	}},
	{"more-funds-than-parent", "sub", func(rng *rand.Rand, a *arena, p client.ChannelProposal) bool {
		b := p.Base()
		cur := a.parent.State()
		i, j := rng.Intn(len(b.InitBals.Balances)), rng.Intn(2)
		b.InitBals.Balances[i][j] = new(big.Int).Add(cur.Balances[i][j], big.NewInt(1))
		b.FundingAgreement = b.InitBals.Balances.Clone()
		return true
	}},
	{"more-funds-than-parent-behind-a-small-funding-agreement", "sub", func(rng *rand.Rand, a *arena, p client.ChannelProposal) bool {
		// the initial balances exceed the parent's funds; the (for sub-channels unused) funding
		// agreement field names small amounts
		b := p.Base()
		cur := a.parent.State()
		i, j := rng.Intn(len(b.InitBals.Balances)), rng.Intn(2)
		fa := b.InitBals.Balances.Clone()
		for x := range fa {
			for y := range fa[x] {
				fa[x][y] = big.NewInt(1)
			}
		}
		b.InitBals.Balances[i][j] = new(big.Int).Add(cur.Balances[i][j], big.NewInt(1))
		b.FundingAgreement = fa
		return true
	}},
	{"parent-of-another-peer", "sub", func(rng *rand.Rand, a *arena, p client.ChannelProposal) bool {
		// a sub-channel proposal for the victim's channel with the hub, sent by M
		p.(*client.SubChannelProposalMsg).Parent = a.hubCh.ID()
		return true
	}},
	{"funding-agreement!=balances", "virtual", func(rng *rand.Rand, a *arena, p client.ChannelProposal) bool {
		b := p.Base()
		fa := b.InitBals.Balances.Clone()
		i := rng.Intn(len(fa))
		fa[i][0] = new(big.Int).Add(fa[i][0], big.NewInt(1))
		b.FundingAgreement = fa
		return true
	}},
	{"funding-agreement-redistributed-same-sums", "virtual", func(rng *rand.Rand, a *arena, p client.ChannelProposal) bool {
		// per-asset sums are kept: only who funds how much differs from the initial balances
		b := p.Base()
		fa := b.InitBals.Balances.Clone()
		for i := range fa {
			for j := 0; j < 2; j++ {
				if fa[i][j].Sign() > 0 {
					fa[i][j] = new(big.Int).Sub(fa[i][j], big.NewInt(1))
					fa[i][1-j] = new(big.Int).Add(fa[i][1-j], big.NewInt(1))
					b.FundingAgreement = fa
					return true
				}
			}
		}
		return false
	}},
	{"funding-agreement-row-missing", "virtual", func(rng *rand.Rand, a *arena, p client.ChannelProposal) bool {
		b := p.Base()
		if len(b.InitBals.Balances) < 2 {
			return false
		}
		b.FundingAgreement = b.InitBals.Balances.Clone()[:len(b.InitBals.Balances)-1]
		return true
	}},
	{"no-parents", "virtual", func(rng *rand.Rand, a *arena, p client.ChannelProposal) bool {
		p.(*client.VirtualChannelProposalMsg).Parents = nil
		return true
	}},
	{"one-parent", "virtual", func(rng *rand.Rand, a *arena, p client.ChannelProposal) bool {
		v := p.(*client.VirtualChannelProposalMsg)
		v.Parents = v.Parents[:1]
		return true
	}},
	{"three-parents", "virtual", func(rng *rand.Rand, a *arena, p client.ChannelProposal) bool {
		v := p.(*client.VirtualChannelProposalMsg)
		v.Parents = append(v.Parents, gen.ID(rng))
		return true
	}},
	{"unknown-parent-for-receiver", "virtual", func(rng *rand.Rand, a *arena, p client.ChannelProposal) bool {
		p.(*client.VirtualChannelProposalMsg).Parents[1] = gen.ID(rng)
		return true
	}},
	{"one-index-map", "virtual", func(rng *rand.Rand, a *arena, p client.ChannelProposal) bool {
		v := p.(*client.VirtualChannelProposalMsg)
		v.IndexMaps = v.IndexMaps[:1]
		return true
	}},
	{"three-index-maps", "virtual", func(rng *rand.Rand, a *arena, p client.ChannelProposal) bool {
		v := p.(*client.VirtualChannelProposalMsg)
		v.IndexMaps = append(v.IndexMaps, []channel.Index{0, 1})
		return true
	}},
	{"index-map-entry-out-of-range", "virtual", func(rng *rand.Rand, a *arena, p client.ChannelProposal) bool {
		v := p.(*client.VirtualChannelProposalMsg)
		v.IndexMaps[1] = []channel.Index{channel.Index(2 + rng.Intn(5)), 0}
		return true
	}},
	{"index-map-too-short", "virtual", func(rng *rand.Rand, a *arena, p client.ChannelProposal) bool {
		v := p.(*client.VirtualChannelProposalMsg)
		v.IndexMaps[1] = v.IndexMaps[1][:1]
		return true
	}},
	{"index-map-too-long", "virtual", func(rng *rand.Rand, a *arena, p client.ChannelProposal) bool {
		v := p.(*client.VirtualChannelProposalMsg)
		v.IndexMaps[1] = append(v.IndexMaps[1], 0)
		return true
	}},
	{"funds>parent", "virtual", func(rng *rand.Rand, a *arena, p client.ChannelProposal) bool {
		b := p.Base()
		cur := a.hubCh.State()
		i := rng.Intn(len(b.InitBals.Balances))
		// the receiver (virtual participant 1) maps to its parent index 0
		b.InitBals.Balances[i][1] = new(big.Int).Add(cur.Balances[i][0], big.NewInt(1))
		b.FundingAgreement = b.InitBals.Balances.Clone()
		return true
	}},
	{"hub-share>hub-balance-in-parent", "virtual", func(rng *rand.Rand, a *arena, p client.ChannelProposal) bool {
		// what the hub has to put up in the receiver's parent (the proposer's share, virtual
		// participant 0 -> parent index 1) exceeds the hub's balance there
		b := p.Base()
		cur := a.hubCh.State()
		i := rng.Intn(len(b.InitBals.Balances))
		b.InitBals.Balances[i][0] = new(big.Int).Add(cur.Balances[i][1], big.NewInt(1))
		b.FundingAgreement = b.InitBals.Balances.Clone()
		return true
	}},
	{"other-asset", "virtual", func(rng *rand.Rand, a *arena, p client.ChannelProposal) bool {
		b := p.Base()
		b.InitBals.Assets[rng.Intn(len(b.InitBals.Assets))] = gen.Asset(rng)
		return true
	}},
}

func newArena(rng *rand.Rand) (*arena, string) {
	a := &arena{}
	a.w = party.NewWorld(rng, 1+rng.Intn(2), rng.Intn(3))
	a.w.MultiWire = rng.Intn(3) == 0
	a.V, a.M, a.S, a.I = a.w.NewParty("V", 100000), a.w.NewParty("M", 100000), a.w.NewParty("S", 100000), a.w.NewParty("I", 100000)
	pp := ledgerProposal(rng, a.w, a.M, a.V, true)
	for i := range pp.InitBals.Balances {
		// asymmetric on purpose: checks that compare against the wrong participant must show
		pp.InitBals.Balances[i] = []channel.Bal{big.NewInt(int64(25 + rng.Intn(60))), big.NewInt(int64(25 + rng.Intn(60)))}
	}
	pp.FundingAgreement = pp.InitBals.Balances.Clone()
	chM, err := propose(a.M, pp)
	if err != nil {
		return nil, err.Error()
	}
	a.parent = a.V.AwaitChannel(chM.ID())
	ph := ledgerProposal(rng, a.w, a.V, a.I, true)
	for i := range ph.InitBals.Balances {
		ph.InitBals.Balances[i] = []channel.Bal{big.NewInt(int64(25 + rng.Intn(60))), big.NewInt(int64(25 + rng.Intn(60)))}
	}
	ph.FundingAgreement = ph.InitBals.Balances.Clone()
	a.hubCh, err = propose(a.V, ph)
	if err != nil {
		return nil, err.Error()
	}
	if a.parent == nil || a.I.AwaitChannel(a.hubCh.ID()) == nil {
		return nil, "channels not registered"
	}
	return a, ""
}

// template builds a well-formed proposal of the kind from M to V.
func (a *arena) template(rng *rand.Rand, kind string) client.ChannelProposal {
	switch kind {
	case "ledger":
		return ledgerProposal(rng, a.w, a.M, a.V, false)
	case "sub":
		alloc := channel.NewAllocation(2, backends(len(a.w.Assets)), append([]channel.Asset(nil), a.w.Assets...)...)
		for i := range alloc.Balances {
			alloc.Balances[i] = []channel.Bal{big.NewInt(int64(rng.Intn(20))), big.NewInt(int64(rng.Intn(20)))}
		}
		p, err := client.NewSubChannelProposal(a.parent.ID(), uint64(1+rng.Intn(100)), alloc)
		if err != nil {
			panic(err)
		}
		return p
	default:
		alloc := channel.NewAllocation(2, backends(len(a.w.Assets)), append([]channel.Asset(nil), a.w.Assets...)...)
		for i := range alloc.Balances {
			alloc.Balances[i] = []channel.Bal{big.NewInt(int64(rng.Intn(20))), big.NewInt(int64(rng.Intn(20)))}
		}
		// M claims a parent of its own with the hub (the receiver cannot check it); V's parent is hubCh (V has index 0 there)
		p, err := client.NewVirtualChannelProposal(uint64(1+rng.Intn(100)), a.M.WAddr, alloc,
			[]map[wallet.BackendID]wire.Address{a.M.Wire, a.V.Wire}, []channel.ID{gen.ID(rng), a.hubCh.ID()}, [][]channel.Index{{0, 1}, {1, 0}})
		if err != nil {
			panic(err)
		}
		return p
	}
}

// negatives runs one arena with a batch of mutated proposals; returns the number of cases.
func negatives(s sink.Sink, em *childrun.Emitter, rng *rand.Rand, sample bool) int {
	a, msg := newArena(rng)
	if a == nil {
		s.Inconclusive("arena setup failed: " + msg)
		return 1
	}
	defer a.w.Close()
	// the victim rejects every proposal it is asked about (so nothing is created by valid ones
	// either) and records the invocation
	a.V.SetProposalPolicy(func(client.ChannelProposal) bool { return false })
	chansBefore := len(a.V.Rec.Events())
	_ = chansBefore
	type sent struct {
		id       client.ProposalID
		kind     string
		mut      string
		delivery string
		prop     client.ChannelProposal
		control  bool
	}
	var batch []sent
	n := 0
	deliver := func(kind, mut, delivery string, prop client.ChannelProposal, sender *party.Party, control bool) {
		env := &wire.Envelope{Sender: sender.Wire, Recipient: a.V.Wire, Msg: prop}
		// only what the network can carry
		var buf bytes.Buffer
		if err := safely(func() error { return codecs.Native.Encode(&buf, env) }); err != nil {
			s.Count("not_encodable_skipped", 1)
			return
		}
		switch delivery {
		case "native", "protobuf":
			ser := codecs.Native
			if delivery == "protobuf" {
				ser = codecs.Proto
			}
			var b bytes.Buffer
			if err := safely(func() error { return ser.Encode(&b, env) }); err != nil {
				s.Count("not_encodable_skipped", 1)
				return
			}
			d, err := ser.Decode(&b)
			if err != nil {
				s.Count("not_decodable_skipped", 1)
				return
			}
			env = d
		}
		em.Progress(fmt.Sprintf("negative %s/%s via %s", kind, mut, delivery))
		a.w.Bus.Inject(env)
		batch = append(batch, sent{prop.Base().ProposalID, kind, mut, delivery, prop, control})
		n++
	}
	for _, m := range mutators {
		kinds := []string{m.kind}
		if m.kind == "any" {
			kinds = []string{"ledger", "sub", "virtual"}
		}
		for _, kind := range kinds {
			for _, delivery := range []string{"object", "native", "protobuf"} {
				if delivery != "object" && rng.Intn(2) == 0 {
					continue
				}
				prop := a.template(rng, kind)
				ok := false
				if err := safely(func() error { ok = m.apply(rng, a, prop); return nil }); err != nil || !ok {
					continue
				}
				deliver(kind, m.name, delivery, prop, a.M, false)
			}
		}
	}
	// controls: well-formed proposals must reach the handler (otherwise the harness proves nothing)
	for _, kind := range []string{"ledger", "sub", "virtual"} {
		deliver(kind, "control-unmutated", "object", a.template(rng, kind), a.M, true)
	}
	// a stranger proposing a sub-channel of the victim's channel with M
	{
		prop := a.template(rng, "sub")
		deliver("sub", "sender-is-not-the-parent's-peer", "object", prop, a.S, false)
	}
	// barrier: a valid ledger proposal from M, answered (rejected) by V's handler
	em.Progress("barrier")
	if _, err := propose(a.M, a.template(rng, "ledger")); err == nil {
		s.Inconclusive("barrier proposal was not rejected")
	}
	if !a.w.Quiesce() {
		s.Inconclusive("quiescence watchdog")
		return n
	}
	// give dispatched handler goroutines of the library a moment; then quiesce again
	time.Sleep(2 * time.Millisecond)
	a.w.Quiesce()
	seen := map[client.ProposalID]bool{}
	for _, p := range a.V.Proposals() {
		seen[p.Base().ProposalID] = true
	}
	created := map[channel.ID]bool{}
	for _, e := range a.V.Rec.Events() {
		if e.Kind == recpr.Created {
			created[e.ID] = true
		}
	}
	for _, b := range batch {
		desc := fmt.Sprintf("negative|%s|%s|%s", b.kind, b.mut, b.delivery)
		if b.control {
			if !seen[b.id] {
				s.Inconclusive("control proposal (" + b.kind + ") did not reach the handler")
			} else {
				s.Count("controls_reached_handler", 1)
			}
			continue
		}
		s.Case(desc, true)
		s.Seen("negative_mutators", b.kind+"/"+b.mut)
		s.Count("bad_proposals_delivered", 1)
		if seen[b.id] {
			s.Violation("C08/not-dropped/"+b.kind+"/"+b.mut, fmt.Sprintf("the proposal handler was invoked for a %s-channel proposal violating: %s (delivered as %s)", b.kind, b.mut, b.delivery),
				negWitness{Kind: b.kind, Mutator: b.mut, Delivery: b.delivery, Sender: "M", Proposal: trunc(canon.String(b.prop)), Detail: "handler invoked"})
		} else {
			s.Count("bad_proposals_dropped", 1)
		}
	}
	// the only channels V ever created are the two of the arena
	if len(created) != 2 {
		s.Violation("C08/channel-created", fmt.Sprintf("the victim created %d channels, the arena has 2", len(created)), negWitness{Detail: "channel created from a bad proposal"})
	}
	if sample {
		s.Sample(map[string]any{"negative_batch": n, "example": fmt.Sprintf("%s/%s via %s", batch[0].kind, batch[0].mut, batch[0].delivery)})
	}
	return n
}

func safely(f func() error) (err error) {
	defer func() {
		if p := recover(); p != nil {
			err = fmt.Errorf("panic: %v", p)
		}
	}()
	return f()
}

func trunc(s string) string {
	if len(s) > 3000 {
		return s[:3000] + "..."
	}
	return s
}
