// Package c14: encode/decode round trip, exact consumption, serializer agreement, stability.
package c14

import (
	"bytes"
	"fmt"
	"strings"
	"sync"

	"perun.network/go-perun/wire"

	"verif/internal/canon"
	"verif/internal/codecs"
	"verif/internal/ev"
	"verif/internal/gen"
	"verif/props"
)

func init() {
	props.Register(props.Entry{
		ID:    "C14",
		Level: "exploration",
		Rule: "values of every wire type (16 value codecs, 17 message types natively and through both envelope serializers) from structured generators; " +
			"a case is (codec, structural shape of the value: nesting, slice/map/byte-string lengths, nil-ness, bigint byte lengths); non-trivial iff the shape has at least one non-empty slice, map or non-nil pointer field",
		Run: run,
	})
}

type witness struct {
	Codec string `json:"codec"`
	Index int    `json:"index"`
	Value string `json:"value"`
	Enc   string `json:"encoding_hex,omitempty"`
}

func run(r *ev.Run, cfg props.Cfg) {
	n := cfg.Pick(1200, 20000)
	all := append([]codecs.Codec{}, codecs.Values...)
	all = append(all, codecs.Msgs()...)
	all = append(all, codecs.Envelopes(codecs.Native, "NativeEnv")...)
	all = append(all, codecs.Envelopes(codecs.Proto, "ProtoEnv")...)
	var wg sync.WaitGroup
	sem := make(chan struct{}, cfg.Workers)
	for _, c := range all {
		c := c
		wg.Add(1)
		sem <- struct{}{}
		go func() {
			defer wg.Done()
			defer func() { <-sem }()
			checkCodec(r, cfg, c, n)
		}()
	}
	wg.Wait()
	r.Assume("only backend 0 (sim) exists, so address maps have at most one entry and map iteration order cannot influence encodings")
	r.Assume("an explicit encode error of the protobuf serializer for envelopes above its 64 KiB frame is outside its domain (counted as abstained)")
}

func nontrivial(shape string) bool {
	// any non-empty slice "[k:" with k>0, map m1.., byte string x>0 or bigint
	for i := 0; i+1 < len(shape); i++ {
		if (shape[i] == '[' || shape[i] == 'm' || shape[i] == 'x' || shape[i] == 'i') && shape[i+1] >= '1' && shape[i+1] <= '9' {
			return true
		}
	}
	return false
}

func checkCodec(r *ev.Run, cfg props.Cfg, c codecs.Codec, n int) {
	rng := gen.NewRand(cfg.Seed, "c14/"+c.Name)
	isProto := strings.HasPrefix(c.Name, "ProtoEnv")
	opts := gen.MsgOpts{}
	var prevEnc []byte
	var prevVal any
	for i := 0; i < n; i++ {
		o := opts
		if isProto && rng.Intn(4) != 0 {
			o.Small = true
		}
		v := c.Gen(rng, o)
		sh := canon.Shape(v)
		r.Case(c.Name+"|"+sh, nontrivial(sh))
		if i == 0 && (c.Name == "State" || c.Name == "NativeEnv/ChannelUpdate" || c.Name == "ProtoEnv/VirtualChannelProposal") {
			r.Sample(map[string]any{"codec": c.Name, "shape": sh, "value": trunc(canon.String(v), 600)})
		}
		fail := func(class, what string, enc []byte) {
			r.Violation("C14/"+class+"/"+c.Name, what, witness{Codec: c.Name, Index: i, Value: trunc(canon.String(v), 4000), Enc: hexTrunc(enc)})
		}
		var buf bytes.Buffer
		if err := safely(func() error { return c.Enc(v, &buf) }); err != nil {
			if isProto && strings.Contains(err.Error(), "out of bounds") {
				r.Count("abstained_proto_frame_limit", 1)
				continue
			}
			fail("encode-error", fmt.Sprintf("encoding a well-formed value failed: %v", err), nil)
			continue
		}
		enc := append([]byte(nil), buf.Bytes()...)
		r.Count("bytes_encoded", int64(len(enc)))
		r.Max("max_encoding_len", int64(len(enc)))

		// (1) round trip + (2) exact consumption inside a longer stream.
		trailer := []byte{0xa5, 0x5a, 0xff, 0x00, 0x17}
		var stream []byte
		stream = append(stream, enc...)
		second := enc
		if prevEnc != nil {
			second = prevEnc
		}
		stream = append(stream, second...)
		stream = append(stream, trailer...)
		rd := bytes.NewReader(stream)
		var d1, d2 any
		if err := safely(func() (e error) { d1, e = c.Dec(rd); return }); err != nil {
			fail("decode-error", fmt.Sprintf("decoding its own encoding failed: %v", err), enc)
			continue
		}
		if got := len(stream) - rd.Len(); got != len(enc) {
			fail("consumption", fmt.Sprintf("decoder consumed %d bytes of a %d byte encoding", got, len(enc)), enc)
			continue
		}
		if err := safely(func() (e error) { d2, e = c.Dec(rd); return }); err != nil {
			fail("decode-second", fmt.Sprintf("decoding the second value of a stream failed: %v", err), enc)
			continue
		}
		rest := make([]byte, rd.Len())
		_, _ = rd.Read(rest)
		if !bytes.Equal(rest, trailer) {
			fail("consumption", fmt.Sprintf("after two values the stream has %d bytes left, want the %d byte trailer", len(rest), len(trailer)), enc)
			continue
		}
		want2 := v
		if prevVal != nil {
			want2 = prevVal
		}
		if a, b := canon.String(want2), canon.String(d2); a != b {
			fail("roundtrip", "second value of a stream decoded to a different value: "+diff(a, b), enc)
		}
		r.Count("stream_pairs_decoded", 1)

		if a, b := canon.String(v), canon.String(d1); a != b {
			fail("roundtrip", "decoded value differs structurally: "+diff(a, b), enc)
			continue
		}
		if c.Equal != nil {
			if err := safely(func() error { return c.Equal(v, d1) }); err != nil {
				fail("roundtrip-equal", fmt.Sprintf("type's own Equal rejects the decoded value: %v", err), enc)
				continue
			}
		}
		// (3) stability: enc(dec(enc v)) == enc(v)
		var buf2 bytes.Buffer
		if err := safely(func() error { return c.Enc(d1, &buf2) }); err != nil {
			fail("reencode-error", fmt.Sprintf("re-encoding the decoded value failed: %v", err), enc)
			continue
		}
		if !isProto && !bytes.Equal(buf2.Bytes(), enc) {
			fail("stability", "re-encoding the decoded value gives different bytes", enc)
			continue
		}
		// (4) serializer agreement: native encoding of the protobuf round-tripped envelope.
		if isProto {
			var n1, n2 bytes.Buffer
			e1 := safely(func() error { return codecs.Native.Encode(&n1, v.(*wire.Envelope)) })
			e2 := safely(func() error { return codecs.Native.Encode(&n2, d1.(*wire.Envelope)) })
			if e1 != nil || e2 != nil {
				fail("agreement", fmt.Sprintf("native encoding failed: original %v, protobuf round-tripped %v", e1, e2), enc)
				continue
			}
			if !bytes.Equal(n1.Bytes(), n2.Bytes()) {
				fail("agreement", "native encoding of the protobuf round-tripped envelope differs from the native encoding of the original", enc)
				continue
			}
			r.Count("serializer_agreements_checked", 1)
		}
		prevEnc, prevVal = enc, v
	}
}

func safely(f func() error) (err error) {
	defer func() {
		if p := recover(); p != nil {
			err = fmt.Errorf("panic: %v", p)
		}
	}()
	return f()
}

func trunc(s string, n int) string {
	if len(s) > n {
		return s[:n] + "..."
	}
	return s
}

func hexTrunc(b []byte) string {
	if len(b) > 2048 {
		b = b[:2048]
	}
	return fmt.Sprintf("%x", b)
}

// diff shows the first position at which two canonical strings differ.
func diff(a, b string) string {
	i := 0
	for i < len(a) && i < len(b) && a[i] == b[i] {
		i++
	}
	lo := i - 60
	if lo < 0 {
		lo = 0
	}
	return fmt.Sprintf("at offset %d: want ...%s  got ...%s", i, trunc(a[lo:], 160), trunc(b[lo:], 160))
}
