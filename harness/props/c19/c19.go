// Package c19: clones are equal to, and share no mutable memory with, their originals.
package c19

import (
	"crypto/elliptic"
	"fmt"
	"math/big"
	"math/rand"
	"reflect"
	"sync"

	"perun.network/go-perun/channel"
	"perun.network/go-perun/channel/persistence"
	"perun.network/go-perun/log"
	"perun.network/go-perun/wallet"

	"verif/internal/canon"
	"verif/internal/ev"
	"verif/internal/gen"
	"verif/internal/mexplore"
	"verif/internal/ptrgraph"
	"verif/props"
)

func init() {
	props.Register(props.Entry{
		ID:    "C19",
		Level: "exploration",
		Rule: "generated values of every cloneable type (State, Allocation, Balances, Params, Transaction, CloneBals/CloneIndexMap/CloneSigs/CloneAddresses, persistence.CloneSource/FromSource, StateMachine.Clone, ActionMachine.Clone) incl. nil and empty slices, partial signature sets, index maps, and machines in every phase reached by random walks; " +
			"for each: (1) clone must render equal, (2) a reflect/unsafe walk must find no memory region (slice backing array, map, pointee, big.Int words) reachable from both outside the documented shared set (App, Asset, accounts, logger), (3) scribbling over every leaf of either side must not change the other side's rendering, (4) for machines, further operations on either side must not change the other. " +
			"A case is (type, structural shape); non-trivial iff the value has >= 1 non-empty slice, map or non-nil pointer field",
		Run: run,
	})
}

var (
	appT     = reflect.TypeOf((*channel.App)(nil)).Elem()
	stateAT  = reflect.TypeOf((*channel.StateApp)(nil)).Elem()
	actionAT = reflect.TypeOf((*channel.ActionApp)(nil)).Elem()
	appIDT   = reflect.TypeOf((*channel.AppID)(nil)).Elem()
	assetT   = reflect.TypeOf((*channel.Asset)(nil)).Elem()
	curveT   = reflect.TypeOf((*elliptic.Curve)(nil)).Elem()
	embedT   = reflect.TypeOf(log.Embedding{})
	accMapT  = reflect.TypeOf(map[wallet.BackendID]wallet.Account{})
	accT     = reflect.TypeOf((*wallet.Account)(nil)).Elem()
)

// skip is the documented shared set: app definitions, asset identifiers, signing accounts,
// the logger (and the elliptic curve singleton inside addresses).
func skip(path string, t reflect.Type) bool {
	switch t {
	case appT, stateAT, actionAT, appIDT, assetT, curveT, embedT, accMapT, accT:
		return true
	}
	return false
}

type witness struct {
	Type   string   `json:"type"`
	Value  string   `json:"value"`
	Shared []string `json:"shared_regions,omitempty"`
	Detail string   `json:"detail,omitempty"`
}

// subject is one cloneable value: mk builds a pointer to a fresh clone of the original.
type subject struct {
	typ   string
	orig  any        // pointer to the original
	clone func() any // returns a pointer to a new clone of orig
	equal func(a, b any) error
}

func checkSubject(r *ev.Run, s subject) {
	sh := canon.Shape(s.orig)
	r.Case(s.typ+"|"+sh, nontrivial(sh))
	before := canon.String(s.orig)
	fail := func(class, detail string, shared []string) {
		if len(shared) > 10 {
			shared = shared[:10]
		}
		r.Violation("C19/"+class+"/"+s.typ, s.typ+": "+detail, witness{Type: s.typ, Value: trunc(before), Shared: shared, Detail: detail})
	}
	var c1 any
	if p := safely(func() { c1 = s.clone() }); p != nil {
		fail("clone-panic", fmt.Sprintf("Clone panicked: %v", p), nil)
		return
	}
	// (1) equality
	if got := canon.String(c1); got != before {
		fail("not-equal", "clone does not render equal to the original: "+diff(before, got), nil)
		return
	}
	if s.equal != nil {
		if err := s.equal(s.orig, c1); err != nil {
			fail("not-equal", fmt.Sprintf("the type's Equal rejects the clone: %v", err), nil)
		}
	}
	// (2) pointer graph
	if shared := ptrgraph.Shared(s.orig, c1, skip); len(shared) > 0 {
		fail("shared-memory", fmt.Sprintf("%d memory regions are reachable from both original and clone, e.g. %s", len(shared), shared[0]), shared)
	}
	r.Count("regions_compared", int64(len(ptrgraph.Regions(s.orig, skip))))
	// (3) scribble over the clone, the original must not change
	n := ptrgraph.Scribble(c1, skip)
	r.Count("leaves_scribbled", int64(n))
	if after := canon.String(s.orig); after != before {
		fail("mutation-visible", "modifying the clone changed the original: "+diff(before, after), nil)
		return
	}
	// and the other way round, with a second clone
	var c2 any
	if p := safely(func() { c2 = s.clone() }); p != nil {
		fail("clone-panic", fmt.Sprintf("second Clone panicked: %v", p), nil)
		return
	}
	ptrgraph.Scribble(s.orig, skip)
	if after := canon.String(c2); after != before {
		fail("mutation-visible", "modifying the original changed the clone: "+diff(before, after), nil)
	}
}

func run(r *ev.Run, cfg props.Cfg) {
	n := cfg.Pick(20000, 300000)
	var wg sync.WaitGroup
	per := (n + cfg.Workers - 1) / cfg.Workers
	for w := 0; w < cfg.Workers; w++ {
		w := w
		wg.Add(1)
		go func() {
			defer wg.Done()
			rng := gen.NewRand(cfg.Seed, fmt.Sprintf("c19/%d", w))
			for i := 0; i < per; i++ {
				for _, s := range subjects(r, rng, i) {
					r.Seen("types", s.typ)
					checkSubject(r, s)
					if w == 0 && i == 0 && r.WantSample() {
						r.Sample(map[string]any{"type": s.typ, "shape": canon.Shape(s.orig)})
					}
				}
			}
		}()
	}
	wg.Wait()
	r.Assume("shared by design and therefore not followed: App/AppID, Asset, signing accounts, the logger, the elliptic-curve singleton inside sim addresses")
	r.Assume("FromSource's peers and parent arguments are handed in by the caller and are not part of the clone claim")
}

func shapeOf(rng *rand.Rand) gen.Shape {
	s := gen.RandShape(rng, 2+rng.Intn(3))
	if s.Assets > 6 {
		s.Assets = 1 + rng.Intn(4)
	}
	if s.Locked > 6 {
		s.Locked = rng.Intn(4)
	}
	return s
}

// emptyLocked leaves the allocation with an empty Locked slice that still owns a backing array:
// what a parent channel looks like after all its sub-channels were settled.
func emptyLocked(rng *rand.Rand, a *channel.Allocation) {
	a.Locked = nil
	k := 1 + rng.Intn(3)
	var ids []channel.ID
	for i := 0; i < k; i++ {
		sa := gen.SubAlloc(rng, len(a.Assets), 2, false, func(r *rand.Rand) *big.Int { return big.NewInt(int64(1 + r.Intn(9))) })
		ids = append(ids, sa.ID)
		a.AddSubAlloc(sa)
	}
	for i, id := range ids {
		_ = a.RemoveSubAlloc(a.Locked[indexOfSub(a, id)])
		_ = i
	}
}

func indexOfSub(a *channel.Allocation, id channel.ID) int {
	for i := range a.Locked {
		if a.Locked[i].ID == id {
			return i
		}
	}
	return 0
}

// subjects returns one value of the i-th kind (round robin over kinds so that every kind
// gets its share of the budget).
func subjects(r *ev.Run, rng *rand.Rand, i int) []subject {
	n := 2 + rng.Intn(3)
	ps := gen.Parties(rng, n)
	app := gen.AppKind(rng.Intn(3))
	p := gen.Params(rng, ps, gen.AppOf(app))
	sh := shapeOf(rng)
	sh.Parts = n
	switch i % 10 {
	case 0:
		st := gen.State(rng, p, sh)
		if rng.Intn(6) == 0 {
			emptyLocked(rng, &st.Allocation)
		}
		return []subject{{"State", st, func() any { return st.Clone() }, func(a, b any) error { return a.(*channel.State).Equal(b.(*channel.State)) }}}
	case 1:
		a := gen.Allocation(rng, sh)
		switch rng.Intn(7) {
		case 6:
			emptyLocked(rng, a)
		case 0:
			a.Locked = []channel.SubAlloc{} // empty, not nil
		case 1:
			if len(a.Locked) > 0 {
				a.Locked[0].IndexMap = nil
			}
		}
		return []subject{{"Allocation", a, func() any { c := a.Clone(); return &c }, func(x, y any) error { return x.(*channel.Allocation).Equal(y.(*channel.Allocation)) }}}
	case 2:
		b := gen.Allocation(rng, sh).Balances
		if rng.Intn(10) == 0 {
			b = channel.Balances{}
		}
		bals := append([]channel.Bal(nil), gen.Allocation(rng, sh).Balances[0]...)
		im := gen.IndexMapN(rng, rng.Intn(4), 3)
		if rng.Intn(4) == 0 {
			im = nil
		}
		sigs := gen.Transaction(gen.State(rng, p, sh), ps, rng.Uint64()).Sigs
		addrs := p.Parts
		return []subject{
			{"Balances", &b, func() any { c := b.Clone(); return &c }, func(x, y any) error { return x.(*channel.Balances).AssertEqual(*y.(*channel.Balances)) }},
			{"CloneBals", &bals, func() any { c := channel.CloneBals(bals); return &c }, nil},
			{"CloneIndexMap", &im, func() any { c := channel.CloneIndexMap(im); return &c }, nil},
			{"CloneSigs", &sigs, func() any { c := wallet.CloneSigs(sigs); return &c }, nil},
			{"CloneAddresses", &addrs, func() any { c := channel.CloneAddresses(addrs); return &c }, nil},
		}
	case 3:
		return []subject{{"Params", p, func() any { return p.Clone() }, nil}}
	case 4:
		tx := gen.Transaction(gen.State(rng, p, sh), ps, rng.Uint64())
		switch rng.Intn(9) {
		case 8:
			emptyLocked(rng, &tx.State.Allocation)
		case 0:
			tx = channel.Transaction{}
		case 1:
			tx.Sigs = nil
		}
		return []subject{{"Transaction", &tx, func() any { c := tx.Clone(); return &c }, nil}}
	case 5, 6, 7, 8:
		// machines in phases reached by random walks
		idx := rng.Intn(n)
		w := mexplore.NewWorld(rng, n, idx, app, 1+rng.Intn(2))
		walk := func() *mexplore.Exec {
			return mexplore.RandomWalk(w, rng, 1+rng.Intn(25), mexplore.Plain{StateMachine: w.NewMachine()}, nil)
		}
		e := walk()
		m := e.D.(mexplore.Plain).StateMachine
		r.Seen("machine_phases_cloned", m.Phase().String())
		switch i % 10 {
		case 5:
			return []subject{{"StateMachine", m, func() any { return m.Clone() }, nil}}
		case 6:
			return []subject{{"CloneSource", sourceOf(m), func() any { return sourceOf(persistence.CloneSource(m)) }, nil}}
		case 7:
			// FromSource must detach from every kind of source: a live machine, the result of
			// CloneSource, channel data as a Restorer hands it out
			var from channel.Source = m
			switch rng.Intn(3) {
			case 1:
				from = persistence.CloneSource(m)
				r.Count("FromSource_of_a_CloneSource_result", 1)
			case 2:
				from = persistence.FromSource(m, nil, nil)
				r.Count("FromSource_of_channel_data", 1)
			}
			return []subject{{"FromSource", sourceOf(from), func() any { c := persistence.FromSource(from, nil, nil); return sourceOf(c) }, nil}}
		default:
			machineOps(r, w, e, rng)
			return nil
		}
	default:
		// ActionMachine with staged actions
		init := gen.Allocation(rng, gen.Shape{Assets: 1 + rng.Intn(2), Parts: n, Small: true})
		aapp := gen.NewActApp(rng, *init)
		ap := gen.Params(rng, ps, aapp)
		idx := rng.Intn(n)
		am, err := channel.NewActionMachine(ps[idx].AccMap(), *ap)
		if err != nil {
			panic(err)
		}
		steps := rng.Intn(6)
		act := func() {
			b := make([]byte, rng.Intn(5))
			rng.Read(b)
			_ = am.AddAction(channel.Index(rng.Intn(n)), &gen.BytesAction{B: b})
		}
		signAll := func() {
			for k := range ps {
				if am.StagingState() != nil {
					_ = am.AddSig(channel.Index(k), gen.Sign(ps[k], am.StagingState()))
				}
			}
		}
		if steps > 0 {
			act()
		}
		if steps > 1 {
			_ = am.Init()
		}
		if steps > 2 {
			signAll()
			_ = am.EnableInit()
			_ = am.SetFunded()
		}
		if steps > 3 {
			act()
			act()
		}
		if steps > 4 {
			_ = am.Update()
			if rng.Intn(2) == 0 {
				signAll()
			}
		}
		r.Seen("action_machine_phases_cloned", am.Phase().String())
		return []subject{{"ActionMachine", am, func() any { return am.Clone() }, nil}}
	}
}

// src is a harness-side rendering of a channel.Source as a plain struct (pointer-walkable).
type src struct {
	Idx     channel.Index
	Params  *channel.Params
	Staging channel.Transaction
	Current channel.Transaction
	Phase   channel.Phase
}

func sourceOf(s channel.Source) *src {
	return &src{s.Idx(), s.Params(), s.StagingTX(), s.CurrentTX(), s.Phase()}
}

// machineOps: after cloning, further operations on one machine must not be observable on the other.
func machineOps(r *ev.Run, w *mexplore.World, e *mexplore.Exec, rng *rand.Rand) {
	m := e.D.(mexplore.Plain).StateMachine
	desc := fmt.Sprintf("machine-ops|%v|n%d", m.Phase(), w.N())
	r.Case(desc+canon.Shape(sourceOf(m)), true)
	r.Seen("types", "StateMachine/further-operations")
	before := canon.String(sourceOf(m))
	var c *channel.StateMachine
	if p := safely(func() { c = m.Clone() }); p != nil {
		r.Violation("C19/clone-panic/StateMachine", fmt.Sprintf("StateMachine.Clone panicked: %v", p), witness{Type: "StateMachine", Value: trunc(before)})
		return
	}
	drive := func(target *channel.StateMachine) string {
		ex := mexplore.NewExec(w, mexplore.Plain{StateMachine: target})
		ex.Resync()
		var seq []mexplore.Op
		for k := 0; k < 12; k++ {
			op := mexplore.Progressive(ex, rng)
			if rng.Intn(3) == 0 {
				a := mexplore.Alphabet(w.N())
				op = a[rng.Intn(len(a))]
			}
			ex.Apply(op)
			seq = append(seq, op)
		}
		return mexplore.SeqString(seq)
	}
	seq := drive(c)
	r.Count("machine_ops_after_clone", 12)
	if after := canon.String(sourceOf(m)); after != before {
		r.Violation("C19/mutation-visible/StateMachine-ops", "operations on the clone changed the original machine: "+diff(before, after),
			witness{Type: "StateMachine", Value: trunc(before), Detail: "ops on clone: " + seq})
		return
	}
	c2 := m.Clone()
	seq = drive(m)
	if after := canon.String(sourceOf(c2)); after != before {
		r.Violation("C19/mutation-visible/StateMachine-ops", "operations on the original changed the clone: "+diff(before, after),
			witness{Type: "StateMachine", Value: trunc(before), Detail: "ops on original: " + seq})
	}
}

func nontrivial(shape string) bool {
	for i := 0; i+1 < len(shape); i++ {
		if (shape[i] == '[' || shape[i] == 'm' || shape[i] == 'x' || shape[i] == 'i') && shape[i+1] >= '1' && shape[i+1] <= '9' {
			return true
		}
	}
	return false
}

func safely(f func()) (p any) {
	defer func() { p = recover() }()
	f()
	return nil
}

func trunc(s string) string {
	if len(s) > 1500 {
		return s[:1500] + "..."
	}
	return s
}

func diff(a, b string) string {
	i := 0
	for i < len(a) && i < len(b) && a[i] == b[i] {
		i++
	}
	lo := i - 50
	if lo < 0 {
		lo = 0
	}
	cut := func(s string) string {
		if len(s) > 140 {
			return s[:140]
		}
		return s
	}
	return fmt.Sprintf("first difference at offset %d: ...%s vs ...%s", i, cut(a[lo:]), cut(b[lo:]))
}
