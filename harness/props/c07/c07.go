// Package c07: a client never countersigns an update that is unsafe for it.
package c07

import (
	"bytes"
	"fmt"
	"math/big"
	"math/rand"
	"strings"
	"sync"
	"time"

	"perun.network/go-perun/channel"
	"perun.network/go-perun/client"
	"perun.network/go-perun/wire"

	"verif/internal/canon"
	"verif/internal/childrun"
	"verif/internal/ev"
	"verif/internal/gen"
	"verif/internal/party"
	"verif/internal/recpr"
	"verif/internal/refmodel"
	"verif/internal/sink"
	"verif/props"
)

func init() {
	props.Register(props.Entry{
		ID:    "C07",
		Level: "exploration",
		Rule: "an honest client V (real client, accept-everything update handler) and a peer M whose signing key the harness holds: at random points of a channel history (plain ledger channel, channel with locked sub-channels, pending sub-channel funding, pending sub-channel settlement) M sends crafted, correctly signed updates - valid successors with the wrong actor, signatures over other states, every edit of the locked sub-allocations with sums preserved (id, amount moved, index map added, entry added/removed/reordered), replays, " +
			"funding updates rewritten on M's own link to debit the wrong party / both wrongly / with another amount or an index map / touching another sub-allocation, settlement updates crediting wrongly or renaming another sub-allocation. " +
			"Hub workload: V is the hub of a virtual channel between M and an honest client; M's virtual channel funding and settlement proposals are rewritten on its own link (hub debited instead of M, one unit taken from the hub, debits/credits swapped, another sub-allocation renamed or drained, larger locked amount, other index map in the state). " +
			"Monitor: inside V's persister callback for its own signature (under V's channel lock) the staged state is judged against V's current state by an independent acceptability predicate. A case is (life point, crafted update kind); non-trivial iff the crafted message reached V's update handling with >= 1 open channel",
		Run:       run,
		ChildMain: childMain,
	})
}

func run(r *ev.Run, cfg props.Cfg) {
	childrun.Run(r, cfg, childrun.Opts{
		Prop: "C07", Binary: cfg.Self, Workers: cfg.Workers,
		Arg: func(w int) string { return fmt.Sprintf("main:%d/%d", w, cfg.Workers) },
		OnDeath: func(w int, last, stderr string, err error) {
			r.Violation("C07/crash/"+childrun.PanicSite(stderr), fmt.Sprintf("a crafted update killed the client process: %s (case: %s)", childrun.FatalLine(stderr), last),
				map[string]any{"case": last, "stderr": childrun.FirstLines(stderr, 50)})
		},
	})
	r.Assume("the actor of a staged state is taken from the tapped update message carrying that state")
	r.Assume("hub workload: the proposal message that carried a staged parent state (tapped on the bus) supplies the virtual channel's state and index map the predicate needs")
}

func childMain(cfg props.Cfg) int {
	em := childrun.NewEmitter()
	var w, W int
	fmt.Sscanf(strings.TrimPrefix(cfg.Child, "main:"), "%d/%d", &w, &W)
	n := cfg.Pick(2000, 40000)/W + 1
	rng := gen.NewRand(cfg.Seed, fmt.Sprintf("c07/%d", w))
	for done, k := 0, 0; done < n; k++ {
		if k%4 == 3 {
			// the hub workload yields one or two crafted proposals per arena; weigh it like the others
			done += 8 * hubHistory(em, em, rng, w == 0 && k == 3)
			continue
		}
		done += history(em, em, rng, w == 0 && done == 0)
	}
	em.Done()
	return 0
}

// ---------------------------------------------------------------------------------------------

type witness struct {
	Point   string `json:"life_point"`
	Kind    string `json:"crafted_update"`
	Current string `json:"victims_current_state"`
	Staged  string `json:"state_the_victim_signed"`
	Actor   int    `json:"actor"`
	Why     string `json:"why_unacceptable"`
}

type arena struct {
	w      *party.World
	V, M   *party.Party
	chM    *client.Channel // M's object of the parent (M is participant 0)
	chV    *client.Channel
	mu     sync.Mutex
	actors map[string]channel.Index // encoding of a proposed state -> actor (from the bus tap)
	// what V signed: judged inline
	verdicts []verdict
	point    string
	kind     string
	// propEdit, if set, rewrites M's next sub-channel proposal on her link
	propEdit  func(p *client.SubChannelProposalMsg)
	craftedFA channel.Balances
}

type verdict struct {
	ok      bool
	why     string
	cur, st *channel.State
	actor   int
	point   string
	kind    string
}

func bal(x int64) *big.Int { return big.NewInt(x) }

// subInfo is what V knows about a sub-channel of the parent.
type subInfo struct {
	init  *channel.State // version-0 state V enabled
	final *channel.State // final state V enabled (nil if none)
}

func (a *arena) subChannels(parent channel.ID) map[channel.ID]*subInfo {
	out := map[channel.ID]*subInfo{}
	for _, e := range a.V.Rec.Events() {
		switch e.Kind {
		case recpr.Created:
			if e.Parent != nil && *e.Parent == parent {
				out[e.ID] = &subInfo{}
			}
		case recpr.Enabled:
			if si := out[e.ID]; si != nil && e.Current.State != nil {
				if e.Current.State.Version == 0 {
					si.init = e.Current.State
				}
				if e.Current.State.IsFinal {
					si.final = e.Current.State
				}
			}
		case recpr.Staged, recpr.SigAdded:
			// the initial state is known to V as soon as it is staged (funding happens before EnableInit? no: after) - kept for completeness
			if si := out[e.ID]; si != nil && si.init == nil && e.Staging.State != nil && e.Staging.State.Version == 0 {
				si.init = e.Staging.State
			}
		}
	}
	return out
}

func lockedEqual(a, b []channel.SubAlloc) bool {
	if len(a) != len(b) {
		return false
	}
	for i := range a {
		if canon.String(&a[i]) != canon.String(&b[i]) {
			return false
		}
	}
	return true
}

func sameExceptAlloc(c, s *channel.State) string {
	if s.IsFinal != c.IsFinal && false {
		return "final flag"
	}
	if canon.String(s.Data) != canon.String(c.Data) {
		return "app data changed"
	}
	return ""
}

// acceptable is the independent predicate: may V sign staged as successor of cur?
func (a *arena) acceptable(params *channel.Params, vIdx channel.Index, cur, st *channel.State, peerSig []byte, actor channel.Index, actorKnown bool) (bool, string) {
	peer := 1 - vIdx
	if ok, err := channel.Verify(params.Parts[peer][gen.B], st, peerSig); err != nil || !ok {
		return false, "the peer's signature does not verify for exactly the staged state"
	}
	if !actorKnown {
		return false, "no update message with this state was received from the peer"
	}
	if v, why := refmodel.ValidSuccessor(params, cur, st, actor); v != refmodel.Accept {
		return false, "not a valid successor: " + why
	}
	subs := a.subChannels(cur.ID)
	switch {
	case lockedEqual(cur.Locked, st.Locked):
		if actor != peer {
			return false, "ordinary update does not name the sender as actor"
		}
		return true, ""
	case len(st.Locked) == len(cur.Locked)+1 && lockedEqual(cur.Locked, st.Locked[:len(cur.Locked)]):
		x := st.Locked[len(cur.Locked)]
		si := subs[x.ID]
		if si == nil || si.init == nil {
			return false, "a sub-allocation was added for a channel the client is not opening"
		}
		if len(x.IndexMap) != 0 {
			return false, "sub-channel funding with an index map"
		}
		tot := si.init.Allocation.Sum()
		for i := range tot {
			if i >= len(x.Bals) || tot[i].Cmp(x.Bals[i]) != 0 {
				return false, "locked amount differs from the sub-channel's funds"
			}
		}
		for ai := range cur.Balances {
			for p := range cur.Balances[ai] {
				want := new(big.Int).Sub(cur.Balances[ai][p], si.init.Balances[ai][p])
				if st.Balances[ai][p].Cmp(want) != 0 {
					return false, fmt.Sprintf("funding changes participant %d's balance of asset %d by %v instead of -%v", p, ai, new(big.Int).Sub(st.Balances[ai][p], cur.Balances[ai][p]), si.init.Balances[ai][p])
				}
			}
		}
		if w := sameExceptAlloc(cur, st); w != "" {
			return false, "funding update also changes: " + w
		}
		return true, ""
	case len(st.Locked) == len(cur.Locked)-1:
		// exactly one entry removed, the others unchanged and in order
		var removed *channel.SubAlloc
		j := 0
		for i := range cur.Locked {
			if j < len(st.Locked) && canon.String(&cur.Locked[i]) == canon.String(&st.Locked[j]) {
				j++
				continue
			}
			if removed != nil {
				return false, "more than one sub-allocation changed"
			}
			removed = &cur.Locked[i]
		}
		if removed == nil || j != len(st.Locked) {
			return false, "sub-allocations changed besides the removal"
		}
		si := subs[removed.ID]
		if si == nil || si.final == nil {
			return false, "a sub-allocation was removed although the client holds no final state of that channel"
		}
		for ai := range cur.Balances {
			for p := range cur.Balances[ai] {
				want := new(big.Int).Add(cur.Balances[ai][p], si.final.Balances[ai][p])
				if st.Balances[ai][p].Cmp(want) != 0 {
					return false, fmt.Sprintf("settlement changes participant %d's balance of asset %d by %v instead of +%v", p, ai, new(big.Int).Sub(st.Balances[ai][p], cur.Balances[ai][p]), si.final.Balances[ai][p])
				}
			}
		}
		return true, ""
	}
	return false, "locked sub-allocations changed"
}

func newArena(rng *rand.Rand) (*arena, string) {
	a := &arena{actors: map[string]channel.Index{}}
	a.w = party.NewWorld(rng, 1+rng.Intn(2), rng.Intn(3))
	a.V, a.M = a.w.NewParty("V", 100000), a.w.NewParty("M", 100000)
	// tap: remember the actor of every update M sends
	a.w.Bus.AddTap(func(e *wire.Envelope) {
		var u *client.ChannelUpdateMsg
		switch m := e.Msg.(type) {
		case *client.ChannelUpdateMsg:
			u = m
		case *client.VirtualChannelFundingProposalMsg:
			u = &m.ChannelUpdateMsg
		case *client.VirtualChannelSettlementProposalMsg:
			u = &m.ChannelUpdateMsg
		}
		if u != nil && u.State != nil {
			if enc := gen.EncodeState(u.State); enc != nil {
				a.mu.Lock()
				a.actors[string(enc)] = u.ActorIdx
				a.mu.Unlock()
			}
		}
	})
	// the monitor: V's own signature in the Signing phase
	a.V.Rec.OnEvent = func(e recpr.Event) {
		if e.Kind != recpr.SigAdded || e.SigIdx != e.Idx || e.Phase != channel.Signing || e.Staging.State == nil || e.Current.State == nil {
			return
		}
		st, cur := e.Staging.State, e.Current.State
		// only updates received from the network: the peer's signature is already in place
		peer := 1 - e.Idx
		if int(peer) >= len(e.Staging.Sigs) || e.Staging.Sigs[peer] == nil {
			return // V's own proposal
		}
		a.mu.Lock()
		actor, known := a.actors[string(gen.EncodeState(st))]
		point, kind := a.point, a.kind
		a.mu.Unlock()
		ok, why := a.acceptable(e.Params, e.Idx, cur, st, e.Staging.Sigs[peer], actor, known)
		a.mu.Lock()
		a.verdicts = append(a.verdicts, verdict{ok, why, cur, st, int(actor), point, kind})
		a.mu.Unlock()
	}
	bals := make([][]int64, len(a.w.Assets))
	for i := range bals {
		bals[i] = []int64{int64(40 + rng.Intn(60)), int64(40 + rng.Intn(60))}
	}
	ch, err := a.M.OpenLedgerChannel(a.V, bals, 10)
	if err != nil {
		return nil, err.Error()
	}
	a.chM = a.M.AwaitChannel(ch.ID())
	a.chV = a.V.AwaitChannel(ch.ID())
	if a.chM == nil || a.chV == nil {
		return nil, "channel not registered"
	}
	return a, ""
}

func (a *arena) setCase(point, kind string) {
	a.mu.Lock()
	a.point, a.kind = point, kind
	a.mu.Unlock()
}

// inject sends a crafted update for the parent channel from M to V, signed by M.
func (a *arena) inject(st *channel.State, actor channel.Index, sigOver *channel.State) {
	sig, err := channel.Sign(a.M.Acc, sigOver, gen.B)
	if err != nil {
		return
	}
	msg := &client.ChannelUpdateMsg{ChannelUpdate: client.ChannelUpdate{State: st, ActorIdx: actor}, Sig: sig}
	a.w.Bus.Inject(&wire.Envelope{Sender: a.M.Wire, Recipient: a.V.Wire, Msg: msg})
}

type crafted struct {
	name  string
	build func(rng *rand.Rand, a *arena, cur *channel.State) (st *channel.State, actor channel.Index, sigOver *channel.State, ok bool)
}

func succ(cur *channel.State) *channel.State {
	s := cur.Clone()
	s.Version++
	return s
}

func move(s *channel.State, asset, from, to int, amt int64) bool {
	if s.Balances[asset][from].Cmp(bal(amt)) < 0 {
		return false
	}
	s.Balances[asset][from] = new(big.Int).Sub(s.Balances[asset][from], bal(amt))
	s.Balances[asset][to] = new(big.Int).Add(s.Balances[asset][to], bal(amt))
	return true
}

// M is participant 0, V participant 1.
var ordinary = []crafted{
	{"control-valid-payment-by-sender", func(rng *rand.Rand, a *arena, cur *channel.State) (*channel.State, channel.Index, *channel.State, bool) {
		s := succ(cur)
		ok := move(s, rng.Intn(len(s.Balances)), 0, 1, int64(rng.Intn(5)))
		return s, 0, s, ok
	}},
	{"wrong-actor-victim-pays", func(rng *rand.Rand, a *arena, cur *channel.State) (*channel.State, channel.Index, *channel.State, bool) {
		s := succ(cur)
		ok := move(s, rng.Intn(len(s.Balances)), 1, 0, int64(1+rng.Intn(20)))
		return s, 1, s, ok
	}},
	{"sender-takes-from-victim", func(rng *rand.Rand, a *arena, cur *channel.State) (*channel.State, channel.Index, *channel.State, bool) {
		// actor = sender, but the victim's balance shrinks: acceptable for a no-app channel only if the handler agrees;
		// the accept-everything handler does, so this is a control for the ordinary path
		s := succ(cur)
		ok := move(s, rng.Intn(len(s.Balances)), 1, 0, int64(1+rng.Intn(5)))
		return s, 0, s, ok
	}},
	{"signature-over-another-state", func(rng *rand.Rand, a *arena, cur *channel.State) (*channel.State, channel.Index, *channel.State, bool) {
		s := succ(cur)
		move(s, 0, 0, 1, 1)
		other := succ(cur)
		move(other, 0, 0, 1, 2)
		return s, 0, other, true
	}},
	{"actor-out-of-range", func(rng *rand.Rand, a *arena, cur *channel.State) (*channel.State, channel.Index, *channel.State, bool) {
		s := succ(cur)
		return s, 2, s, true
	}},
	{"version+2", func(rng *rand.Rand, a *arena, cur *channel.State) (*channel.State, channel.Index, *channel.State, bool) {
		s := succ(cur)
		s.Version++
		return s, 0, s, true
	}},
	{"sum+1", func(rng *rand.Rand, a *arena, cur *channel.State) (*channel.State, channel.Index, *channel.State, bool) {
		s := succ(cur)
		s.Balances[0][0] = new(big.Int).Add(s.Balances[0][0], bal(1))
		return s, 0, s, true
	}},
	{"locked-id-changed", func(rng *rand.Rand, a *arena, cur *channel.State) (*channel.State, channel.Index, *channel.State, bool) {
		if len(cur.Locked) == 0 {
			return nil, 0, nil, false
		}
		s := succ(cur)
		s.Locked[rng.Intn(len(s.Locked))].ID[3] ^= 0x40
		return s, 0, s, true
	}},
	{"locked-amount-moved-to-sender", func(rng *rand.Rand, a *arena, cur *channel.State) (*channel.State, channel.Index, *channel.State, bool) {
		if len(cur.Locked) == 0 {
			return nil, 0, nil, false
		}
		s := succ(cur)
		k := rng.Intn(len(s.Locked))
		for i, b := range s.Locked[k].Bals {
			if b.Sign() > 0 {
				s.Locked[k].Bals[i] = new(big.Int).Sub(b, bal(1))
				s.Balances[i][0] = new(big.Int).Add(s.Balances[i][0], bal(1))
				return s, 0, s, true
			}
		}
		return nil, 0, nil, false
	}},
	{"locked-amount-moved-between-sub-allocations", func(rng *rand.Rand, a *arena, cur *channel.State) (*channel.State, channel.Index, *channel.State, bool) {
		if len(cur.Locked) < 2 {
			return nil, 0, nil, false
		}
		s := succ(cur)
		for i, b := range s.Locked[0].Bals {
			if b.Sign() > 0 {
				s.Locked[0].Bals[i] = new(big.Int).Sub(b, bal(1))
				s.Locked[1].Bals[i] = new(big.Int).Add(s.Locked[1].Bals[i], bal(1))
				return s, 0, s, true
			}
		}
		return nil, 0, nil, false
	}},
	{"locked-index-map-added", func(rng *rand.Rand, a *arena, cur *channel.State) (*channel.State, channel.Index, *channel.State, bool) {
		if len(cur.Locked) == 0 {
			return nil, 0, nil, false
		}
		s := succ(cur)
		k := rng.Intn(len(s.Locked))
		s.Locked[k].IndexMap = []channel.Index{1, 0}
		return s, 0, s, true
	}},
	{"locked-entries-reordered", func(rng *rand.Rand, a *arena, cur *channel.State) (*channel.State, channel.Index, *channel.State, bool) {
		if len(cur.Locked) < 2 {
			return nil, 0, nil, false
		}
		s := succ(cur)
		s.Locked[0], s.Locked[1] = s.Locked[1], s.Locked[0]
		return s, 0, s, true
	}},
	{"locked-entry-added-from-senders-funds", func(rng *rand.Rand, a *arena, cur *channel.State) (*channel.State, channel.Index, *channel.State, bool) {
		s := succ(cur)
		sa := channel.SubAlloc{ID: gen.ID(rng), Bals: make([]channel.Bal, len(s.Assets)), IndexMap: []channel.Index{}}
		for i := range sa.Bals {
			sa.Bals[i] = bal(0)
		}
		if s.Balances[0][0].Sign() <= 0 {
			return nil, 0, nil, false
		}
		sa.Bals[0] = bal(1)
		s.Balances[0][0] = new(big.Int).Sub(s.Balances[0][0], bal(1))
		s.Locked = append(s.Locked, sa)
		return s, 0, s, true
	}},
	{"locked-entry-added-from-victims-funds", func(rng *rand.Rand, a *arena, cur *channel.State) (*channel.State, channel.Index, *channel.State, bool) {
		s := succ(cur)
		sa := channel.SubAlloc{ID: gen.ID(rng), Bals: make([]channel.Bal, len(s.Assets)), IndexMap: []channel.Index{}}
		for i := range sa.Bals {
			sa.Bals[i] = bal(0)
		}
		if s.Balances[0][1].Sign() <= 0 {
			return nil, 0, nil, false
		}
		sa.Bals[0] = bal(1)
		s.Balances[0][1] = new(big.Int).Sub(s.Balances[0][1], bal(1))
		s.Locked = append(s.Locked, sa)
		return s, 0, s, true
	}},
	{"locked-entry-removed-credited-to-sender", func(rng *rand.Rand, a *arena, cur *channel.State) (*channel.State, channel.Index, *channel.State, bool) {
		if len(cur.Locked) == 0 {
			return nil, 0, nil, false
		}
		s := succ(cur)
		k := rng.Intn(len(s.Locked))
		for i, b := range s.Locked[k].Bals {
			s.Balances[i][0] = new(big.Int).Add(s.Balances[i][0], b)
		}
		s.Locked = append(append([]channel.SubAlloc(nil), s.Locked[:k]...), s.Locked[k+1:]...)
		return s, 0, s, true
	}},
}

// rewriteNext installs a one-shot rewriter on M's link that replaces the next update for the
// parent channel by edit(original state) (re-signed by M); returns a func telling whether it fired.
func (a *arena) rewriteNext(edit func(orig *channel.State) *channel.State) func() bool {
	var mu sync.Mutex
	fired := false
	parent := a.chM.ID()
	a.w.Bus.SetRewriter(a.M.Wire, func(e *wire.Envelope) []*wire.Envelope {
		if sp, isProp := e.Msg.(*client.SubChannelProposalMsg); isProp {
			a.mu.Lock()
			pe := a.propEdit
			a.mu.Unlock()
			if pe != nil {
				c := *sp
				ib := sp.InitBals.Clone()
				c.InitBals = &ib
				c.FundingAgreement = sp.FundingAgreement.Clone()
				pe(&c)
				return []*wire.Envelope{{Sender: e.Sender, Recipient: e.Recipient, Msg: &c}}
			}
			return []*wire.Envelope{e}
		}
		u, ok := e.Msg.(*client.ChannelUpdateMsg)
		mu.Lock()
		defer mu.Unlock()
		if !ok || fired || u.State == nil || u.State.ID != parent {
			return []*wire.Envelope{e}
		}
		fired = true
		ns := edit(u.State.Clone())
		if ns == nil {
			return []*wire.Envelope{e}
		}
		sig, err := channel.Sign(a.M.Acc, ns, gen.B)
		if err != nil {
			return []*wire.Envelope{e}
		}
		return []*wire.Envelope{{Sender: e.Sender, Recipient: e.Recipient, Msg: &client.ChannelUpdateMsg{ChannelUpdate: client.ChannelUpdate{State: ns, ActorIdx: u.ActorIdx}, Sig: sig}}}
	})
	return func() bool { mu.Lock(); defer mu.Unlock(); return fired }
}

type fundEdit struct {
	name string
	edit func(rng *rand.Rand, cur, orig *channel.State, init [][]int64) *channel.State
}

var fundEdits = []fundEdit{
	{"control-honest-funding", func(rng *rand.Rand, cur, orig *channel.State, init [][]int64) *channel.State { return orig }},
	{"debit-only-the-victim", func(rng *rand.Rand, cur, orig *channel.State, init [][]int64) *channel.State {
		for ai := range orig.Balances {
			tot := init[ai][0] + init[ai][1]
			if cur.Balances[ai][1].Cmp(bal(tot)) < 0 {
				return nil
			}
			orig.Balances[ai][0] = new(big.Int).Set(cur.Balances[ai][0])
			orig.Balances[ai][1] = new(big.Int).Sub(cur.Balances[ai][1], bal(tot))
		}
		return orig
	}},
	{"debit-by-a-crafted-funding-agreement", func(rng *rand.Rand, cur, orig *channel.State, init [][]int64) *channel.State {
		// handled in history(): the proposal's funding agreement field (unused for sub-channels) was
		// rewritten to shift the funding towards the victim; the funding update debits accordingly
		return nil
	}},
	{"debits-swapped", func(rng *rand.Rand, cur, orig *channel.State, init [][]int64) *channel.State {
		changed := false
		for ai := range orig.Balances {
			if init[ai][0] != init[ai][1] {
				changed = true
			}
			if cur.Balances[ai][0].Cmp(bal(init[ai][1])) < 0 || cur.Balances[ai][1].Cmp(bal(init[ai][0])) < 0 {
				return nil
			}
			orig.Balances[ai][0] = new(big.Int).Sub(cur.Balances[ai][0], bal(init[ai][1]))
			orig.Balances[ai][1] = new(big.Int).Sub(cur.Balances[ai][1], bal(init[ai][0]))
		}
		if !changed {
			return nil
		}
		return orig
	}},
	{"one-unit-more-from-the-victim", func(rng *rand.Rand, cur, orig *channel.State, init [][]int64) *channel.State {
		if orig.Balances[0][1].Sign() <= 0 {
			return nil
		}
		orig.Balances[0][1] = new(big.Int).Sub(orig.Balances[0][1], bal(1))
		orig.Balances[0][0] = new(big.Int).Add(orig.Balances[0][0], bal(1))
		return orig
	}},
	{"locked-amount-larger-than-the-sub-channel", func(rng *rand.Rand, cur, orig *channel.State, init [][]int64) *channel.State {
		if orig.Balances[0][1].Sign() <= 0 {
			return nil
		}
		l := &orig.Locked[len(orig.Locked)-1]
		l.Bals[0] = new(big.Int).Add(l.Bals[0], bal(1))
		orig.Balances[0][1] = new(big.Int).Sub(orig.Balances[0][1], bal(1))
		return orig
	}},
	{"funding-with-index-map", func(rng *rand.Rand, cur, orig *channel.State, init [][]int64) *channel.State {
		orig.Locked[len(orig.Locked)-1].IndexMap = []channel.Index{1, 0}
		return orig
	}},
	{"also-renames-another-sub-allocation", func(rng *rand.Rand, cur, orig *channel.State, init [][]int64) *channel.State {
		if len(orig.Locked) < 2 {
			return nil
		}
		orig.Locked[0].ID[5] ^= 1
		return orig
	}},
	{"also-drains-another-sub-allocation", func(rng *rand.Rand, cur, orig *channel.State, init [][]int64) *channel.State {
		if len(orig.Locked) < 2 {
			return nil
		}
		for i, b := range orig.Locked[0].Bals {
			if b.Sign() > 0 {
				orig.Locked[0].Bals[i] = new(big.Int).Sub(b, bal(1))
				orig.Balances[i][0] = new(big.Int).Add(orig.Balances[i][0], bal(1))
				return orig
			}
		}
		return nil
	}},
}

type settleEdit struct {
	name string
	edit func(rng *rand.Rand, cur, orig *channel.State, fin, pre, snap *channel.State) *channel.State
}

var settleEdits = []settleEdit{
	{"control-honest-settlement", func(rng *rand.Rand, cur, orig *channel.State, fin, pre, snap *channel.State) *channel.State {
		return orig
	}},
	{"everything-credited-to-the-sender", func(rng *rand.Rand, cur, orig *channel.State, fin, pre, snap *channel.State) *channel.State {
		changed := false
		for ai := range orig.Balances {
			tot := new(big.Int).Add(fin.Balances[ai][0], fin.Balances[ai][1])
			if fin.Balances[ai][1].Sign() > 0 {
				changed = true
			}
			orig.Balances[ai][0] = new(big.Int).Add(cur.Balances[ai][0], tot)
			orig.Balances[ai][1] = new(big.Int).Set(cur.Balances[ai][1])
		}
		if !changed {
			return nil
		}
		return orig
	}},
	{"credits-swapped", func(rng *rand.Rand, cur, orig *channel.State, fin, pre, snap *channel.State) *channel.State {
		changed := false
		for ai := range orig.Balances {
			if fin.Balances[ai][0].Cmp(fin.Balances[ai][1]) != 0 {
				changed = true
			}
			orig.Balances[ai][0] = new(big.Int).Add(cur.Balances[ai][0], fin.Balances[ai][1])
			orig.Balances[ai][1] = new(big.Int).Add(cur.Balances[ai][1], fin.Balances[ai][0])
		}
		if !changed {
			return nil
		}
		return orig
	}},
	{"also-renames-another-sub-allocation", func(rng *rand.Rand, cur, orig *channel.State, fin, pre, snap *channel.State) *channel.State {
		if len(orig.Locked) < 1 {
			return nil
		}
		orig.Locked[0].ID[7] ^= 2
		return orig
	}},
	{"credits-the-balances-before-the-final-update", func(rng *rand.Rand, cur, orig *channel.State, fin, pre, snap *channel.State) *channel.State {
		// the sub-channel's final update also moved funds; the settlement pays out the state before it
		changed := false
		for ai := range orig.Balances {
			for p := 0; p < 2; p++ {
				if pre.Balances[ai][p].Cmp(fin.Balances[ai][p]) != 0 {
					changed = true
				}
				orig.Balances[ai][p] = new(big.Int).Add(cur.Balances[ai][p], pre.Balances[ai][p])
			}
		}
		if !changed {
			return nil
		}
		return orig
	}},
	{"credits-on-top-of-the-parent-state-at-finalization", func(rng *rand.Rand, cur, orig *channel.State, fin, pre, snap *channel.State) *channel.State {
		// the parent moved on after the sub-channel became final; the settlement ignores that
		changed := false
		for ai := range orig.Balances {
			for p := 0; p < 2; p++ {
				if snap.Balances[ai][p].Cmp(cur.Balances[ai][p]) != 0 {
					changed = true
				}
				orig.Balances[ai][p] = new(big.Int).Add(snap.Balances[ai][p], fin.Balances[ai][p])
			}
		}
		if !changed {
			return nil
		}
		return orig
	}},
	{"one-unit-from-the-victim", func(rng *rand.Rand, cur, orig *channel.State, fin, pre, snap *channel.State) *channel.State {
		if orig.Balances[0][1].Sign() <= 0 {
			return nil
		}
		orig.Balances[0][1] = new(big.Int).Sub(orig.Balances[0][1], bal(1))
		orig.Balances[0][0] = new(big.Int).Add(orig.Balances[0][0], bal(1))
		return orig
	}},
}

// history runs one arena; returns the number of crafted updates.
func history(s sink.Sink, em *childrun.Emitter, rng *rand.Rand, sample bool) int {
	a, msg := newArena(rng)
	if a == nil {
		s.Inconclusive("arena setup failed: " + msg)
		return 1
	}
	abandoned := false
	defer func() {
		if abandoned {
			a.w.Abandon()
		} else {
			a.w.Close()
		}
	}()
	n := 0
	if sample {
		s.Sample(map[string]any{"life_points": "plain channel, sub-channel funding (rewritten on the adversary's link), channel with locked sub-channels, sub-channel settlement (rewritten)",
			"crafted_kinds_ordinary": len(ordinary), "funding_edits": len(fundEdits), "settlement_edits": len(settleEdits), "victims_initial_state": trunc(canon.String(a.chV.State()))})
	}
	report := func() bool { // returns false if the arena has to be abandoned
		a.w.Quiesce()
		time.Sleep(300 * time.Microsecond)
		a.w.Quiesce()
		a.mu.Lock()
		vs := a.verdicts
		a.verdicts = nil
		a.mu.Unlock()
		bad := false
		for _, v := range vs {
			s.Count("victim_signatures_judged", 1)
			if v.ok {
				s.Count("victim_signatures_acceptable", 1)
				continue
			}
			bad = true
			pt := v.point
			if i := strings.LastIndex(pt, "-"); i > 0 && strings.HasPrefix(pt, "sub-channel-funding-") {
				pt = pt[:i]
			}
			if strings.HasPrefix(pt, "channel-with-") {
				pt = "channel-with-locked-sub-channels"
			}
			s.Violation("C07/signed-unsafe/"+pt+"/"+v.kind, fmt.Sprintf("the client countersigned an update it must not sign (%s; crafted update: %s at life point: %s)", v.why, v.kind, v.point),
				witness{Point: v.point, Kind: v.kind, Current: trunc(canon.String(v.cur)), Staged: trunc(canon.String(v.st)), Actor: v.actor, Why: v.why})
		}
		return !bad
	}
	barrier := func() bool {
		// an honest update from M must still go through (V dropped the crafted one)
		a.setCase(a.point, "barrier")
		if err := a.M.Pay(a.chM, 0, 0, false); err != nil {
			return false
		}
		return true
	}
	ordinaryRound := func(point string) bool {
		// controls that V legitimately accepts desynchronise M's machine and end the arena:
		// they come last and only sometimes
		order := append([]crafted(nil), ordinary[3:]...)
		rng.Shuffle(len(order), func(i, j int) { order[i], order[j] = order[j], order[i] })
		order = append(order, ordinary[1]) // wrong actor
		if rng.Intn(4) == 0 {
			order = append(order, ordinary[[]int{0, 2}[rng.Intn(2)]])
		}
		for _, c := range order {
			if rng.Intn(4) == 0 {
				continue
			}
			cur := a.chV.State()
			var st, over *channel.State
			var actor channel.Index
			ok := false
			func() {
				defer func() { _ = recover() }()
				st, actor, over, ok = c.build(rng, a, cur)
			}()
			if !ok {
				continue
			}
			em.Progress(point + " " + c.name)
			a.setCase(point, c.name)
			a.inject(st, actor, over)
			n++
			s.Case(point+"|"+c.name, true)
			s.Seen("crafted_kinds", c.name)
			s.Seen("life_points", point)
			if !report() {
				return false
			}
			// V may have (legitimately) accepted a control: M's machine did not take part, so
			// bring M's view back in sync is impossible - use a fresh arena after accepted controls
			if a.chV.State().Version != a.chM.State().Version {
				s.Count("controls_accepted", 1)
				return false
			}
			if !barrier() {
				s.Inconclusive("barrier update failed after " + c.name)
				return false
			}
			report()
		}
		return true
	}
	// replay: resend an old honest update message later
	var oldMsgs []*wire.Envelope
	a.w.Bus.AddTap(func(e *wire.Envelope) {
		if _, ok := e.Msg.(*client.ChannelUpdateMsg); ok && bytes.Equal([]byte(wire.Keys(e.Sender)), []byte(wire.Keys(a.M.Wire))) {
			a.mu.Lock()
			if len(oldMsgs) < 8 {
				oldMsgs = append(oldMsgs, e)
			}
			a.mu.Unlock()
		}
	})

	// life point 1: plain channel
	for i := 0; i < 2; i++ {
		_ = a.M.Pay(a.chM, 0, int64(1+rng.Intn(3)), false)
		_ = a.V.Pay(a.chV, 0, int64(1+rng.Intn(3)), false)
	}
	if !ordinaryRound("plain-channel") {
		abandoned = true
		return n + 1
	}
	// replays
	a.mu.Lock()
	olds := append([]*wire.Envelope(nil), oldMsgs...)
	a.mu.Unlock()
	for _, e := range olds {
		if rng.Intn(2) == 0 {
			continue
		}
		a.setCase("plain-channel", "replayed-old-update")
		em.Progress("plain-channel replay")
		a.w.Bus.Inject(e)
		n++
		s.Case("plain-channel|replayed-old-update", true)
		if !report() {
			abandoned = true
			return n
		}
	}

	// life points 2..: sub-channel funding (rewritten), channel with locked funds, settlement (rewritten)
	nSubs := 1 + rng.Intn(2)
	var subsM []*client.Channel
	for k := 0; k < nSubs; k++ {
		init := make([][]int64, len(a.w.Assets))
		cur := a.chV.State()
		for ai := range init {
			init[ai] = []int64{1 + int64(rng.Intn(5)), 1 + int64(rng.Intn(5))}
			for p := 0; p < 2; p++ {
				if cur.Balances[ai][p].Cmp(bal(init[ai][p]+10)) < 0 {
					init[ai][p] = 0
				}
			}
		}
		fe := fundEdits[rng.Intn(len(fundEdits))]
		point := fmt.Sprintf("sub-channel-funding-%d", k)
		a.setCase(point, fe.name)
		em.Progress(point + " " + fe.name)
		applied := false
		crafted := fe.name == "debit-by-a-crafted-funding-agreement"
		if crafted {
			a.mu.Lock()
			a.propEdit = func(p *client.SubChannelProposalMsg) {
				fa := p.InitBals.Balances.Clone()
				for ai := range fa {
					// everything the sub-channel holds is to come from the victim (participant 1)
					tot := new(big.Int).Add(fa[ai][0], fa[ai][1])
					if cur.Balances[ai][1].Cmp(tot) >= 0 {
						fa[ai][0], fa[ai][1] = bal(0), tot
					}
				}
				p.FundingAgreement = fa
				a.craftedFA = fa
			}
			a.mu.Unlock()
		}
		fired := a.rewriteNext(func(orig *channel.State) *channel.State {
			var out *channel.State
			func() {
				defer func() { _ = recover() }()
				if crafted {
					a.mu.Lock()
					fa := a.craftedFA
					a.mu.Unlock()
					if fa == nil {
						return
					}
					changed := false
					for ai := range orig.Balances {
						for p := 0; p < 2; p++ {
							nb := new(big.Int).Sub(cur.Balances[ai][p], fa[ai][p])
							if nb.Cmp(orig.Balances[ai][p]) != 0 {
								changed = true
							}
							orig.Balances[ai][p] = nb
						}
					}
					if changed {
						out = orig
					}
					return
				}
				out = fe.edit(rng, cur, orig, init)
			}()
			applied = out != nil
			return out
		})
		a.M.Timeout = 800 * time.Millisecond
		a.V.Timeout = 800 * time.Millisecond
		sub, err := a.M.OpenSubChannel(a.chM, init, 10)
		a.M.Timeout, a.V.Timeout = 30*time.Second, 30*time.Second
		a.w.Bus.SetRewriter(a.M.Wire, nil)
		a.mu.Lock()
		a.propEdit, a.craftedFA = nil, nil
		a.mu.Unlock()
		if !fired() {
			s.Inconclusive("funding update was not observed on the adversary's link")
			abandoned = true
			return n + 1
		}
		n++
		s.Case(point+"|"+fe.name, applied)
		s.Seen("crafted_kinds", "funding/"+fe.name)
		s.Seen("life_points", "sub-channel-funding")
		okRep := report()
		if !okRep || err != nil || strings.HasPrefix(fe.name, "control") == false && applied {
			// after a rewritten funding update M's own protocol run has failed: the arena is spent
			if err == nil && !applied {
				// the edit did not apply: this was an honest funding, go on
			} else {
				abandoned = true
				return n
			}
		}
		subsM = append(subsM, sub)
		a.V.AwaitChannel(sub.ID())
		if !ordinaryRound(fmt.Sprintf("channel-with-%d-locked-sub-channels", k+1)) {
			abandoned = true
			return n
		}
	}
	// settlement of the last sub-channel with a rewritten parent update
	if len(subsM) > 0 {
		sub := subsM[len(subsM)-1]
		subV := a.V.Channel(sub.ID())
		if subV != nil {
			_ = a.M.Pay(sub, 0, 1, false)
			pre := subV.State().Clone()
			// the finalizing update may carry a last payment
			last := int64(rng.Intn(3))
			if b := sub.State().Balances[0][sub.Idx()]; !b.IsInt64() || b.Int64() < last {
				last = 0
			}
			if err := a.M.Pay(sub, 0, last, true); err == nil {
				// the parent may move on between the finalization and the settlement
				snap := a.chV.State().Clone()
				if rng.Intn(2) == 0 {
					_ = a.M.Pay(a.chM, 0, int64(1+rng.Intn(3)), false)
				}
				se := settleEdits[rng.Intn(len(settleEdits))]
				point := "sub-channel-settlement"
				a.setCase(point, se.name)
				em.Progress(point + " " + se.name)
				cur := a.chV.State()
				fin := subV.State()
				applied := false
				fired := a.rewriteNext(func(orig *channel.State) *channel.State {
					var out *channel.State
					func() {
						defer func() { _ = recover() }()
						out = se.edit(rng, cur, orig, fin, pre, snap)
					}()
					applied = out != nil
					return out
				})
				a.M.Timeout, a.V.Timeout = 800*time.Millisecond, 800*time.Millisecond
				errs := make(chan error, 2)
				go func() { ctx, c := a.M.Ctx(); defer c(); errs <- sub.Settle(ctx, false) }()
				go func() { ctx, c := a.V.Ctx(); defer c(); errs <- subV.Settle(ctx, false) }()
				<-errs
				<-errs
				a.w.Bus.SetRewriter(a.M.Wire, nil)
				if fired() {
					n++
					s.Case(point+"|"+se.name, applied)
					s.Seen("crafted_kinds", "settlement/"+se.name)
					s.Seen("life_points", point)
					report()
				}
				abandoned = true // timeouts may be pending
			}
		}
	}
	if sample {
		s.Sample(map[string]any{"crafted_updates_in_this_history": n, "life_points": "plain channel, sub-channel funding (rewritten), channel with locked sub-channels, sub-channel settlement (rewritten)"})
	}
	if n == 0 {
		n = 1
	}
	return n
}

func trunc(s string) string {
	if len(s) > 2500 {
		return s[:2500] + "..."
	}
	return s
}
