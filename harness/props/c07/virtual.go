package c07

// Hub workload: the victim V is the hub of a virtual channel between the adversary M (holding
// its own valid key) and an honest client B. The hub accepts virtual channel funding and
// settlement updates on its ledger channels automatically; M rewrites its own funding or
// settlement proposal on its link. Whatever V countersigns on the parent M-V (and B-V) is judged
// inside V's persister callback against the proposal message that carried the state.

import (
	"bytes"
	"fmt"
	"math/big"
	"math/rand"
	"strings"
	"sync"
	"time"

	"perun.network/go-perun/channel"
	"perun.network/go-perun/client"
	"perun.network/go-perun/wallet"
	"perun.network/go-perun/wire"

	"verif/internal/canon"
	"verif/internal/childrun"
	"verif/internal/gen"
	"verif/internal/party"
	"verif/internal/recpr"
	"verif/internal/refmodel"
	"verif/internal/sink"
)

type tappedProp struct {
	funding    *client.VirtualChannelFundingProposalMsg
	settlement *client.VirtualChannelSettlementProposalMsg
	actor      channel.Index
}

type hubArena struct {
	w        *party.World
	V, M, B  *party.Party
	mvM, mvV *client.Channel // ledger channel M-V (M participant 0, V participant 1)
	bvB, bvV *client.Channel // ledger channel B-V (B participant 0, V participant 1)
	mu       sync.Mutex
	props    map[string]tappedProp // encoding of a proposed parent state -> the message that carried it
	verdicts []verdict
	point    string
	kind     string
	settled  map[channel.ID][]byte // virtual channel -> encoding of the final state of a countersigned settlement
	// subFunding: the next update with a longer locked list is a sub-channel funding next to the
	// virtual channel's sub-allocation; judged for "all other sub-allocations stay as they are"
	subFunding bool
}

func verifyAll(p *channel.Params, st *channel.State, sigs []wallet.Sig) bool {
	if p == nil || st == nil || len(sigs) != len(p.Parts) || p.ID() != st.ID {
		return false
	}
	for i, sig := range sigs {
		addr, ok := p.Parts[i][gen.B]
		if !ok || sig == nil {
			return false
		}
		if ok, err := channel.Verify(addr, st, sig); err != nil || !ok {
			return false
		}
	}
	return true
}

func sameParticipant(a, b map[wallet.BackendID]wallet.Address) bool {
	if len(a) != len(b) {
		return false
	}
	for id, x := range a {
		y, ok := b[id]
		if !ok || !x.Equal(y) {
			return false
		}
	}
	return true
}

// share returns, per asset, what parent participant p holds in the virtual channel state vs
// through the index map im.
func share(vs *channel.State, im []channel.Index, p int, asset int) *big.Int {
	out := new(big.Int)
	for j, idx := range im {
		if int(idx) == p && j < len(vs.Balances[asset]) {
			out.Add(out, vs.Balances[asset][j])
		}
	}
	return out
}

// acceptableAtHub: may the hub sign staged as successor of cur, given the proposal message?
func acceptableAtHub(params *channel.Params, vIdx channel.Index, cur, st *channel.State, peerSig []byte, tp tappedProp, known bool) (bool, string) {
	peer := 1 - vIdx
	if ok, err := channel.Verify(params.Parts[peer][gen.B], st, peerSig); err != nil || !ok {
		return false, "the peer's signature does not verify for exactly the staged state"
	}
	if !known {
		return false, "no virtual channel proposal with this parent state was received from the peer"
	}
	if v, why := refmodel.ValidSuccessor(params, cur, st, tp.actor); v != refmodel.Accept {
		return false, "not a valid successor: " + why
	}
	if canon.String(st.Data) != canon.String(cur.Data) {
		return false, "app data changed"
	}
	n := len(params.Parts)
	switch {
	case tp.funding != nil:
		m := tp.funding
		ini := m.Initial
		if !verifyAll(ini.Params, ini.State, ini.Sigs) {
			return false, "the virtual channel's initial state is not fully signed for its parameters"
		}
		if !ini.Params.VirtualChannel || len(ini.State.Locked) != 0 {
			return false, "not a virtual channel / initial state with locked funds"
		}
		if len(m.IndexMap) != len(ini.Params.Parts) {
			return false, "index map length differs from the virtual channel's participants"
		}
		for _, idx := range m.IndexMap {
			if int(idx) >= n {
				return false, "index map entry out of range"
			}
		}
		// the peer pays for itself, the hub stands in for everybody else
		peerIsParticipant := false
		for j, part := range ini.Params.Parts {
			isPeer := sameParticipant(part, params.Parts[peer])
			peerIsParticipant = peerIsParticipant || isPeer
			switch {
			case isPeer && m.IndexMap[j] != peer:
				return false, fmt.Sprintf("the index map lets participant %d of the parent pay the share of the proposing peer (virtual participant %d)", m.IndexMap[j], j)
			case !isPeer && m.IndexMap[j] != vIdx:
				return false, fmt.Sprintf("the index map lets the peer pay the share of virtual participant %d instead of the hub standing in for it", j)
			}
		}
		if !peerIsParticipant {
			return false, "the proposing peer is not a participant of the virtual channel"
		}
		if len(ini.State.Assets) != len(cur.Assets) {
			return false, "assets differ"
		}
		for i := range cur.Assets {
			if !cur.Assets[i].Equal(ini.State.Assets[i]) {
				return false, "assets differ"
			}
		}
		if len(st.Locked) != len(cur.Locked)+1 || !lockedEqual(cur.Locked, st.Locked[:len(cur.Locked)]) {
			return false, "funding does not add exactly one sub-allocation and leave the others as they are"
		}
		x := st.Locked[len(cur.Locked)]
		want := channel.SubAlloc{ID: ini.State.ID, Bals: ini.State.Allocation.Sum(), IndexMap: m.IndexMap}
		if canon.String(&x) != canon.String(&want) {
			return false, "the added sub-allocation is not (virtual channel id, its funds, the proposal's index map)"
		}
		for ai := range cur.Balances {
			for p := 0; p < n; p++ {
				sh := share(ini.State, m.IndexMap, p, ai)
				if new(big.Int).Sub(cur.Balances[ai][p], sh).Cmp(st.Balances[ai][p]) != 0 {
					return false, fmt.Sprintf("funding changes participant %d's balance of asset %d by %v instead of -%v", p, ai, new(big.Int).Sub(st.Balances[ai][p], cur.Balances[ai][p]), sh)
				}
			}
		}
		return true, ""
	case tp.settlement != nil:
		fin := tp.settlement.Final
		if !verifyAll(fin.Params, fin.State, fin.Sigs) {
			return false, "the virtual channel's final state is not fully signed for its parameters"
		}
		var entry *channel.SubAlloc
		var rest []channel.SubAlloc
		for i := range cur.Locked {
			if cur.Locked[i].ID == fin.State.ID && entry == nil {
				entry = &cur.Locked[i]
				continue
			}
			rest = append(rest, cur.Locked[i])
		}
		if entry == nil {
			return false, "the settled channel has no sub-allocation in the parent"
		}
		if !lockedEqual(rest, st.Locked) {
			return false, "settlement does not remove exactly that channel's sub-allocation and leave the others as they are"
		}
		if len(fin.State.Balances) != len(cur.Balances) {
			return false, "assets differ"
		}
		for ai := range cur.Balances {
			for p := 0; p < n; p++ {
				sh := share(fin.State, entry.IndexMap, p, ai)
				if new(big.Int).Add(cur.Balances[ai][p], sh).Cmp(st.Balances[ai][p]) != 0 {
					return false, fmt.Sprintf("settlement changes participant %d's balance of asset %d by %v instead of +%v", p, ai, new(big.Int).Sub(st.Balances[ai][p], cur.Balances[ai][p]), sh)
				}
			}
		}
		return true, ""
	}
	return false, "neither a funding nor a settlement proposal"
}

func newHubArena(rng *rand.Rand) (*hubArena, string) {
	a := &hubArena{props: map[string]tappedProp{}, settled: map[channel.ID][]byte{}}
	a.w = party.NewWorld(rng, 1+rng.Intn(2), rng.Intn(3))
	a.V, a.M, a.B = a.w.NewParty("V", 100000), a.w.NewParty("M", 100000), a.w.NewParty("B", 100000)
	a.w.Bus.AddTap(func(e *wire.Envelope) {
		var tp tappedProp
		var u *client.ChannelUpdateMsg
		switch m := e.Msg.(type) {
		case *client.VirtualChannelFundingProposalMsg:
			tp.funding, u = m, &m.ChannelUpdateMsg
		case *client.VirtualChannelSettlementProposalMsg:
			tp.settlement, u = m, &m.ChannelUpdateMsg
		default:
			return
		}
		if u.State == nil {
			return
		}
		tp.actor = u.ActorIdx
		if enc := gen.EncodeState(u.State); enc != nil {
			a.mu.Lock()
			a.props[string(enc)] = tp
			a.mu.Unlock()
		}
	})
	a.V.Rec.OnEvent = func(e recpr.Event) {
		if e.Kind != recpr.SigAdded || e.SigIdx != e.Idx || e.Phase != channel.Signing || e.Staging.State == nil || e.Current.State == nil {
			return
		}
		st, cur := e.Staging.State, e.Current.State
		peer := 1 - e.Idx
		if int(peer) >= len(e.Staging.Sigs) || e.Staging.Sigs[peer] == nil {
			return // the hub's own proposal
		}
		if lockedEqual(cur.Locked, st.Locked) {
			return // an ordinary update: the two-party workload's subject
		}
		a.mu.Lock()
		tp, known := a.props[string(gen.EncodeState(st))]
		point, kind := a.point, a.kind
		subFunding := a.subFunding
		a.mu.Unlock()
		if subFunding && !known {
			ok, why := true, ""
			if len(st.Locked) != len(cur.Locked)+1 || !lockedEqual(cur.Locked, st.Locked[:len(cur.Locked)]) {
				ok, why = false, "the sub-channel funding update also changes another sub-allocation (amounts, index map or order): here the index map of the virtual channel routed over this ledger channel"
			}
			a.mu.Lock()
			a.verdicts = append(a.verdicts, verdict{ok, why, cur, st, int(tp.actor), point, kind})
			a.mu.Unlock()
			return
		}
		if a.mvV != nil && e.ID != a.mvV.ID() && !strings.HasPrefix(kind, "both-participants") {
			kind = "honest-proposal-of-the-other-participant"
		}
		ok, why := acceptableAtHub(e.Params, e.Idx, cur, st, e.Staging.Sigs[peer], tp, known)
		a.mu.Lock()
		if ok && tp.settlement != nil {
			// the hub's books balance only if both parents are settled with the same final state
			fin := tp.settlement.Final.State
			enc := gen.EncodeState(fin)
			if prev, seen := a.settled[fin.ID]; seen && !bytes.Equal(prev, enc) {
				ok, why = false, "the hub countersigns the settlement of one virtual channel on its two parents with two different final states: it pays out more than the channel held"
			} else {
				a.settled[fin.ID] = enc
			}
		}
		a.verdicts = append(a.verdicts, verdict{ok, why, cur, st, int(tp.actor), point, kind})
		a.mu.Unlock()
	}
	n := len(a.w.Assets)
	mk := func() [][]int64 {
		b := make([][]int64, n)
		for i := range b {
			b[i] = []int64{int64(40 + rng.Intn(60)), int64(40 + rng.Intn(60))}
		}
		return b
	}
	ch, err := a.M.OpenLedgerChannel(a.V, mk(), 10)
	if err != nil {
		return nil, err.Error()
	}
	a.mvM, a.mvV = a.M.AwaitChannel(ch.ID()), a.V.AwaitChannel(ch.ID())
	ch2, err := a.B.OpenLedgerChannel(a.V, mk(), 10)
	if err != nil {
		return nil, err.Error()
	}
	a.bvB, a.bvV = a.B.AwaitChannel(ch2.ID()), a.V.AwaitChannel(ch2.ID())
	if a.mvM == nil || a.mvV == nil || a.bvB == nil || a.bvV == nil {
		return nil, "channels not registered"
	}
	return a, ""
}

// rewriteVirtual rewrites M's next funding (or settlement) proposal: edit gets the honest parent
// state and returns the one to send (nil: leave it), which is re-signed with M's key.
func (a *hubArena) rewriteVirtual(settlement bool, edit func(orig *channel.State) *channel.State) func() bool {
	var mu sync.Mutex
	fired := false
	a.w.Bus.SetRewriter(a.M.Wire, func(e *wire.Envelope) []*wire.Envelope {
		mu.Lock()
		defer mu.Unlock()
		if fired {
			return []*wire.Envelope{e}
		}
		resign := func(u client.ChannelUpdateMsg) (client.ChannelUpdateMsg, bool) {
			ns := edit(u.State.Clone())
			if ns == nil {
				return u, false
			}
			sig, err := channel.Sign(a.M.Acc, ns, gen.B)
			if err != nil {
				return u, false
			}
			return client.ChannelUpdateMsg{ChannelUpdate: client.ChannelUpdate{State: ns, ActorIdx: u.ActorIdx}, Sig: sig}, true
		}
		switch m := e.Msg.(type) {
		case *client.VirtualChannelFundingProposalMsg:
			if settlement || m.State == nil {
				break
			}
			fired = true
			if u, ok := resign(m.ChannelUpdateMsg); ok {
				return []*wire.Envelope{{Sender: e.Sender, Recipient: e.Recipient, Msg: &client.VirtualChannelFundingProposalMsg{ChannelUpdateMsg: u, Initial: m.Initial, IndexMap: m.IndexMap}}}
			}
		case *client.VirtualChannelSettlementProposalMsg:
			if !settlement || m.State == nil {
				break
			}
			fired = true
			if u, ok := resign(m.ChannelUpdateMsg); ok {
				return []*wire.Envelope{{Sender: e.Sender, Recipient: e.Recipient, Msg: &client.VirtualChannelSettlementProposalMsg{ChannelUpdateMsg: u, Final: m.Final}}}
			}
		}
		return []*wire.Envelope{e}
	})
	return func() bool { mu.Lock(); defer mu.Unlock(); return fired }
}

// colludeSettlement: both participants of the virtual channel are adversarial. Each sends a
// settlement proposal with its own "final" state of the same version that pays everything to
// itself, fully signed by both (the harness holds both keys), with a parent state to match.
func (a *hubArena) colludeSettlement(curM, curB *channel.State) func() int {
	var mu sync.Mutex
	fired := 0
	mk := func(p *party.Party, self int, cur *channel.State) {
		a.w.Bus.SetRewriter(p.Wire, func(e *wire.Envelope) []*wire.Envelope {
			m, ok := e.Msg.(*client.VirtualChannelSettlementProposalMsg)
			if !ok || m.State == nil || m.Final.State == nil {
				return []*wire.Envelope{e}
			}
			fin := m.Final.State.Clone()
			tot := fin.Allocation.Sum()
			ns := m.State.Clone()
			for ai := range fin.Balances {
				for j := range fin.Balances[ai] {
					fin.Balances[ai][j] = big.NewInt(0)
				}
				fin.Balances[ai][self] = new(big.Int).Set(tot[ai])
				// parent: the sender (participant 0) is credited everything, the hub nothing
				ns.Balances[ai][0] = new(big.Int).Add(cur.Balances[ai][0], tot[ai])
				ns.Balances[ai][1] = new(big.Int).Set(cur.Balances[ai][1])
			}
			s0, e0 := channel.Sign(a.M.Acc, fin, gen.B)
			s1, e1 := channel.Sign(a.B.Acc, fin, gen.B)
			sig, e2 := channel.Sign(p.Acc, ns, gen.B)
			if e0 != nil || e1 != nil || e2 != nil {
				return []*wire.Envelope{e}
			}
			mu.Lock()
			fired++
			mu.Unlock()
			return []*wire.Envelope{{Sender: e.Sender, Recipient: e.Recipient, Msg: &client.VirtualChannelSettlementProposalMsg{
				ChannelUpdateMsg: client.ChannelUpdateMsg{ChannelUpdate: client.ChannelUpdate{State: ns, ActorIdx: m.ActorIdx}, Sig: sig},
				Final:            channel.SignedState{Params: m.Final.Params, State: fin, Sigs: []wallet.Sig{s0, s1}}}}}
		})
	}
	mk(a.M, 0, curM)
	mk(a.B, 1, curB)
	return func() int { mu.Lock(); defer mu.Unlock(); return fired }
}

// hub edits: M is participant 0 of the parent, the hub V participant 1.
type hubEdit struct {
	name string
	edit func(rng *rand.Rand, cur, orig *channel.State) *channel.State
}

var hubFundEdits = []hubEdit{
	{"control-honest-funding", func(rng *rand.Rand, cur, orig *channel.State) *channel.State { return orig }},
	{"debits-only-the-hub", func(rng *rand.Rand, cur, orig *channel.State) *channel.State {
		changed := false
		for ai := range orig.Balances {
			d := new(big.Int).Sub(cur.Balances[ai][0], orig.Balances[ai][0]) // what M should pay
			if d.Sign() > 0 && orig.Balances[ai][1].Cmp(d) >= 0 {
				orig.Balances[ai][0] = new(big.Int).Set(cur.Balances[ai][0])
				orig.Balances[ai][1] = new(big.Int).Sub(orig.Balances[ai][1], d)
				changed = true
			}
		}
		if !changed {
			return nil
		}
		return orig
	}},
	{"one-unit-from-the-hub", func(rng *rand.Rand, cur, orig *channel.State) *channel.State {
		if orig.Balances[0][1].Sign() <= 0 {
			return nil
		}
		orig.Balances[0][1] = new(big.Int).Sub(orig.Balances[0][1], bal(1))
		orig.Balances[0][0] = new(big.Int).Add(orig.Balances[0][0], bal(1))
		return orig
	}},
	{"debits-swapped", func(rng *rand.Rand, cur, orig *channel.State) *channel.State {
		changed := false
		for ai := range orig.Balances {
			d0 := new(big.Int).Sub(cur.Balances[ai][0], orig.Balances[ai][0])
			d1 := new(big.Int).Sub(cur.Balances[ai][1], orig.Balances[ai][1])
			if d0.Cmp(d1) != 0 && cur.Balances[ai][0].Cmp(d1) >= 0 && cur.Balances[ai][1].Cmp(d0) >= 0 {
				orig.Balances[ai][0] = new(big.Int).Sub(cur.Balances[ai][0], d1)
				orig.Balances[ai][1] = new(big.Int).Sub(cur.Balances[ai][1], d0)
				changed = true
			}
		}
		if !changed {
			return nil
		}
		return orig
	}},
	{"also-renames-another-sub-allocation", func(rng *rand.Rand, cur, orig *channel.State) *channel.State {
		if len(orig.Locked) < 2 {
			return nil
		}
		orig.Locked[0].ID[9] ^= 4
		return orig
	}},
	{"also-moves-funds-out-of-another-sub-allocation", func(rng *rand.Rand, cur, orig *channel.State) *channel.State {
		if len(orig.Locked) < 2 || orig.Locked[0].Bals[0].Sign() <= 0 {
			return nil
		}
		orig.Locked[0].Bals[0] = new(big.Int).Sub(orig.Locked[0].Bals[0], bal(1))
		orig.Balances[0][0] = new(big.Int).Add(orig.Balances[0][0], bal(1))
		return orig
	}},
	{"locked-amount-larger-taken-from-the-hub", func(rng *rand.Rand, cur, orig *channel.State) *channel.State {
		l := len(orig.Locked) - 1
		if l < 0 || orig.Balances[0][1].Sign() <= 0 {
			return nil
		}
		orig.Locked[l].Bals[0] = new(big.Int).Add(orig.Locked[l].Bals[0], bal(1))
		orig.Balances[0][1] = new(big.Int).Sub(orig.Balances[0][1], bal(1))
		return orig
	}},
	{"index-map-in-the-state-swapped-and-debits-to-match", func(rng *rand.Rand, cur, orig *channel.State) *channel.State {
		// the message announces the honest index map; the state carries another one and debits
		// the parent consistently with that one (the hub pays the sender's share)
		l := len(orig.Locked) - 1
		if l < 0 || len(orig.Locked[l].IndexMap) != 2 {
			return nil
		}
		changed := false
		for ai := range orig.Balances {
			d0 := new(big.Int).Sub(cur.Balances[ai][0], orig.Balances[ai][0])
			d1 := new(big.Int).Sub(cur.Balances[ai][1], orig.Balances[ai][1])
			if d0.Cmp(d1) != 0 && cur.Balances[ai][0].Cmp(d1) >= 0 && cur.Balances[ai][1].Cmp(d0) >= 0 {
				orig.Balances[ai][0] = new(big.Int).Sub(cur.Balances[ai][0], d1)
				orig.Balances[ai][1] = new(big.Int).Sub(cur.Balances[ai][1], d0)
				changed = true
			}
		}
		if !changed {
			return nil
		}
		im := orig.Locked[l].IndexMap
		orig.Locked[l].IndexMap = []channel.Index{im[1], im[0]}
		return orig
	}},
	{"index-map-in-the-state-all-to-the-hub-and-debits-to-match", func(rng *rand.Rand, cur, orig *channel.State) *channel.State {
		l := len(orig.Locked) - 1
		if l < 0 || len(orig.Locked[l].IndexMap) != 2 {
			return nil
		}
		for ai := range orig.Balances {
			tot := orig.Locked[l].Bals[ai]
			if cur.Balances[ai][1].Cmp(tot) < 0 {
				return nil
			}
			orig.Balances[ai][0] = new(big.Int).Set(cur.Balances[ai][0])
			orig.Balances[ai][1] = new(big.Int).Sub(cur.Balances[ai][1], tot)
		}
		orig.Locked[l].IndexMap = []channel.Index{1, 1}
		return orig
	}},
	{"index-map-in-the-state-points-both-to-the-hub", func(rng *rand.Rand, cur, orig *channel.State) *channel.State {
		l := len(orig.Locked) - 1
		if l < 0 {
			return nil
		}
		orig.Locked[l].IndexMap = []channel.Index{1, 1}
		return orig
	}},
}

var hubSettleEdits = []hubEdit{
	{"control-honest-settlement", func(rng *rand.Rand, cur, orig *channel.State) *channel.State { return orig }},
	{"one-unit-from-the-hub", func(rng *rand.Rand, cur, orig *channel.State) *channel.State {
		if orig.Balances[0][1].Sign() <= 0 {
			return nil
		}
		orig.Balances[0][1] = new(big.Int).Sub(orig.Balances[0][1], bal(1))
		orig.Balances[0][0] = new(big.Int).Add(orig.Balances[0][0], bal(1))
		return orig
	}},
	{"credits-swapped", func(rng *rand.Rand, cur, orig *channel.State) *channel.State {
		changed := false
		for ai := range orig.Balances {
			d0 := new(big.Int).Sub(orig.Balances[ai][0], cur.Balances[ai][0])
			d1 := new(big.Int).Sub(orig.Balances[ai][1], cur.Balances[ai][1])
			if d0.Cmp(d1) != 0 {
				orig.Balances[ai][0] = new(big.Int).Add(cur.Balances[ai][0], d1)
				orig.Balances[ai][1] = new(big.Int).Add(cur.Balances[ai][1], d0)
				changed = true
			}
		}
		if !changed {
			return nil
		}
		return orig
	}},
	{"also-renames-another-sub-allocation", func(rng *rand.Rand, cur, orig *channel.State) *channel.State {
		if len(orig.Locked) < 1 {
			return nil
		}
		orig.Locked[0].ID[9] ^= 4
		return orig
	}},
	{"also-moves-funds-between-other-sub-allocations", func(rng *rand.Rand, cur, orig *channel.State) *channel.State {
		if len(orig.Locked) < 2 || orig.Locked[0].Bals[0].Sign() <= 0 {
			return nil
		}
		orig.Locked[0].Bals[0] = new(big.Int).Sub(orig.Locked[0].Bals[0], bal(1))
		orig.Locked[1].Bals[0] = new(big.Int).Add(orig.Locked[1].Bals[0], bal(1))
		return orig
	}},
	{"keeps-the-sub-allocation-and-credits-anyway", func(rng *rand.Rand, cur, orig *channel.State) *channel.State {
		// handled by sum conservation; kept as a sanity case
		orig.Locked = cur.Clone().Locked
		return orig
	}},
}

func (a *hubArena) setCase(point, kind string) {
	a.mu.Lock()
	a.point, a.kind = point, kind
	a.mu.Unlock()
}

// hubHistory runs one hub arena; returns the number of crafted proposals.
func hubHistory(s sink.Sink, em *childrun.Emitter, rng *rand.Rand, sample bool) int {
	a, msg := newHubArena(rng)
	if a == nil {
		s.Inconclusive("hub arena setup failed: " + msg)
		return 1
	}
	defer a.w.Abandon() // library timeouts may be pending after a refused proposal
	report := func() bool {
		a.w.QuiesceFor(200 * time.Millisecond)
		a.mu.Lock()
		vs := a.verdicts
		a.verdicts = nil
		a.mu.Unlock()
		bad := false
		for _, v := range vs {
			s.Count("hub_signatures_judged", 1)
			if v.ok {
				s.Count("hub_signatures_acceptable", 1)
				continue
			}
			bad = true
			s.Violation("C07/signed-unsafe/"+v.point+"/"+v.kind, fmt.Sprintf("the hub countersigned an update it must not sign (%s; crafted proposal: %s at life point: %s)", v.why, v.kind, v.point),
				witness{Point: v.point, Kind: v.kind, Current: trunc(canon.String(v.cur)), Staged: trunc(canon.String(v.st)), Actor: v.actor, Why: v.why})
		}
		return !bad
	}
	n := 0
	nAssets := len(a.w.Assets)
	// other sub-allocations in the parent M-V: sub-channels M-V opened honestly
	for k := rng.Intn(3); k > 0; k-- {
		init := make([][]int64, nAssets)
		for ai := range init {
			init[ai] = []int64{1 + int64(rng.Intn(3)), 1 + int64(rng.Intn(3))}
		}
		sub, err := a.M.OpenSubChannel(a.mvM, init, 10)
		if err != nil {
			s.Inconclusive("hub arena: sub-channel opening failed: " + err.Error())
			return 1
		}
		a.V.AwaitChannel(sub.ID())
	}
	a.w.Quiesce()
	a.mu.Lock()
	a.verdicts = nil // sub-channel funding is the two-party workload's subject
	a.mu.Unlock()

	// --- funding
	fe := hubFundEdits[rng.Intn(len(hubFundEdits))]
	if rng.Intn(3) == 0 {
		fe = hubFundEdits[0] // controls lead on to the settlement cases
	}
	point := "virtual-channel-funding"
	a.setCase(point, fe.name)
	em.Progress(point + " " + fe.name)
	alloc := channel.NewAllocation(2, hubBackends(nAssets), append([]channel.Asset(nil), a.w.Assets...)...)
	for ai := range alloc.Balances {
		alloc.Balances[ai] = []channel.Bal{bal(1 + int64(rng.Intn(6))), bal(1 + int64(rng.Intn(6)))}
	}
	imaps := [][]channel.Index{{0, 1}, {1, 0}}
	swapped := rng.Intn(12) == 0
	if swapped {
		// through the public API alone: M announces a swapped index map for her own parent, so that
		// the hub would put up M's share and M the (smaller) share of the partner
		imaps = [][]channel.Index{{1, 0}, {1, 0}}
		fe = hubFundEdits[0]
		fe.name = "proposal-with-swapped-index-map-for-the-proposers-parent"
		for ai := range alloc.Balances {
			alloc.Balances[ai] = []channel.Bal{bal(2 + int64(rng.Intn(6))), bal(0)}
		}
		a.setCase(point, fe.name)
	}
	prop, err := client.NewVirtualChannelProposal(10, a.M.WAddr, alloc, []map[wallet.BackendID]wire.Address{a.M.Wire, a.B.Wire},
		[]channel.ID{a.mvM.ID(), a.bvB.ID()}, imaps)
	if err != nil {
		s.Inconclusive("hub arena: " + err.Error())
		return 1
	}
	cur := a.mvV.State()
	applied := false
	fired := a.rewriteVirtual(false, func(orig *channel.State) *channel.State {
		var out *channel.State
		func() {
			defer func() { _ = recover() }()
			out = fe.edit(rng, cur, orig)
		}()
		applied = out != nil
		return out
	})
	if fe.name != "control-honest-funding" {
		a.M.Timeout = 1500 * time.Millisecond
	}
	if swapped {
		a.M.Timeout = 12 * time.Second // the hub answers after its matching wait of 10 s
	}
	ctx, cancel := a.M.Ctx()
	vch, err := a.M.Client.ProposeChannel(ctx, prop)
	cancel()
	a.M.Timeout = 30 * time.Second
	a.w.Bus.SetRewriter(a.M.Wire, nil)
	if !fired() {
		s.Inconclusive("the funding proposal was not observed on the adversary's link")
		return 1
	}
	n++
	s.Case(point+"|"+fe.name, applied)
	s.Seen("crafted_kinds", "virtual-funding/"+fe.name)
	s.Seen("life_points", point)
	if swapped {
		applied = true
	}
	if !report() || err != nil || swapped || (applied && !strings.HasPrefix(fe.name, "control")) {
		return n
	}
	virtB := a.B.AwaitChannelNoWatch(vch.ID())
	if virtB == nil {
		s.Inconclusive("hub arena: the responder never obtained the virtual channel")
		return n
	}
	s.Count("virtual_channels_funded_honestly", 1)

	// --- a sub-channel opened by the adversary next to the virtual channel's sub-allocation: its
	// funding update is exact but also rewrites the virtual channel's index map
	if rng.Intn(5) == 0 {
		name := "sub-channel-funding-rewrites-the-index-map-of-the-virtual-channel"
		point := "sub-channel-funding-next-to-a-virtual-channel"
		a.setCase(point, name)
		em.Progress(point + " " + name)
		a.mu.Lock()
		a.subFunding = true
		a.mu.Unlock()
		nLocked := len(a.mvV.State().Locked)
		var fmu sync.Mutex
		fired := false
		control := rng.Intn(4) == 0
		a.w.Bus.SetRewriter(a.M.Wire, func(e *wire.Envelope) []*wire.Envelope {
			m, ok := e.Msg.(*client.ChannelUpdateMsg)
			if !ok || m.State == nil || len(m.State.Locked) <= nLocked {
				return []*wire.Envelope{e}
			}
			fmu.Lock()
			defer fmu.Unlock()
			if fired {
				return []*wire.Envelope{e}
			}
			fired = true
			if control {
				return []*wire.Envelope{e}
			}
			ns := m.State.Clone()
			for i := range ns.Locked {
				if len(ns.Locked[i].IndexMap) == 2 {
					ns.Locked[i].IndexMap = []channel.Index{0, 0}
				}
			}
			sig, err := channel.Sign(a.M.Acc, ns, gen.B)
			if err != nil {
				return []*wire.Envelope{e}
			}
			return []*wire.Envelope{{Sender: e.Sender, Recipient: e.Recipient, Msg: &client.ChannelUpdateMsg{ChannelUpdate: client.ChannelUpdate{State: ns, ActorIdx: m.ActorIdx}, Sig: sig}}}
		})
		init := make([][]int64, nAssets)
		for ai := range init {
			init[ai] = []int64{1 + int64(rng.Intn(3)), 1 + int64(rng.Intn(3))}
		}
		if !control {
			a.M.Timeout = 1500 * time.Millisecond
			name2 := name
			_ = name2
		} else {
			a.setCase(point, "control-honest-sub-channel-funding")
		}
		_, _ = a.M.OpenSubChannel(a.mvM, init, 10)
		a.M.Timeout = 30 * time.Second
		a.w.Bus.SetRewriter(a.M.Wire, nil)
		fmu.Lock()
		f := fired
		fmu.Unlock()
		if f {
			n++
			s.Case(point+"|"+name, !control)
			s.Seen("crafted_kinds", "sub-channel-funding/"+name)
			s.Seen("life_points", point)
			report()
		}
		a.mu.Lock()
		a.subFunding = false
		a.mu.Unlock()
		return n
	}

	// --- settlement
	for k := rng.Intn(3); k > 0; k-- {
		_ = a.M.Pay(vch, 0, int64(rng.Intn(2)), false)
		_ = a.B.Pay(virtB, 0, int64(rng.Intn(2)), false)
	}
	if err := a.M.Pay(vch, 0, 0, true); err != nil {
		s.Inconclusive("hub arena: final update failed: " + err.Error())
		return n
	}
	point = "virtual-channel-settlement"
	if rng.Intn(12) == 0 {
		// both participants collude (each case costs the hub's matching wait of 10 s)
		name := "both-participants-settle-with-their-own-final-state-of-the-same-version"
		a.setCase(point, name)
		em.Progress(point + " " + name)
		fired := a.colludeSettlement(a.mvV.State(), a.bvV.State())
		a.M.Timeout, a.B.Timeout = 13*time.Second, 13*time.Second
		errs := make(chan error, 2)
		go func() { ctx, c := a.M.Ctx(); defer c(); errs <- vch.Settle(ctx, false) }()
		go func() { ctx, c := a.B.Ctx(); defer c(); errs <- virtB.Settle(ctx, false) }()
		<-errs
		<-errs
		a.w.Bus.SetRewriter(a.M.Wire, nil)
		a.w.Bus.SetRewriter(a.B.Wire, nil)
		if fired() == 2 {
			n++
			s.Case(point+"|"+name, true)
			s.Seen("crafted_kinds", "virtual-settlement/"+name)
			s.Seen("life_points", point)
			report()
		} else {
			s.Count("colluding_settlements_not_sent", 1)
		}
		return n
	}
	se := hubSettleEdits[rng.Intn(len(hubSettleEdits))]
	a.setCase(point, se.name)
	em.Progress(point + " " + se.name)
	cur = a.mvV.State()
	applied = false
	fired = a.rewriteVirtual(true, func(orig *channel.State) *channel.State {
		var out *channel.State
		func() {
			defer func() { _ = recover() }()
			out = se.edit(rng, cur, orig)
		}()
		applied = out != nil
		return out
	})
	if se.name != "control-honest-settlement" {
		a.M.Timeout, a.B.Timeout = 1500*time.Millisecond, 1500*time.Millisecond
	}
	errs := make(chan error, 2)
	go func() { ctx, c := a.M.Ctx(); defer c(); errs <- vch.Settle(ctx, false) }()
	go func() { ctx, c := a.B.Ctx(); defer c(); errs <- virtB.Settle(ctx, false) }()
	<-errs
	<-errs
	a.w.Bus.SetRewriter(a.M.Wire, nil)
	if fired() {
		n++
		s.Case(point+"|"+se.name, applied)
		s.Seen("crafted_kinds", "virtual-settlement/"+se.name)
		s.Seen("life_points", point)
		report()
	}
	if sample {
		s.Sample(map[string]any{"hub_workload": "victim = hub of a virtual channel M-B; M's funding / settlement proposal rewritten on its own link", "funding_edits": len(hubFundEdits), "settlement_edits": len(hubSettleEdits), "this_history": fe.name + " / " + se.name})
	}
	return n
}

func hubBackends(n int) []wallet.BackendID {
	b := make([]wallet.BackendID, n)
	for i := range b {
		b[i] = gen.B
	}
	return b
}
