// Package all links every property check into the driver.
package all

import (
	_ "verif/props/c02"
	_ "verif/props/c03"
	_ "verif/props/c04"
	_ "verif/props/c05"
	_ "verif/props/c06"
	_ "verif/props/c07"
	_ "verif/props/c08"
	_ "verif/props/c10"
	_ "verif/props/c11"
	_ "verif/props/c12"
	_ "verif/props/c13"
	_ "verif/props/c14"
	_ "verif/props/c15"
	_ "verif/props/c16"
	_ "verif/props/c17"
	_ "verif/props/c18"
	_ "verif/props/c19"
	_ "verif/props/c20"
	_ "verif/props/cmachine"
)
