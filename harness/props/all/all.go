// Package all links every property check into the driver.
package all

import (
	_ "verif/props/c14"
	_ "verif/props/c16"
)
