package c12

// Protocol deviations: the adversary M is a real client whose own network link is manipulated -
// messages held back until the victim's matching wait has given up, or a response replaced by
// another well-formed one. What arrives at the victim is decodable and correctly signed, only
// late or of an unexpected kind. Afterwards the usual probes run.

import (
	"context"
	"fmt"
	"math/big"
	"math/rand"
	"perun.network/go-perun/wallet"
	"runtime/debug"
	"sync"
	"sync/atomic"
	"time"

	"perun.network/go-perun/channel"
	"perun.network/go-perun/client"
	"perun.network/go-perun/wire"

	"verif/internal/childrun"
	"verif/internal/gen"
	"verif/internal/party"
	"verif/internal/sink"
)

type deviation struct {
	name string
	run  func(rng *rand.Rand, a *arena) (applied bool)
	virt bool // needs the live virtual channel H-M through the hub V
}

// holdFromM keeps back M's envelopes selected by pick and returns a function delivering them.
func holdFromM(a *arena, pick func(e *wire.Envelope) bool) (release func() int, held func() int) {
	var mu sync.Mutex
	var kept []*wire.Envelope
	a.w.Bus.SetRewriter(a.M.Wire, func(e *wire.Envelope) []*wire.Envelope {
		if pick(e) {
			mu.Lock()
			kept = append(kept, e)
			mu.Unlock()
			return nil
		}
		return []*wire.Envelope{e}
	})
	release = func() int {
		a.w.Bus.SetRewriter(a.M.Wire, nil)
		mu.Lock()
		ks := kept
		kept = nil
		mu.Unlock()
		for _, e := range ks {
			a.w.Bus.Inject(e)
		}
		return len(ks)
	}
	held = func() int { mu.Lock(); defer mu.Unlock(); return len(kept) }
	return
}

func waitUntil(d time.Duration, cond func() bool) bool {
	deadline := time.Now().Add(d)
	for time.Now().Before(deadline) {
		if cond() {
			return true
		}
		time.Sleep(2 * time.Millisecond)
	}
	return cond()
}

func acceptErrs(p *party.Party) int { return len(p.AcceptErrors()) }

var deviations = []deviation{
	{name: "late/sub-channel-funding-after-the-accept-gave-up", run: func(rng *rand.Rand, a *arena) bool {
		parent := a.chM.ID()
		nLocked := len(a.chM.State().Locked)
		release, held := holdFromM(a, func(e *wire.Envelope) bool {
			u, ok := e.Msg.(*client.ChannelUpdateMsg)
			return ok && u.State != nil && u.State.ID == parent && len(u.State.Locked) > nLocked
		})
		before := acceptErrs(a.V)
		a.V.SetTimeout(300 * time.Millisecond)
		a.M.SetTimeout(2 * time.Second)
		done := make(chan struct{})
		go func() {
			defer close(done)
			_, _ = a.M.OpenSubChannel(a.chM, bals(len(a.w.Assets), 2, 2), 10)
		}()
		ok := waitUntil(5*time.Second, func() bool { return held() > 0 && acceptErrs(a.V) > before })
		a.V.SetTimeout(20 * time.Second)
		n := release()
		<-done
		a.M.SetTimeout(20 * time.Second)
		return ok && n > 0
	}},
	{name: "late/sub-channel-settlement-after-settle-gave-up", run: func(rng *rand.Rand, a *arena) bool {
		sub, err := a.M.OpenSubChannel(a.chM, bals(len(a.w.Assets), 2, 2), 10)
		if err != nil {
			return false
		}
		subV := a.V.AwaitChannel(sub.ID())
		if subV == nil {
			return false
		}
		if err := a.M.Pay(sub, 0, int64(rng.Intn(2)), true); err != nil {
			return false
		}
		parent := a.chM.ID()
		nLocked := len(a.chM.State().Locked)
		release, held := holdFromM(a, func(e *wire.Envelope) bool {
			u, ok := e.Msg.(*client.ChannelUpdateMsg)
			return ok && u.State != nil && u.State.ID == parent && len(u.State.Locked) < nLocked
		})
		a.V.SetTimeout(300 * time.Millisecond)
		a.M.SetTimeout(2 * time.Second)
		errs := make(chan error, 2)
		go func() { ctx, c := a.M.Ctx(); defer c(); errs <- sub.Settle(ctx, false) }()
		go func() { ctx, c := a.V.Ctx(); defer c(); errs <- subV.Settle(ctx, false) }()
		vGaveUp := false
		for i := 0; i < 2; i++ {
			select {
			case <-errs:
			case <-time.After(6 * time.Second):
			}
			if i == 0 {
				vGaveUp = true
			}
		}
		a.V.SetTimeout(20 * time.Second)
		a.M.SetTimeout(20 * time.Second)
		ok := held() > 0
		n := release()
		return ok && vGaveUp && n > 0
	}},
	{name: "late/update-accept-after-the-update-gave-up", run: func(rng *rand.Rand, a *arena) bool {
		id := a.chM.ID()
		release, held := holdFromM(a, func(e *wire.Envelope) bool {
			m, ok := e.Msg.(*client.ChannelUpdateAccMsg)
			return ok && m.ChannelID == id
		})
		a.V.SetTimeout(300 * time.Millisecond)
		err := a.V.Pay(a.chV, 0, 1, false)
		a.V.SetTimeout(20 * time.Second)
		ok := err != nil && held() > 0
		n := release()
		return ok && n > 0
	}},
	{name: "late/virtual-settlement-after-the-partner-was-refused", virt: true, run: func(rng *rand.Rand, a *arena) bool {
		// Both participants settle the virtual channel, but M's settlement proposal reaches the hub
		// only after the hub has given up waiting for it (10 s) and refused the partner's.
		virtH := a.H.Channel(a.virtM.ID())
		if virtH == nil {
			return false
		}
		if err := a.H.Pay(virtH, 0, 0, true); err != nil {
			return false
		}
		release, held := holdFromM(a, func(e *wire.Envelope) bool {
			_, ok := e.Msg.(*client.VirtualChannelSettlementProposalMsg)
			return ok
		})
		a.M.SetTimeout(40 * time.Second)
		a.H.SetTimeout(40 * time.Second)
		errs := make(chan error, 2)
		go func() { ctx, c := a.M.Ctx(); defer c(); errs <- a.virtM.Settle(ctx, false) }()
		go func() { ctx, c := a.H.Ctx(); defer c(); errs <- virtH.Settle(ctx, false) }()
		// the partner's proposal is refused after the hub's matching wait
		select {
		case <-errs:
		case <-time.After(25 * time.Second):
		}
		ok := held() > 0
		n := release()
		// give M's late proposal its own wait at the hub
		select {
		case <-errs:
		case <-time.After(25 * time.Second):
		}
		a.M.SetTimeout(20 * time.Second)
		a.H.SetTimeout(20 * time.Second)
		return ok && n > 0
	}},
	{name: "virtual-funding/the-adversary-has-gone-offline-when-the-hub-answers", run: func(rng *rand.Rand, a *arena) bool {
		// M and H fund a virtual channel through the hub V with perfectly valid proposals, but M
		// closes its connection right after sending its funding proposal: the hub's answer to M
		// cannot be delivered.
		n := len(a.w.Assets)
		alloc := channel.NewAllocation(2, backends(n), append([]channel.Asset(nil), a.w.Assets...)...)
		for i := range alloc.Balances {
			alloc.Balances[i] = []channel.Bal{big.NewInt(3), big.NewInt(3)}
		}
		proposer, parents, maps := a.H, []channel.ID{a.ctlV.ID(), a.chM.ID()}, [][]channel.Index{{0, 1}, {1, 0}}
		peers := []map[wallet.BackendID]wire.Address{a.H.Wire, a.M.Wire}
		if rng.Intn(2) == 0 {
			proposer, parents, maps = a.M, []channel.ID{a.chM.ID(), a.ctlV.ID()}, [][]channel.Index{{0, 1}, {1, 0}}
			peers = []map[wallet.BackendID]wire.Address{a.M.Wire, a.H.Wire}
		}
		prop, err := client.NewVirtualChannelProposal(10, proposer.WAddr, alloc, peers, parents, maps)
		if err != nil {
			return false
		}
		mKey, vKey := wire.Keys(a.M.Wire), wire.Keys(a.V.Wire)
		var refused int64
		a.w.Bus.SetSendFault(func(_ context.Context, e *wire.Envelope) error {
			if wire.Keys(e.Sender) != vKey || wire.Keys(e.Recipient) != mKey {
				return nil
			}
			switch e.Msg.(type) {
			case *client.ChannelUpdateAccMsg, *client.ChannelUpdateRejMsg:
				atomic.AddInt64(&refused, 1)
				return fmt.Errorf("connection closed by the peer")
			}
			return nil
		})
		a.M.SetTimeout(3 * time.Second)
		a.H.SetTimeout(3 * time.Second)
		ctx, cancel := proposer.Ctx()
		_, _ = proposer.Client.ProposeChannel(ctx, prop)
		cancel()
		ok := waitUntil(15*time.Second, func() bool { return atomic.LoadInt64(&refused) > 0 })
		time.Sleep(50 * time.Millisecond)
		a.w.Bus.SetSendFault(nil)
		a.M.SetTimeout(20 * time.Second)
		a.H.SetTimeout(20 * time.Second)
		return ok
	}},
	{name: "sync/the-sender-cannot-be-reached", run: func(rng *rand.Rand, a *arena) bool {
		// A sync message for the attacked channel from an address nobody listens on: the victim's
		// reply cannot be delivered (Publish returns only when its context ends, as on real buses).
		ghost := gen.WireAddr(rng)
		gk := wire.Keys(ghost)
		var blocked int64
		a.w.Bus.SetSendFault(func(ctx context.Context, e *wire.Envelope) error {
			if wire.Keys(e.Recipient) != gk {
				return nil
			}
			atomic.AddInt64(&blocked, 1)
			<-ctx.Done()
			return ctx.Err()
		})
		st := a.chM.State().Clone()
		sigs := make([]wallet.Sig, 2)
		if rng.Intn(2) == 0 {
			sigs = []wallet.Sig{signM(a, st), nil}
		}
		a.w.Bus.Inject(&wire.Envelope{Sender: ghost, Recipient: a.V.Wire, Msg: &client.ChannelSyncMsg{Phase: channel.Acting, CurrentTX: channel.Transaction{State: st, Sigs: sigs}}})
		return waitUntil(5*time.Second, func() bool { return atomic.LoadInt64(&blocked) > 0 })
	}},
	{name: "opening/sub-channel-signature-withheld-but-funding-update-sent", run: func(rng *rand.Rand, a *arena) bool {
		// M proposes a sub-channel, V accepts; M withholds its signature on the version-0 state (V's
		// opening fails) but sends the funding update of the parent channel all the same.
		var mu sync.Mutex
		dropped := 0
		a.w.Bus.SetRewriter(a.M.Wire, func(e *wire.Envelope) []*wire.Envelope {
			if m, ok := e.Msg.(*client.ChannelUpdateAccMsg); ok && m.Version == 0 && m.ChannelID != a.chM.ID() {
				mu.Lock()
				dropped++
				mu.Unlock()
				return nil
			}
			return []*wire.Envelope{e}
		})
		a.V.SetTimeout(1500 * time.Millisecond)
		a.M.SetTimeout(4 * time.Second)
		_, _ = a.M.OpenSubChannel(a.chM, bals(len(a.w.Assets), 2, 2), 10)
		a.w.Bus.SetRewriter(a.M.Wire, nil)
		a.V.SetTimeout(20 * time.Second)
		a.M.SetTimeout(20 * time.Second)
		mu.Lock()
		defer mu.Unlock()
		return dropped > 0
	}},
	{name: "hub-virtual/stray-update-response-for-the-virtual-channel-then-its-settlement", virt: true, run: func(rng *rand.Rand, a *arena) bool {
		// Somebody sends the hub an update response naming the virtual channel it routes (nobody
		// asked for one); later the two participants settle the virtual channel honestly.
		virtH := a.H.Channel(a.virtM.ID())
		if virtH == nil {
			return false
		}
		from := a.M
		if rng.Intn(2) == 0 {
			from = a.S
		}
		var msg wire.Msg = &client.ChannelUpdateAccMsg{ChannelID: a.virtM.ID(), Version: uint64(rng.Intn(3)), Sig: gen.FakeSig(rng)}
		if rng.Intn(2) == 0 {
			msg = &client.ChannelUpdateRejMsg{ChannelID: a.virtM.ID(), Version: uint64(rng.Intn(3)), Reason: "no"}
		}
		a.w.Bus.Inject(&wire.Envelope{Sender: from.Wire, Recipient: a.V.Wire, Msg: msg})
		waitUntil(2*time.Second, func() bool { return a.w.Bus.Drained() })
		if err := a.H.Pay(virtH, 0, 0, true); err != nil {
			return false
		}
		a.M.SetTimeout(25 * time.Second)
		a.H.SetTimeout(25 * time.Second)
		errs := make(chan error, 2)
		go func() { ctx, c := a.M.Ctx(); defer c(); errs <- a.virtM.Settle(ctx, false) }()
		go func() { ctx, c := a.H.Ctx(); defer c(); errs <- virtH.Settle(ctx, false) }()
		for i := 0; i < 2; i++ {
			select {
			case <-errs:
			case <-time.After(30 * time.Second):
			}
		}
		a.M.SetTimeout(20 * time.Second)
		a.H.SetTimeout(20 * time.Second)
		return true
	}},
	{name: "hub/three-participant-virtual-channel-funded-and-settled-by-two-colluding-parties", run: func(rng *rand.Rand, a *arena) bool {
		// M and H (both with valid keys and a ledger channel with the hub V) fund a virtual channel
		// with THREE participants through the hub - two matching, correctly signed funding
		// proposals the hub's validation accepts - and then settle it.
		n := len(a.w.Assets)
		x := gen.Account(rng)
		xAddr := gen.AddrMap(x.Address())
		params, err := channel.NewParams(10, []map[wallet.BackendID]wallet.Address{a.M.WAddr, a.H.WAddr, xAddr}, channel.NoApp(), gen.Nonce(rng), false, true, channel.Aux{})
		if err != nil {
			return false
		}
		mkState := func(ver uint64, final bool) *channel.State {
			st := &channel.State{ID: params.ID(), Version: ver, App: channel.NoApp(), Data: channel.NoData(), IsFinal: final}
			st.Assets = append([]channel.Asset(nil), a.w.Assets...)
			st.Backends = backends(n)
			st.Balances = make(channel.Balances, n)
			for i := range st.Balances {
				st.Balances[i] = []channel.Bal{big.NewInt(0), big.NewInt(2), big.NewInt(3)}
			}
			return st
		}
		signAll := func(st *channel.State) ([]wallet.Sig, bool) {
			s0, e0 := channel.Sign(a.M.Acc, st, gen.B)
			s1, e1 := channel.Sign(a.H.Acc, st, gen.B)
			s2, e2 := channel.Sign(x, st, gen.B)
			return []wallet.Sig{s0, s1, s2}, e0 == nil && e1 == nil && e2 == nil
		}
		// per parent: (channel at V, the peer's account, index map, what the two parent participants put up)
		type side struct {
			chV  *client.Channel
			peer *party.Party
			im   []channel.Index
			put  [2]int64
		}
		sides := []side{{a.chV, a.M, []channel.Index{0, 1, 0}, [2]int64{3, 2}}, {a.ctlV, a.H, []channel.Index{1, 0, 1}, [2]int64{2, 3}}}
		upd := func(sd side, st *channel.State) (client.ChannelUpdateMsg, bool) {
			sig, err := channel.Sign(sd.peer.Acc, st, gen.B)
			return client.ChannelUpdateMsg{ChannelUpdate: client.ChannelUpdate{State: st, ActorIdx: 0}, Sig: sig}, err == nil
		}
		ini := mkState(0, false)
		iniSigs, ok := signAll(ini)
		if !ok {
			return false
		}
		tot := ini.Allocation.Sum()
		for _, sd := range sides {
			st := succ(sd.chV.State())
			for ai := range st.Balances {
				for p := 0; p < 2; p++ {
					st.Balances[ai][p] = new(big.Int).Sub(st.Balances[ai][p], big.NewInt(sd.put[p]))
					if st.Balances[ai][p].Sign() < 0 {
						return false
					}
				}
			}
			st.Locked = append(st.Locked, channel.SubAlloc{ID: ini.ID, Bals: tot, IndexMap: sd.im})
			u, ok := upd(sd, st)
			if !ok {
				return false
			}
			a.w.Bus.Inject(&wire.Envelope{Sender: sd.peer.Wire, Recipient: a.V.Wire, Msg: &client.VirtualChannelFundingProposalMsg{ChannelUpdateMsg: u, Initial: channel.SignedState{Params: params, State: ini, Sigs: iniSigs}, IndexMap: sd.im}})
		}
		locked := func(ch *client.Channel) bool {
			_, ok := ch.State().SubAlloc(ini.ID)
			return ok
		}
		if !waitUntil(8*time.Second, func() bool { return locked(a.chV) && locked(a.ctlV) }) {
			return false // the hub did not take the funding: nothing to settle
		}
		fin := mkState(1, true)
		finSigs, ok := signAll(fin)
		if !ok {
			return false
		}
		for _, sd := range sides {
			cur := sd.chV.State()
			st := succ(cur)
			st.Locked = nil
			for _, l := range cur.Locked {
				if l.ID != ini.ID {
					st.Locked = append(st.Locked, l)
				}
			}
			for ai := range st.Balances {
				for p := 0; p < 2; p++ {
					st.Balances[ai][p] = new(big.Int).Add(st.Balances[ai][p], big.NewInt(sd.put[p]))
				}
			}
			u, ok := upd(sd, st)
			if !ok {
				return false
			}
			a.w.Bus.Inject(&wire.Envelope{Sender: sd.peer.Wire, Recipient: a.V.Wire, Msg: &client.VirtualChannelSettlementProposalMsg{ChannelUpdateMsg: u, Final: channel.SignedState{Params: params, State: fin, Sigs: finSigs}}})
		}
		waitUntil(12*time.Second, func() bool { return !locked(a.chV) && !locked(a.ctlV) })
		return true
	}},
	{name: "opening/version-0-signature-replaced", run: func(rng *rand.Rand, a *arena) bool {
		// M answers the version-0 signature exchange of a new channel with something else
		variant := rng.Intn(5)
		var mu sync.Mutex
		fired := false
		a.w.Bus.SetRewriter(a.M.Wire, func(e *wire.Envelope) []*wire.Envelope {
			m, ok := e.Msg.(*client.ChannelUpdateAccMsg)
			mu.Lock()
			defer mu.Unlock()
			if !ok || m.Version != 0 || fired {
				return []*wire.Envelope{e}
			}
			fired = true
			mk := func(msg wire.Msg) *wire.Envelope {
				return &wire.Envelope{Sender: e.Sender, Recipient: e.Recipient, Msg: msg}
			}
			switch variant {
			case 0:
				return []*wire.Envelope{mk(&client.ChannelUpdateRejMsg{ChannelID: m.ChannelID, Version: 0, Reason: "no"})}
			case 1:
				return []*wire.Envelope{mk(&client.ChannelUpdateAccMsg{ChannelID: m.ChannelID, Version: 0, Sig: gen.FakeSig(rng)})}
			case 2:
				return []*wire.Envelope{mk(&client.ChannelUpdateRejMsg{ChannelID: m.ChannelID, Version: 0, Reason: "no"}), e}
			case 3:
				return []*wire.Envelope{e, e, mk(&client.ChannelUpdateRejMsg{ChannelID: m.ChannelID, Version: 0, Reason: "late"})}
			default:
				return []*wire.Envelope{mk(&client.ChannelUpdateAccMsg{ChannelID: m.ChannelID, Version: 0, Sig: nil})}
			}
		})
		a.V.SetTimeout(1500 * time.Millisecond)
		a.M.SetTimeout(1500 * time.Millisecond)
		if rng.Intn(2) == 0 {
			_, _ = a.V.OpenLedgerChannel(a.M, bals(len(a.w.Assets), 3, 3), 10)
		} else {
			_, _ = a.M.OpenLedgerChannel(a.V, bals(len(a.w.Assets), 3, 3), 10)
		}
		a.w.Bus.SetRewriter(a.M.Wire, nil)
		a.V.SetTimeout(20 * time.Second)
		a.M.SetTimeout(20 * time.Second)
		mu.Lock()
		defer mu.Unlock()
		return fired
	}},
	{name: "opening/proposal-accept-replaced", run: func(rng *rand.Rand, a *arena) bool {
		// M answers V's ledger channel proposal with an accept of another kind / twice / after a reject
		variant := rng.Intn(4)
		var mu sync.Mutex
		fired := false
		a.w.Bus.SetRewriter(a.M.Wire, func(e *wire.Envelope) []*wire.Envelope {
			m, ok := e.Msg.(*client.LedgerChannelProposalAccMsg)
			mu.Lock()
			defer mu.Unlock()
			if !ok || fired {
				return []*wire.Envelope{e}
			}
			fired = true
			mk := func(msg wire.Msg) *wire.Envelope {
				return &wire.Envelope{Sender: e.Sender, Recipient: e.Recipient, Msg: msg}
			}
			switch variant {
			case 0:
				return []*wire.Envelope{mk(&client.SubChannelProposalAccMsg{BaseChannelProposalAcc: m.BaseChannelProposalAcc})}
			case 1:
				return []*wire.Envelope{e, e}
			case 2:
				return []*wire.Envelope{mk(&client.ChannelProposalRejMsg{ProposalID: m.ProposalID, Reason: "no"}), e}
			default:
				return []*wire.Envelope{mk(&client.VirtualChannelProposalAccMsg{BaseChannelProposalAcc: m.BaseChannelProposalAcc, Responder: m.Participant})}
			}
		})
		a.V.SetTimeout(1500 * time.Millisecond)
		a.M.SetTimeout(1500 * time.Millisecond)
		_, _ = a.V.OpenLedgerChannel(a.M, bals(len(a.w.Assets), 3, 3), 10)
		a.w.Bus.SetRewriter(a.M.Wire, nil)
		a.V.SetTimeout(20 * time.Second)
		a.M.SetTimeout(20 * time.Second)
		mu.Lock()
		defer mu.Unlock()
		return fired
	}},
}

// deviationCase runs one protocol deviation and the probes.
func deviationCase(s sink.Sink, em *childrun.Emitter, rng *rand.Rand, idx int, sample bool) {
	d := deviations[rng.Intn(len(deviations))]
	if d.virt && rng.Intn(3) != 0 {
		d = deviations[rng.Intn(3)] // the virtual channel cases take half a minute each: fewer of them
	}
	a, msg := newArena(rng, false, d.virt)
	if a == nil {
		s.Inconclusive("arena setup failed: " + msg)
		return
	}
	abandon := false
	defer func() {
		if !abandon && a.w.QuiesceFor(50*time.Millisecond) {
			a.w.Close()
			return
		}
		lingerMu.Lock()
		lingering = append(lingering, a.w)
		lingerMu.Unlock()
	}()
	for _, p := range []*party.Party{a.V, a.M, a.H} {
		p.SetProposalPolicy(func(client.ChannelProposal) bool { return true })
	}
	cd := caseDesc{Index: idx, Point: "protocol-deviation", Kinds: []string{d.name}, Delivery: "real client, manipulated link"}
	em.Progress(fmt.Sprintf("#%d protocol-deviation [%s]", idx, d.name))
	applied := false
	var crashed any
	var crashStack string
	func() {
		defer func() {
			if p := recover(); p != nil {
				crashed, crashStack = p, string(debug.Stack())
			}
		}()
		applied = d.run(rng, a)
	}()
	if crashed != nil {
		// the library panicked in the goroutine that called into it (ProposeChannel, Update, Settle):
		// in an application that is the death of the process, caused by what the remote party sent
		abandon = true
		s.Case("protocol-deviation|"+d.name, true)
		s.Violation("C12/crash/"+childrun.PanicSite(crashStack), fmt.Sprintf("a call into the client panicked after the remote party's deviation %s: %v", d.name, crashed),
			map[string]any{"case": cd, "stack": childrun.FirstLines(crashStack, 40)})
		return
	}
	desc := "protocol-deviation|" + d.name
	s.Case(desc, applied)
	if !applied {
		s.Count("deviations_not_applied", 1)
	}
	s.Count("protocol_deviations", 1)
	s.Seen("message_kinds", d.name)
	s.Seen("life_points", "protocol-deviation")
	patience := 45 * time.Second
	if ok, why := probe(a, a.chV, a.M, patience, false); !ok {
		abandon = true
		if okCtl, _ := probe(a, a.ctlV, a.H, 15*time.Second, false); !okCtl {
			// both channels of the victim are stuck. If the victim still opens a fresh channel with a
			// stranger in the meantime, the machine is not overloaded: the deviation locked both
			// (they are the two parents of the virtual channel the hub routes).
			a.S.SetTimeout(20 * time.Second)
			if _, err := a.S.OpenLedgerChannel(a.V, bals(len(a.w.Assets), 3, 3), 10); err != nil {
				s.Inconclusive("attacked and control channel both unresponsive (overloaded machine?)")
				return
			}
			s.Violation("C12/locked-both/"+d.name, fmt.Sprintf("after the protocol deviation both the attacked channel and the control channel of the victim are unusable for more than %v while the victim still opens a new channel with a stranger: %s", patience, why), cd)
			return
		}
		s.Violation("C12/locked/"+d.name, fmt.Sprintf("after the protocol deviation the attacked channel is unusable for more than %v while the control channel works: %s", patience, why), cd)
		return
	}
	s.Count("probes_passed", 1)
	if ok, why := probe(a, a.ctlV, a.H, patience, false); !ok {
		abandon = true
		s.Violation("C12/locked-control/"+d.name, "after the protocol deviation the untouched control channel is unusable: "+why, cd)
	}
	if sample {
		s.Sample(cd)
	}
	_ = channel.ID{}
}
