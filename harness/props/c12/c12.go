// Package c12: no message from a remote peer can crash a client or lock up a channel.
package c12

import (
	"bytes"
	"context"
	"encoding/hex"
	"fmt"
	"math/big"
	"math/rand"
	"strings"
	"sync"
	"time"

	"perun.network/go-perun/channel"
	"perun.network/go-perun/client"
	"perun.network/go-perun/wallet"
	"perun.network/go-perun/wire"

	"verif/internal/childrun"
	"verif/internal/codecs"
	"verif/internal/ev"
	"verif/internal/gen"
	"verif/internal/party"
	"verif/internal/recpr"
	"verif/internal/sink"
	"verif/props"
)

func init() {
	props.Register(props.Entry{
		ID:    "C12",
		Level: "exploration",
		Rule: "a victim client V (accept-everything handlers) with an attacked channel (counterparty M, whose key the harness holds), a control channel (helper H) and a channel with a hub I, plus a stranger S, in a child process; hostile sequences of 1-4 envelopes built from live templates (right IDs, versions, signatures) x structured mutators for every request and response type (empty transaction in sync, dimension mismatches between params/state/sigs/index maps, out-of-range entries, short lists, empty or unknown-backend participants, correctly signed but invalid virtual funding/settlement proposals, duplicate/early/unknown responses, updates for unknown channels, replays) " +
			"and byte-level mutants of valid envelopes that still decode; every envelope is delivered only after a round trip through the native or protobuf serializer; life points: idle, update in flight, during an opening, after registration. Oracle: the child stays alive, and afterwards V's attacked and control channels are not locked (State() returns) and V answers a valid incoming update, within a patience far above the library's own timeouts. " +
			"A case is (life point, message kinds and mutators); non-trivial iff the messages were decodable and reached a client with >= 1 open channel",
		Run:       run,
		ChildMain: childMain,
	})
}

func run(r *ev.Run, cfg props.Cfg) {
	W := cfg.Workers
	restarts := map[int]int{}
	var mu sync.Mutex
	// each worker is a chain of children: a death is attributed to the announced case and the
	// chain continues after it
	var wg sync.WaitGroup
	for w := 0; w < W; w++ {
		w := w
		wg.Add(1)
		go func() {
			defer wg.Done()
			from := 0
			for {
				died := false
				last := ""
				childrun.Run(r, cfg, childrun.Opts{
					Prop: "C12", Binary: cfg.Self, Workers: 1,
					Arg: func(int) string { return fmt.Sprintf("main:%d/%d:%d", w, W, from) },
					OnDeath: func(_ int, l, stderr string, err error) {
						died, last = true, l
						site := childrun.PanicSite(stderr)
						r.Violation("C12/crash/"+site, fmt.Sprintf("a decodable message sequence killed the client process: %s (case: %s)", childrun.FatalLine(stderr), firstField(l)),
							map[string]any{"case": l, "stderr": childrun.FirstLines(stderr, 60)})
					},
				})
				if !died {
					return
				}
				mu.Lock()
				restarts[w]++
				n := restarts[w]
				mu.Unlock()
				var idx int
				fmt.Sscanf(last, "#%d", &idx)
				from = idx + 1
				if n > 40 || last == "" {
					r.Inconclusive(fmt.Sprintf("worker %d: too many child deaths", w))
					return
				}
			}
		}()
	}
	// the -race slice runs alongside (most of the time the cases wait on library timeouts)
	wg.Add(1)
	go func() {
		defer wg.Done()
		sink.RaceSlice(r, cfg, "C12", W/2, nil)
	}()
	wg.Wait()
	r.Assume("'permanently locked' is restated as: not usable within a patience of 45 s (the library's own waits on these paths are 10 s each) while the control channel of the same client is; if the control probe fails too the case is inconclusive")
	r.Assume("liveness is probed on the victim only: its channel lock is free and it answers a valid incoming update; the adversary's own client may be out of sync after its own hostile messages")
}

func firstField(s string) string {
	if i := strings.Index(s, " msgs="); i > 0 {
		return s[:i]
	}
	if len(s) > 200 {
		return s[:200]
	}
	return s
}

// ---------------------------------------------------------------------------------------------
// arena

type arena struct {
	w          *party.World
	V, M, H, S *party.Party
	I          *party.Party
	chV, chM   *client.Channel // attacked channel (M participant 0, V participant 1)
	ctlV       *client.Channel // control channel V-H (H participant 0)
	hubV       *client.Channel // V-I (V participant 0)
	virtM      *client.Channel // virtual channel H-M through the hub V, at M (participant 1), if set up
}

func bals(n int, a, b int64) [][]int64 {
	out := make([][]int64, n)
	for i := range out {
		out[i] = []int64{a, b}
	}
	return out
}

func newArena(rng *rand.Rand, withHub, withVirtual bool) (*arena, string) {
	a := &arena{}
	a.w = party.NewWorld(rng, 1+rng.Intn(2), rng.Intn(3))
	a.V, a.M, a.H, a.S = a.w.NewParty("V", 100000), a.w.NewParty("M", 100000), a.w.NewParty("H", 100000), a.w.NewParty("S", 100000)
	for _, p := range []*party.Party{a.V, a.M, a.H, a.S} {
		p.Timeout = 20 * time.Second
	}
	n := len(a.w.Assets)
	ch, err := a.M.OpenLedgerChannel(a.V, bals(n, 50, 50), 10)
	if err != nil {
		return nil, err.Error()
	}
	a.chM, a.chV = a.M.AwaitChannel(ch.ID()), a.V.AwaitChannel(ch.ID())
	c2, err := a.H.OpenLedgerChannel(a.V, bals(n, 50, 50), 10)
	if err != nil {
		return nil, err.Error()
	}
	a.ctlV = a.V.AwaitChannel(c2.ID())
	if withHub {
		a.I = a.w.NewParty("I", 100000)
		c3, err := a.V.OpenLedgerChannel(a.I, bals(n, 50, 50), 10)
		if err != nil {
			return nil, err.Error()
		}
		a.hubV = a.V.AwaitChannel(c3.ID())
		if a.I.AwaitChannel(c3.ID()) == nil {
			return nil, "hub channel missing"
		}
	}
	if a.chM == nil || a.chV == nil || a.ctlV == nil {
		return nil, "channels missing"
	}
	if withVirtual {
		// H opens a virtual channel with M through V: V is the hub and keeps a machine for a
		// channel it has no key for
		alloc := channel.NewAllocation(2, backends(n), append([]channel.Asset(nil), a.w.Assets...)...)
		for i := range alloc.Balances {
			alloc.Balances[i] = []channel.Bal{big.NewInt(5), big.NewInt(5)}
		}
		prop, err := client.NewVirtualChannelProposal(10, a.H.WAddr, alloc, []map[wallet.BackendID]wire.Address{a.H.Wire, a.M.Wire},
			[]channel.ID{c2.ID(), ch.ID()}, [][]channel.Index{{0, 1}, {1, 0}})
		if err != nil {
			return nil, err.Error()
		}
		ctx, cancel := a.H.Ctx()
		vch, err := a.H.Client.ProposeChannel(ctx, prop)
		cancel()
		if err != nil {
			return nil, "virtual channel: " + err.Error()
		}
		a.virtM = a.M.AwaitChannelNoWatch(vch.ID())
		if a.virtM == nil {
			return nil, "virtual channel missing at the responder"
		}
	}
	// The adversary does not answer sync messages: its honest client software would, and two
	// honest clients answer each other's sync replies endlessly (harmless, but it burns CPU).
	mKey := wire.Keys(a.M.Wire)
	a.w.Bus.SetDrop(func(e *wire.Envelope) bool {
		_, isSync := e.Msg.(*client.ChannelSyncMsg)
		return isSync && wire.Keys(e.Recipient) == mKey
	})
	return a, ""
}

func (a *arena) env(from *party.Party, m wire.Msg) *wire.Envelope {
	return &wire.Envelope{Sender: from.Wire, Recipient: a.V.Wire, Msg: m}
}

func signM(a *arena, st *channel.State) wallet.Sig {
	s, err := channel.Sign(a.M.Acc, st, gen.B)
	if err != nil {
		return gen.FakeSig(rand.New(rand.NewSource(1)))
	}
	return s
}

func (a *arena) update(st *channel.State, actor channel.Index) *client.ChannelUpdateMsg {
	return &client.ChannelUpdateMsg{ChannelUpdate: client.ChannelUpdate{State: st, ActorIdx: actor}, Sig: signM(a, st)}
}

func succ(cur *channel.State) *channel.State {
	s := cur.Clone()
	s.Version++
	return s
}

// virtualParams builds parameters and a signed initial state of a virtual channel M-V.
func (a *arena) virtualInitial(rng *rand.Rand, n int) channel.SignedState {
	parts := []map[wallet.BackendID]wallet.Address{a.M.WAddr, a.V.WAddr}
	for len(parts) < n {
		parts = append(parts, gen.WalletAddr(rng))
	}
	p, err := channel.NewParams(10, parts, channel.NoApp(), gen.Nonce(rng), false, true, channel.Aux{})
	if err != nil {
		panic(err)
	}
	st := &channel.State{ID: p.ID(), App: channel.NoApp(), Data: channel.NoData()}
	st.Assets = append([]channel.Asset(nil), a.w.Assets...)
	st.Backends = make([]wallet.BackendID, len(st.Assets))
	st.Balances = make(channel.Balances, len(st.Assets))
	for i := range st.Balances {
		st.Balances[i] = make([]channel.Bal, n)
		for j := range st.Balances[i] {
			st.Balances[i][j] = big.NewInt(int64(1 + rng.Intn(3)))
		}
	}
	sigs := make([]wallet.Sig, n)
	sigs[0] = signM(a, st)
	if s, err := channel.Sign(a.V.Acc, st, gen.B); err == nil && n > 1 {
		sigs[1] = s // the harness also holds the victim's key material? no: only for building decodable messages; a real attacker would use a channel the victim signed
	}
	for i := 2; i < n; i++ {
		sigs[i] = gen.FakeSig(rng)
	}
	return channel.SignedState{Params: p, State: st, Sigs: sigs}
}

// ---------------------------------------------------------------------------------------------
// hostile message catalogue

type hostile struct {
	name  string
	hub   bool // needs the hub channel
	build func(rng *rand.Rand, a *arena) []*wire.Envelope
}

func one(e *wire.Envelope) []*wire.Envelope { return []*wire.Envelope{e} }

var catalogue = []hostile{
	// --- sync
	{"sync/empty-transaction", false, func(rng *rand.Rand, a *arena) []*wire.Envelope {
		return one(a.env(a.M, &client.ChannelSyncMsg{Phase: channel.Acting}))
	}},
	{"sync/empty-transaction-from-stranger", false, func(rng *rand.Rand, a *arena) []*wire.Envelope {
		return one(a.env(a.S, &client.ChannelSyncMsg{Phase: channel.Phase(rng.Intn(12))}))
	}},
	{"sync/unknown-channel", false, func(rng *rand.Rand, a *arena) []*wire.Envelope {
		st := a.chV.State().Clone()
		st.ID = gen.ID(rng)
		return one(a.env(a.M, &client.ChannelSyncMsg{Phase: channel.Acting, CurrentTX: channel.Transaction{State: st, Sigs: make([]wallet.Sig, 2)}}))
	}},
	{"sync/known-channel-from-stranger", false, func(rng *rand.Rand, a *arena) []*wire.Envelope {
		st := a.chV.State().Clone()
		return one(a.env(a.S, &client.ChannelSyncMsg{Phase: channel.Acting, CurrentTX: channel.Transaction{State: st, Sigs: make([]wallet.Sig, 2)}}))
	}},
	{"sync/current-state-any-phase", false, func(rng *rand.Rand, a *arena) []*wire.Envelope {
		st := a.chV.State().Clone()
		return one(a.env(a.M, &client.ChannelSyncMsg{Phase: channel.Phase(rng.Intn(12)), CurrentTX: channel.Transaction{State: st, Sigs: []wallet.Sig{signM(a, st), nil}}}))
	}},
	{"sync/higher-version-three-sigs", false, func(rng *rand.Rand, a *arena) []*wire.Envelope {
		st := succ(a.chV.State())
		for i := range st.Balances {
			st.Balances[i] = append(st.Balances[i], big.NewInt(0))
		}
		return one(a.env(a.M, &client.ChannelSyncMsg{Phase: channel.Acting, CurrentTX: channel.Transaction{State: st, Sigs: []wallet.Sig{signM(a, st), gen.FakeSig(rng), gen.FakeSig(rng)}}}))
	}},
	// --- updates
	{"update/participants+1", false, func(rng *rand.Rand, a *arena) []*wire.Envelope {
		st := succ(a.chV.State())
		for i := range st.Balances {
			st.Balances[i] = append(st.Balances[i], big.NewInt(0))
		}
		return one(a.env(a.M, a.update(st, 0)))
	}},
	{"update/participants-1", false, func(rng *rand.Rand, a *arena) []*wire.Envelope {
		st := succ(a.chV.State())
		for i := range st.Balances {
			st.Balances[i][0] = new(big.Int).Add(st.Balances[i][0], st.Balances[i][1])
			st.Balances[i] = st.Balances[i][:1]
		}
		return one(a.env(a.M, a.update(st, 0)))
	}},
	{"update/actor-out-of-range", false, func(rng *rand.Rand, a *arena) []*wire.Envelope {
		return one(a.env(a.M, a.update(succ(a.chV.State()), channel.Index(2+rng.Intn(60000)))))
	}},
	{"update/unknown-channel", false, func(rng *rand.Rand, a *arena) []*wire.Envelope {
		st := succ(a.chV.State())
		st.ID = gen.ID(rng)
		return one(a.env(a.M, a.update(st, 0)))
	}},
	{"update/unknown-channel-version-1", false, func(rng *rand.Rand, a *arena) []*wire.Envelope {
		st := a.chV.State().Clone()
		st.ID, st.Version = gen.ID(rng), 1
		return one(a.env(a.M, a.update(st, 0)))
	}},
	{"update/from-stranger", false, func(rng *rand.Rand, a *arena) []*wire.Envelope {
		st := succ(a.chV.State())
		sig, _ := channel.Sign(a.S.Acc, st, gen.B)
		return one(a.env(a.S, &client.ChannelUpdateMsg{ChannelUpdate: client.ChannelUpdate{State: st, ActorIdx: 0}, Sig: sig}))
	}},
	{"update/locked-added", false, func(rng *rand.Rand, a *arena) []*wire.Envelope {
		st := succ(a.chV.State())
		sa := gen.SubAlloc(rng, len(st.Assets), 2, rng.Intn(2) == 0, func(*rand.Rand) *big.Int { return big.NewInt(0) })
		st.Locked = append(st.Locked, sa)
		return one(a.env(a.M, a.update(st, 0)))
	}},
	{"update/assets-changed", false, func(rng *rand.Rand, a *arena) []*wire.Envelope {
		st := succ(a.chV.State())
		st.Assets[0] = gen.Asset(rng)
		return one(a.env(a.M, a.update(st, 0)))
	}},
	{"update/garbage-signature", false, func(rng *rand.Rand, a *arena) []*wire.Envelope {
		u := a.update(succ(a.chV.State()), 0)
		u.Sig = gen.FakeSig(rng)
		return one(a.env(a.M, u))
	}},
	{"update/valid-then-duplicate", false, func(rng *rand.Rand, a *arena) []*wire.Envelope {
		u := a.update(succ(a.chV.State()), 0)
		return []*wire.Envelope{a.env(a.M, u), a.env(a.M, u), a.env(a.M, u)}
	}},
	{"update/final-then-more", false, func(rng *rand.Rand, a *arena) []*wire.Envelope {
		st := succ(a.chV.State())
		st.IsFinal = true
		st2 := succ(st)
		return []*wire.Envelope{a.env(a.M, a.update(st, 0)), a.env(a.M, a.update(st2, 0))}
	}},
	// --- update responses
	{"response/acc-for-future-versions", false, func(rng *rand.Rand, a *arena) []*wire.Envelope {
		v := a.chV.State().Version
		var out []*wire.Envelope
		for k := uint64(1); k <= 3; k++ {
			out = append(out, a.env(a.M, &client.ChannelUpdateAccMsg{ChannelID: a.chV.ID(), Version: v + k, Sig: gen.FakeSig(rng)}))
		}
		return out
	}},
	{"response/rej-from-stranger", false, func(rng *rand.Rand, a *arena) []*wire.Envelope {
		v := a.chV.State().Version
		return []*wire.Envelope{a.env(a.S, &client.ChannelUpdateRejMsg{ChannelID: a.chV.ID(), Version: v + 1, Reason: "x"}),
			a.env(a.S, &client.ChannelUpdateAccMsg{ChannelID: a.chV.ID(), Version: v + 1, Sig: gen.FakeSig(rng)})}
	}},
	{"response/for-unknown-channel", false, func(rng *rand.Rand, a *arena) []*wire.Envelope {
		return []*wire.Envelope{a.env(a.M, &client.ChannelUpdateAccMsg{ChannelID: gen.ID(rng), Version: rng.Uint64(), Sig: gen.FakeSig(rng)}),
			a.env(a.M, &client.ChannelUpdateRejMsg{ChannelID: gen.ID(rng), Version: 0, Reason: gen.Reason(rng)})}
	}},
	{"response/version-0-acc-replayed", false, func(rng *rand.Rand, a *arena) []*wire.Envelope {
		return []*wire.Envelope{a.env(a.M, &client.ChannelUpdateAccMsg{ChannelID: a.chV.ID(), Version: 0, Sig: gen.FakeSig(rng)}),
			a.env(a.M, &client.ChannelUpdateAccMsg{ChannelID: a.ctlV.ID(), Version: 0, Sig: gen.FakeSig(rng)})}
	}},
	// --- proposals
	{"proposal/ledger-empty-participant", false, func(rng *rand.Rand, a *arena) []*wire.Envelope {
		p := ledgerProp(rng, a, a.M)
		p.Participant = map[wallet.BackendID]wallet.Address{}
		return one(a.env(a.M, p))
	}},
	{"proposal/ledger-funding-agreement-dims", false, func(rng *rand.Rand, a *arena) []*wire.Envelope {
		p := ledgerProp(rng, a, a.M)
		switch rng.Intn(3) {
		case 0:
			p.FundingAgreement = p.FundingAgreement[:0]
		case 1:
			for i := range p.FundingAgreement {
				p.FundingAgreement[i] = p.FundingAgreement[i][:1]
			}
		default:
			p.FundingAgreement = append(p.FundingAgreement, p.FundingAgreement[0])
		}
		return one(a.env(a.M, p))
	}},
	{"proposal/ledger-funding-agreement-other-sums", false, func(rng *rand.Rand, a *arena) []*wire.Envelope {
		p := ledgerProp(rng, a, a.M)
		p.FundingAgreement = p.FundingAgreement.Clone()
		p.FundingAgreement[0][1] = big.NewInt(1 << 40)
		return one(a.env(a.M, p))
	}},
	{"proposal/ledger-same-proposal-twice", false, func(rng *rand.Rand, a *arena) []*wire.Envelope {
		p := ledgerProp(rng, a, a.M)
		return []*wire.Envelope{a.env(a.M, p), a.env(a.M, p)}
	}},
	{"proposal/ledger-then-forged-version-0-sigs", false, func(rng *rand.Rand, a *arena) []*wire.Envelope {
		p := ledgerProp(rng, a, a.M)
		return []*wire.Envelope{a.env(a.M, &client.ChannelUpdateAccMsg{ChannelID: gen.ID(rng), Version: 0, Sig: gen.FakeSig(rng)}), a.env(a.M, p),
			a.env(a.M, &client.ChannelUpdateAccMsg{ChannelID: gen.ID(rng), Version: 0, Sig: gen.FakeSig(rng)})}
	}},
	{"proposal/ledger-huge-duration", false, func(rng *rand.Rand, a *arena) []*wire.Envelope {
		p := ledgerProp(rng, a, a.M)
		p.ChallengeDuration = ^uint64(0)
		return one(a.env(a.M, p))
	}},
	{"proposal/sub-channel-of-attacked-channel", false, func(rng *rand.Rand, a *arena) []*wire.Envelope {
		alloc := channel.NewAllocation(2, backends(len(a.w.Assets)), append([]channel.Asset(nil), a.w.Assets...)...)
		for i := range alloc.Balances {
			alloc.Balances[i] = []channel.Bal{big.NewInt(1), big.NewInt(1)}
		}
		p, _ := client.NewSubChannelProposal(a.chV.ID(), 10, alloc)
		// the honest funding update never follows: the victim waits, then must recover
		return one(a.env(a.M, p))
	}},
	{"proposal/sub-channel-parent-is-itself-unknown", false, func(rng *rand.Rand, a *arena) []*wire.Envelope {
		alloc := channel.NewAllocation(2, backends(len(a.w.Assets)), append([]channel.Asset(nil), a.w.Assets...)...)
		p, _ := client.NewSubChannelProposal(gen.ID(rng), 10, alloc)
		return one(a.env(a.M, p))
	}},
	{"proposal/virtual-short-lists", true, func(rng *rand.Rand, a *arena) []*wire.Envelope {
		p := virtualProp(rng, a)
		switch rng.Intn(5) {
		case 0:
			p.Parents = nil
		case 1:
			p.Parents = p.Parents[:1]
		case 2:
			p.IndexMaps = nil
		case 3:
			p.IndexMaps[1] = nil
		default:
			p.Peers = p.Peers[:1]
		}
		return one(a.env(a.M, p))
	}},
	{"proposal/virtual-index-map-entries", true, func(rng *rand.Rand, a *arena) []*wire.Envelope {
		p := virtualProp(rng, a)
		p.IndexMaps[1] = []channel.Index{channel.Index(rng.Intn(65536)), channel.Index(rng.Intn(4))}
		if rng.Intn(2) == 0 {
			p.IndexMaps[1] = append(p.IndexMaps[1], 0, 1)
		}
		return one(a.env(a.M, p))
	}},
	{"proposal/virtual-three-participants", true, func(rng *rand.Rand, a *arena) []*wire.Envelope {
		p := virtualProp(rng, a)
		for i := range p.InitBals.Balances {
			p.InitBals.Balances[i] = append(p.InitBals.Balances[i], big.NewInt(1))
		}
		p.FundingAgreement = p.InitBals.Balances.Clone()
		p.Peers = append(p.Peers, a.S.Wire)
		p.Parents = append(p.Parents, gen.ID(rng))
		p.IndexMaps = append(p.IndexMaps, []channel.Index{0, 1, 1})
		return one(a.env(a.M, p))
	}},
	// --- proposal responses
	{"proposal-response/unknown-ids-and-kinds", false, func(rng *rand.Rand, a *arena) []*wire.Envelope {
		var id client.ProposalID
		rng.Read(id[:])
		base := client.BaseChannelProposalAcc{ProposalID: id}
		return []*wire.Envelope{
			a.env(a.M, &client.LedgerChannelProposalAccMsg{BaseChannelProposalAcc: base, Participant: map[wallet.BackendID]wallet.Address{}}),
			a.env(a.M, &client.SubChannelProposalAccMsg{BaseChannelProposalAcc: base}),
			a.env(a.M, &client.VirtualChannelProposalAccMsg{BaseChannelProposalAcc: base, Responder: a.M.WAddr}),
			a.env(a.M, &client.ChannelProposalRejMsg{ProposalID: id, Reason: gen.Reason(rng)}),
		}
	}},
	// --- virtual channel funding / settlement proposals (correctly signed parent update)
	{"virtual-funding/sigs-longer-than-participants", false, func(rng *rand.Rand, a *arena) []*wire.Envelope {
		ini := a.virtualInitial(rng, 2)
		ini.Sigs = append(ini.Sigs, gen.FakeSig(rng), gen.FakeSig(rng))
		return one(a.env(a.M, a.fundingProposal(rng, ini, []channel.Index{0, 1}, nil)))
	}},
	{"virtual-funding/state-of-other-params", false, func(rng *rand.Rand, a *arena) []*wire.Envelope {
		ini := a.virtualInitial(rng, 2)
		ini.State = ini.State.Clone()
		ini.State.ID = gen.ID(rng)
		return one(a.env(a.M, a.fundingProposal(rng, ini, []channel.Index{0, 1}, nil)))
	}},
	{"virtual-funding/index-map-length", false, func(rng *rand.Rand, a *arena) []*wire.Envelope {
		ini := a.virtualInitial(rng, 2)
		im := []channel.Index{0}
		if rng.Intn(2) == 0 {
			im = []channel.Index{0, 1, 1, 0}
		}
		return one(a.env(a.M, a.fundingProposal(rng, ini, im, nil)))
	}},
	{"virtual-funding/index-map-entry-out-of-range", false, func(rng *rand.Rand, a *arena) []*wire.Envelope {
		ini := a.virtualInitial(rng, 2)
		return one(a.env(a.M, a.fundingProposal(rng, ini, []channel.Index{channel.Index(2 + rng.Intn(1000)), 1}, nil)))
	}},
	{"virtual-funding/three-party-virtual-channel", false, func(rng *rand.Rand, a *arena) []*wire.Envelope {
		ini := a.virtualInitial(rng, 3)
		return one(a.env(a.M, a.fundingProposal(rng, ini, []channel.Index{0, 1, 1}, nil)))
	}},
	{"virtual-funding/valid-but-unmatched", false, func(rng *rand.Rand, a *arena) []*wire.Envelope {
		ini := a.virtualInitial(rng, 2)
		return one(a.env(a.M, a.fundingProposal(rng, ini, []channel.Index{0, 1}, nil)))
	}},
	{"virtual-funding/invalid-allocation-in-parent-update", false, func(rng *rand.Rand, a *arena) []*wire.Envelope {
		ini := a.virtualInitial(rng, 2)
		return one(a.env(a.M, a.fundingProposal(rng, ini, []channel.Index{0, 1}, func(st *channel.State) {
			st.Locked[len(st.Locked)-1].Bals[0] = big.NewInt(7777)
		})))
	}},
	{"virtual-funding/two-proposals-different-index-map-lengths", false, func(rng *rand.Rand, a *arena) []*wire.Envelope {
		ini := a.virtualInitial(rng, 2)
		return []*wire.Envelope{a.env(a.M, a.fundingProposal(rng, ini, []channel.Index{0, 1}, nil)), a.env(a.M, a.fundingProposal(rng, ini, []channel.Index{1}, nil))}
	}},
	{"virtual-funding/state-index-map-differs-from-the-message", false, func(rng *rand.Rand, a *arena) []*wire.Envelope {
		// the message's index map is fine; the one inside the signed parent state is not
		ini := a.virtualInitial(rng, 2)
		bad := []channel.Index{0, channel.Index(2 + rng.Intn(1000))}
		if rng.Intn(3) == 0 {
			bad = []channel.Index{0, 1, 1, 0}
		}
		return one(a.env(a.M, a.fundingProposal(rng, ini, []channel.Index{0, 1}, func(st *channel.State) {
			st.Locked[len(st.Locked)-1].IndexMap = bad
		})))
	}},
	// --- a participant of a virtual channel addresses the hub's copy of that channel directly
	{"hub-virtual/plain-update-from-a-participant", false, func(rng *rand.Rand, a *arena) []*wire.Envelope {
		st := succ(a.virtM.State())
		if st.Balances[0][1].Sign() > 0 {
			st.Balances[0][1] = new(big.Int).Sub(st.Balances[0][1], big.NewInt(1))
			st.Balances[0][0] = new(big.Int).Add(st.Balances[0][0], big.NewInt(1))
		}
		if rng.Intn(3) == 0 {
			st.IsFinal = true
		}
		return one(a.env(a.M, a.update(st, 1)))
	}},
	{"hub-virtual/funding-proposal-for-the-virtual-channel-itself", false, func(rng *rand.Rand, a *arena) []*wire.Envelope {
		ini := a.virtualInitial(rng, 2)
		st := succ(a.virtM.State())
		st.Locked = append(st.Locked, channel.SubAlloc{ID: ini.State.ID, Bals: ini.State.Allocation.Sum(), IndexMap: []channel.Index{0, 1}})
		for i := range st.Balances {
			st.Balances[i][1] = new(big.Int).Sub(st.Balances[i][1], ini.State.Allocation.Sum()[i])
		}
		return one(a.env(a.M, &client.VirtualChannelFundingProposalMsg{ChannelUpdateMsg: *a.update(st, 1), Initial: ini, IndexMap: []channel.Index{0, 1}}))
	}},
	{"hub-virtual/sync-for-the-virtual-channel", false, func(rng *rand.Rand, a *arena) []*wire.Envelope {
		return one(a.env(a.M, &client.ChannelSyncMsg{Phase: channel.Acting, CurrentTX: channel.Transaction{State: a.virtM.State().Clone(), Sigs: []wallet.Sig{gen.FakeSig(rng), gen.FakeSig(rng)}}}))
	}},
	{"virtual-settlement/unknown-virtual-channel", false, func(rng *rand.Rand, a *arena) []*wire.Envelope {
		fin := a.virtualInitial(rng, 2)
		fin.State = fin.State.Clone()
		fin.State.IsFinal = true
		fin.Sigs[0] = signM(a, fin.State)
		return one(a.env(a.M, a.settlementProposal(rng, fin)))
	}},
	{"virtual-settlement/dimension-mismatch", false, func(rng *rand.Rand, a *arena) []*wire.Envelope {
		fin := a.virtualInitial(rng, 3)
		fin.Sigs = fin.Sigs[:1]
		return one(a.env(a.M, a.settlementProposal(rng, fin)))
	}},
}

func backends(n int) []wallet.BackendID {
	b := make([]wallet.BackendID, n)
	for i := range b {
		b[i] = gen.B
	}
	return b
}

func ledgerProp(rng *rand.Rand, a *arena, from *party.Party) *client.LedgerChannelProposalMsg {
	alloc := channel.NewAllocation(2, backends(len(a.w.Assets)), append([]channel.Asset(nil), a.w.Assets...)...)
	for i := range alloc.Balances {
		alloc.Balances[i] = []channel.Bal{big.NewInt(int64(rng.Intn(5))), big.NewInt(int64(rng.Intn(5)))}
	}
	p, err := client.NewLedgerChannelProposal(uint64(1+rng.Intn(100)), from.WAddr, alloc, []map[wallet.BackendID]wire.Address{from.Wire, a.V.Wire})
	if err != nil {
		panic(err)
	}
	return p
}

func virtualProp(rng *rand.Rand, a *arena) *client.VirtualChannelProposalMsg {
	alloc := channel.NewAllocation(2, backends(len(a.w.Assets)), append([]channel.Asset(nil), a.w.Assets...)...)
	for i := range alloc.Balances {
		alloc.Balances[i] = []channel.Bal{big.NewInt(1), big.NewInt(1)}
	}
	p, err := client.NewVirtualChannelProposal(10, a.M.WAddr, alloc, []map[wallet.BackendID]wire.Address{a.M.Wire, a.V.Wire},
		[]channel.ID{gen.ID(rng), a.hubV.ID()}, [][]channel.Index{{0, 1}, {1, 0}})
	if err != nil {
		panic(err)
	}
	return p
}

// fundingProposal builds a correctly signed parent update locking funds for the virtual channel.
func (a *arena) fundingProposal(rng *rand.Rand, ini channel.SignedState, im []channel.Index, edit func(*channel.State)) *client.VirtualChannelFundingProposalMsg {
	st := succ(a.chV.State())
	tot := ini.State.Allocation.Sum()
	sa := channel.SubAlloc{ID: ini.State.ID, Bals: tot, IndexMap: im}
	for i := range st.Balances {
		// take the virtual channel's funds from the sender's side where possible
		if i < len(tot) && st.Balances[i][0].Cmp(tot[i]) >= 0 {
			st.Balances[i][0] = new(big.Int).Sub(st.Balances[i][0], tot[i])
		}
	}
	st.Locked = append(st.Locked, sa)
	if edit != nil {
		edit(st)
	}
	return &client.VirtualChannelFundingProposalMsg{ChannelUpdateMsg: *a.update(st, 0), Initial: ini, IndexMap: im}
}

func (a *arena) settlementProposal(rng *rand.Rand, fin channel.SignedState) *client.VirtualChannelSettlementProposalMsg {
	st := succ(a.chV.State())
	return &client.VirtualChannelSettlementProposalMsg{ChannelUpdateMsg: *a.update(st, 0), Final: fin}
}

// ---------------------------------------------------------------------------------------------
// child

type caseDesc struct {
	Index     int      `json:"index"`
	Point     string   `json:"life_point"`
	Kinds     []string `json:"message_kinds"`
	Delivery  string   `json:"delivery"`
	Envelopes []string `json:"envelopes_hex"`
}

func childMain(cfg props.Cfg) int {
	em := childrun.NewEmitter()
	mode := "main"
	arg := cfg.Child
	if strings.HasPrefix(arg, "race:") {
		mode, arg = "race", strings.TrimPrefix(arg, "race:")
	} else {
		arg = strings.TrimPrefix(arg, "main:")
	}
	var w, W, from int
	fmt.Sscanf(arg, "%d/%d:%d", &w, &W, &from)
	n := cfg.Pick(2000, 60000)/W + 1
	var s sink.Sink = em
	if mode == "race" {
		s = sink.Prefixed{Sink: em, P: "race_slice_"}
		n = n/8 + 1
	}
	// Cases run one after the other; a case that is still waiting after a second (a library
	// timeout is on its path) continues in the background while the next ones run (at most
	// `par` in the background). A death is attributed to the most recently announced case.
	par := 12
	sem := make(chan struct{}, par)
	var wg sync.WaitGroup
	for i := from; i < n; i++ {
		rng := gen.NewRand(cfg.Seed, fmt.Sprintf("c12/%s/%d/%d", mode, w, i))
		sem <- struct{}{}
		wg.Add(1)
		done := make(chan struct{})
		go func(i int) {
			defer wg.Done()
			defer func() { <-sem }()
			defer close(done)
			oneCase(s, em, rng, i, w == 0 && i < 2)
		}(i)
		select {
		case <-done:
		case <-time.After(time.Second):
			s.Count("cases_continued_in_background", 1)
		}
	}
	wg.Wait()
	// delayed effects of hostile input (after library timeouts) must still happen inside this
	// process: wait for the set-aside worlds to come to rest (bounded)
	deadline := time.Now().Add(40 * time.Second)
	lingerMu.Lock()
	ws := lingering
	lingerMu.Unlock()
	for _, w := range ws {
		for !w.QuiesceFor(20*time.Millisecond) && time.Now().Before(deadline) {
			time.Sleep(50 * time.Millisecond)
		}
		w.Abandon()
	}
	s.Count("worlds_drained_at_the_end", int64(len(ws)))
	em.Done()
	return 0
}

var (
	lingerMu  sync.Mutex
	lingering []*party.World
)

func encodeDeliverable(rng *rand.Rand, e *wire.Envelope) (*wire.Envelope, string, []byte) {
	sers := []struct {
		n string
		s wire.EnvelopeSerializer
	}{{"native", codecs.Native}, {"protobuf", codecs.Proto}}
	if rng.Intn(2) == 0 {
		sers[0], sers[1] = sers[1], sers[0]
	}
	for _, ser := range sers {
		var buf bytes.Buffer
		err := func() (err error) {
			defer func() {
				if p := recover(); p != nil {
					err = fmt.Errorf("panic %v", p)
				}
			}()
			return ser.s.Encode(&buf, e)
		}()
		if err != nil {
			continue
		}
		raw := append([]byte(nil), buf.Bytes()...)
		d, err := ser.s.Decode(&buf)
		if err != nil {
			continue
		}
		return d, ser.n, raw
	}
	return nil, "", nil
}

// byteMutant flips/splices bytes of a valid envelope encoding until a mutant decodes.
func byteMutant(rng *rand.Rand, e *wire.Envelope) (*wire.Envelope, string, []byte) {
	ser, name := codecs.Native, "native"
	if rng.Intn(2) == 0 {
		ser, name = codecs.Proto, "protobuf"
	}
	var buf bytes.Buffer
	if err := func() (err error) {
		defer func() {
			if p := recover(); p != nil {
				err = fmt.Errorf("panic %v", p)
			}
		}()
		return ser.Encode(&buf, e)
	}(); err != nil {
		return nil, "", nil
	}
	enc := buf.Bytes()
	// keep the addressing intact (the first bytes carry sender/recipient)
	lo := 0
	if name == "native" {
		lo = 84
	}
	for try := 0; try < 30; try++ {
		m := append([]byte(nil), enc...)
		if len(m) <= lo+1 {
			return nil, "", nil
		}
		k := 1 + rng.Intn(3)
		for j := 0; j < k; j++ {
			off := lo + rng.Intn(len(m)-lo)
			switch rng.Intn(3) {
			case 0:
				m[off] ^= 1 << uint(rng.Intn(8))
			case 1:
				m[off] = []byte{0, 1, 0xff, 0x7f, 0x80, 2, 3}[rng.Intn(7)]
			default:
				if off+2 <= len(m) {
					m[off], m[off+1] = 0, 0
				}
			}
		}
		if name == "protobuf" {
			// keep the frame length consistent
			m[0], m[1] = byte((len(m)-2)>>8), byte(len(m)-2)
		}
		var d *wire.Envelope
		err := func() (err error) {
			defer func() {
				if p := recover(); p != nil {
					err = fmt.Errorf("panic %v", p)
				}
			}()
			d, err = ser.Decode(bytes.NewReader(m))
			return err
		}()
		if err == nil && d != nil && !bytes.Equal(m, enc) {
			return d, name + "-byte-mutant", m
		}
	}
	return nil, "", nil
}

func oneCase(s sink.Sink, em *childrun.Emitter, rng *rand.Rand, idx int, sample bool) {
	if rng.Intn(8) == 0 {
		deviationCase(s, em, rng, idx, sample)
		return
	}
	// choose the hostile sequence
	nMsgs := 1 + rng.Intn(2)
	var hs []hostile
	needHub, needVirt := false, false
	for i := 0; i < nMsgs; i++ {
		h := catalogue[rng.Intn(len(catalogue))]
		hs = append(hs, h)
		needHub = needHub || h.hub
		needVirt = needVirt || strings.HasPrefix(h.name, "hub-virtual/")
	}
	point := []string{"idle", "idle", "update-in-flight", "during-opening", "after-registration"}[rng.Intn(5)]
	a, msg := newArena(rng, needHub, needVirt)
	if a == nil {
		s.Inconclusive("arena setup failed: " + msg)
		return
	}
	abandon := false
	defer func() {
		// Some hostile inputs leave the victim waiting on one of the library's timeouts (e.g. an
		// accepted sub-channel proposal whose funding never comes). Closing would have to wait
		// for that; instead such worlds are set aside and drained at the end of the child.
		if !abandon && a.w.QuiesceFor(50*time.Millisecond) {
			a.w.Close()
			return
		}
		lingerMu.Lock()
		lingering = append(lingering, a.w)
		lingerMu.Unlock()
	}()
	for _, p := range []*party.Party{a.V, a.M, a.H} {
		p.SetProposalPolicy(func(client.ChannelProposal) bool { return true })
	}
	// build envelopes
	var envs []*wire.Envelope
	cd := caseDesc{Index: idx, Point: point}
	byteLevel := rng.Intn(4) == 0
	for _, h := range hs {
		var built []*wire.Envelope
		func() {
			defer func() { _ = recover() }()
			built = h.build(rng, a)
		}()
		for _, e := range built {
			var d *wire.Envelope
			var how string
			var raw []byte
			if byteLevel {
				d, how, raw = byteMutant(rng, e)
			}
			if d == nil {
				d, how, raw = encodeDeliverable(rng, e)
			}
			if d == nil {
				s.Count("not_decodable_skipped", 1)
				continue
			}
			envs = append(envs, d)
			cd.Kinds = append(cd.Kinds, h.name)
			cd.Delivery = how
			if len(raw) > 6000 {
				raw = raw[:6000]
			}
			cd.Envelopes = append(cd.Envelopes, hex.EncodeToString(raw))
		}
	}
	if len(envs) == 0 {
		return
	}
	em.Progress(fmt.Sprintf("#%d %s %v via %s msgs=%v", idx, point, cd.Kinds, cd.Delivery, cd.Envelopes))
	desc := fmt.Sprintf("%s|%v|%s", point, cd.Kinds, cd.Delivery)

	// life point
	var inflight sync.WaitGroup
	switch point {
	case "update-in-flight":
		// V's own proposal is waiting for M's answer (M's handler is slow) while the messages arrive
		gate := make(chan struct{})
		a.M.SetUpdatePolicy(func(*channel.State, client.ChannelUpdate) (bool, func()) {
			return true, func() { <-gate }
		})
		inflight.Add(1)
		go func() {
			defer inflight.Done()
			_ = a.V.Pay(a.chV, 0, 1, false)
		}()
		time.Sleep(500 * time.Microsecond)
		defer func() { a.M.SetUpdatePolicy(nil) }()
		for _, e := range envs {
			a.w.Bus.Inject(e)
		}
		a.w.QuiesceBusy(1)
		close(gate)
		inflight.Wait()
	case "during-opening":
		// S opens a ledger channel with V while the messages arrive
		inflight.Add(1)
		go func() {
			defer inflight.Done()
			_, _ = a.S.OpenLedgerChannel(a.V, bals(len(a.w.Assets), 5, 5), 10)
		}()
		for _, e := range envs {
			a.w.Bus.Inject(e)
		}
		inflight.Wait()
	case "after-registration":
		// the attacked channel was registered by M; V's machine is in phase Registered
		_ = a.M.Adj.Register(context.Background(), channel.AdjudicatorReq{Params: a.chM.Params(), Tx: currentTx(a.M, a.chM.ID()), Idx: 0}, nil)
		a.w.Quiesce()
		for _, e := range envs {
			a.w.Bus.Inject(e)
		}
	default:
		for _, e := range envs {
			a.w.Bus.Inject(e)
		}
	}

	// probes on the victim, with patience
	patience := 45 * time.Second
	okAtt, whyAtt := probe(a, a.chV, a.M, patience, point == "after-registration")
	s.Case(desc, true)
	s.Count("hostile_sequences", 1)
	s.Count("hostile_envelopes_delivered", int64(len(envs)))
	for _, k := range cd.Kinds {
		s.Seen("message_kinds", k)
	}
	s.Seen("life_points", point)
	s.Seen("deliveries", cd.Delivery)
	if !okAtt {
		abandon = true
		okCtl, _ := probe(a, a.ctlV, a.H, 15*time.Second, false)
		if !okCtl {
			s.Inconclusive("attacked and control channel both unresponsive (overloaded machine?)")
			return
		}
		kind := strings.Join(uniq(cd.Kinds), "+")
		s.Violation("C12/locked/"+kind, fmt.Sprintf("after the hostile sequence the attacked channel is unusable for more than %v while the control channel works: %s", patience, whyAtt), cd)
		return
	}
	s.Count("probes_passed", 1)
	if okCtl, why := probe(a, a.ctlV, a.H, patience, false); !okCtl {
		abandon = true
		kind := strings.Join(uniq(cd.Kinds), "+")
		s.Violation("C12/locked-control/"+kind, "after the hostile sequence the untouched control channel is unusable: "+why, cd)
	}
	if sample {
		s.Sample(cd)
	}
}

func uniq(a []string) []string {
	seen := map[string]bool{}
	var out []string
	for _, x := range a {
		if !seen[x] {
			seen[x] = true
			out = append(out, x)
		}
	}
	return out
}

func currentTx(p *party.Party, id channel.ID) channel.Transaction {
	var tx channel.Transaction
	for _, e := range p.Rec.Events() {
		if e.Kind == recpr.Enabled && e.ID == id && e.Current.State != nil {
			tx = e.Current
		}
	}
	return tx
}

// probe checks that V's channel lock is free and that V answers a valid incoming update from
// peer (whose key the harness holds) within the patience.
func probe(a *arena, chV *client.Channel, peer *party.Party, patience time.Duration, registered bool) (bool, string) {
	deadline := time.Now().Add(patience)
	// (a) the lock is free
	stCh := make(chan *channel.State, 1)
	go func() { stCh <- chV.State() }()
	var cur *channel.State
	select {
	case cur = <-stCh:
	case <-time.After(patience):
		return false, "Channel.State() did not return: the channel's lock is held"
	}
	if registered || cur.IsFinal {
		return true, "" // no off-chain updates are possible in this phase; the lock being free is the probe
	}
	// (b) V answers a valid incoming update; retry with the then-current state (hostile updates may have been accepted)
	for attempt := 0; time.Now().Before(deadline); attempt++ {
		go func() { stCh <- chV.State() }()
		select {
		case cur = <-stCh:
		case <-time.After(time.Until(deadline)):
			return false, "Channel.State() did not return: the channel's lock is held"
		}
		if cur.IsFinal {
			return true, ""
		}
		st := cur.Clone()
		st.Version++
		pidx := 1 - chV.Idx()
		sig, err := channel.Sign(peer.Acc, st, gen.B)
		if err != nil {
			return true, ""
		}
		want := st.Version
		a.w.Bus.Inject(&wire.Envelope{Sender: peer.Wire, Recipient: a.V.Wire, Msg: &client.ChannelUpdateMsg{ChannelUpdate: client.ChannelUpdate{State: st, ActorIdx: pidx}, Sig: sig}})
		wait := 300 * time.Millisecond << uint(attempt)
		if wait > 5*time.Second {
			wait = 5 * time.Second
		}
		start := time.Now()
		until := start.Add(wait)
		for time.Now().Before(until) {
			for _, e := range a.V.Rec.Events() {
				if e.Kind == recpr.Enabled && e.ID == chV.ID() && e.Current.State != nil && e.Current.State.Version >= want {
					return true, ""
				}
			}
			if time.Since(start) < 20*time.Millisecond {
				time.Sleep(200 * time.Microsecond)
			} else {
				time.Sleep(3 * time.Millisecond)
			}
		}
	}
	return false, "the client did not answer a valid incoming update"
}
