// vcheck is the single driver of all property checks.
package main

import (
	"bytes"
	"flag"
	"fmt"
	"io"
	"os"
	"os/exec"
	"regexp"
	"runtime/pprof"
	"strconv"
	"strings"
	"verif/internal/gen"

	"verif/internal/ev"
	"verif/props"
	_ "verif/props/all"
)

func main() {
	prop := flag.String("prop", "", "property id (C01..C20)")
	tier := flag.String("tier", "", "quick | thorough (default: $VERIF_TIER or quick)")
	seed := flag.Int64("seed", -1, "seed (default: $VERIF_SEED or 1)")
	replay := flag.String("replay", "", "replay file")
	child := flag.String("child", "", "internal: child mode argument")
	alt := flag.String("alt", "", "path of the other build of vcheck (race/plain)")
	workers := flag.Int("workers", 0, "parallelism")
	flag.Parse()

	e, ok := props.All[*prop]
	if !ok {
		fmt.Fprintf(os.Stderr, "unknown property %q\n", *prop)
		os.Exit(2)
	}
	cfg := props.Cfg{Tier: *tier, Seed: *seed, Race: raceEnabled, Workers: *workers, Child: *child, SelfAlt: *alt}
	cfg.Self, _ = os.Executable()
	if cfg.Tier == "" {
		cfg.Tier = os.Getenv("VERIF_TIER")
	}
	if cfg.Tier != "thorough" {
		cfg.Tier = "quick"
	}
	if cfg.Seed < 0 {
		cfg.Seed = 1
		if s := os.Getenv("VERIF_SEED"); s != "" {
			if v, err := strconv.ParseInt(s, 10, 64); err == nil {
				cfg.Seed = v
			}
		}
	}
	if cfg.Workers <= 0 {
		cfg.Workers = props.DefaultWorkers()
	}
	if pf := os.Getenv("VCHECK_CPUPROFILE"); pf != "" {
		if f, err := os.Create(pf); err == nil {
			_ = pprof.StartCPUProfile(f)
			defer pprof.StopCPUProfile()
		}
	}
	if cfg.Child != "" {
		if e.ChildMain == nil {
			fmt.Fprintln(os.Stderr, "no child mode for", *prop)
			os.Exit(2)
		}
		code := e.ChildMain(cfg)
		pprof.StopCPUProfile()
		os.Exit(code)
	}
	// The check itself runs in a supervised copy of this process. The harness feeds the library
	// values and call sequences a correct library handles; if the run dies (a panic in a library
	// goroutine, a fatal runtime error, or the harness tripping over what the library handed back)
	// the supervisor turns the death into a verdict with the stack as witness instead of
	// leaving a broken check behind.
	if os.Getenv("VCHECK_SUPERVISED") == "" && *replay == "" {
		os.Exit(supervise(e.ID, cfg))
	}
	var rf *ev.ReplayFile
	if *replay != "" {
		var err error
		rf, err = ev.LoadReplay(*replay)
		if err != nil {
			fmt.Fprintln(os.Stderr, "cannot load replay file:", err)
			os.Exit(2)
		}
		cfg.Tier, cfg.Seed = rf.Tier, rf.Seed
	}
	if os.Getenv("VCHECK_SELFTEST_PANIC") != "" && *replay == "" {
		go func() { panic("selftest: a goroutine of the check died") }()
		select {}
	}
	run := ev.New(e.ID, cfg.Tier, cfg.Seed, e.Level, e.Rule)
	if rf != nil {
		run.SetReplaying(rf)
	}
	run.Count("extra_wallet_backends_registered_by_the_harness", int64(len(gen.ExtraBackends)))
	e.Run(run, cfg)
	os.Exit(run.Finish())
}

type tail struct {
	buf bytes.Buffer
	max int
}

func (t *tail) Write(p []byte) (int, error) {
	t.buf.Write(p)
	if t.buf.Len() > 2*t.max {
		b := t.buf.Bytes()
		keep := append([]byte(nil), b[len(b)-t.max:]...)
		t.buf.Reset()
		t.buf.Write(keep)
	}
	return len(p), nil
}

var frameRe = regexp.MustCompile(`(?m)^(perun\.network/go-perun/[^\s(]+|verif/[^\s(]+)`)

func supervise(id string, cfg props.Cfg) int {
	cmd := exec.Command(cfg.Self, os.Args[1:]...)
	cmd.Env = append(os.Environ(), "VCHECK_SUPERVISED=1")
	cmd.Stdout = os.Stdout
	t := &tail{max: 1 << 16}
	cmd.Stderr = io.MultiWriter(os.Stderr, t)
	err := cmd.Run()
	if err == nil {
		return 0
	}
	code := -1
	if ee, ok := err.(*exec.ExitError); ok {
		code = ee.ExitCode()
	}
	if code == 1 || code == 3 {
		return code
	}
	stderr := t.buf.String()
	i := strings.Index(stderr, "panic:")
	if j := strings.Index(stderr, "fatal error:"); j >= 0 && (i < 0 || j < i) {
		i = j
	}
	if i < 0 {
		// not a crash of the Go program (build problems, usage errors, signals from outside such as
		// the kernel's out-of-memory killer): no verdict, say so
		fmt.Printf("ERROR property=%s the check's process ended with code %d without a verdict (killed from outside? out of memory?): inconclusive\n", id, code)
		if code <= 0 || code == 1 {
			code = 2
		}
		return code
	}
	crash := stderr[i:]
	line := crash
	if k := strings.IndexByte(line, '\n'); k > 0 {
		line = line[:k]
	}
	site := "unknown"
	if m := frameRe.FindString(crash); m != "" {
		site = strings.TrimPrefix(m, "perun.network/go-perun/")
	}
	if len(crash) > 12000 {
		crash = crash[:12000]
	}
	run := ev.New(id, cfg.Tier, cfg.Seed, "exploration", "the check's process died while exercising the library; the crash is the observation")
	run.Case("check-process-started", true)
	run.Case("check-process-died", true)
	run.Violation(id+"/check-process-died/"+site, "the check's process died while exercising the library: "+line, map[string]any{"stderr": crash})
	return run.Finish()
}
