// vcheck is the single driver of all property checks.
package main

import (
	"flag"
	"fmt"
	"os"
	"runtime/pprof"
	"strconv"

	"verif/internal/ev"
	"verif/props"
	_ "verif/props/all"
)

func main() {
	prop := flag.String("prop", "", "property id (C01..C20)")
	tier := flag.String("tier", "", "quick | thorough (default: $VERIF_TIER or quick)")
	seed := flag.Int64("seed", -1, "seed (default: $VERIF_SEED or 1)")
	replay := flag.String("replay", "", "replay file")
	child := flag.String("child", "", "internal: child mode argument")
	alt := flag.String("alt", "", "path of the other build of vcheck (race/plain)")
	workers := flag.Int("workers", 0, "parallelism")
	flag.Parse()

	e, ok := props.All[*prop]
	if !ok {
		fmt.Fprintf(os.Stderr, "unknown property %q\n", *prop)
		os.Exit(2)
	}
	cfg := props.Cfg{Tier: *tier, Seed: *seed, Race: raceEnabled, Workers: *workers, Child: *child, SelfAlt: *alt}
	cfg.Self, _ = os.Executable()
	if cfg.Tier == "" {
		cfg.Tier = os.Getenv("VERIF_TIER")
	}
	if cfg.Tier != "thorough" {
		cfg.Tier = "quick"
	}
	if cfg.Seed < 0 {
		cfg.Seed = 1
		if s := os.Getenv("VERIF_SEED"); s != "" {
			if v, err := strconv.ParseInt(s, 10, 64); err == nil {
				cfg.Seed = v
			}
		}
	}
	if cfg.Workers <= 0 {
		cfg.Workers = props.DefaultWorkers()
	}
	if pf := os.Getenv("VCHECK_CPUPROFILE"); pf != "" {
		if f, err := os.Create(pf); err == nil {
			_ = pprof.StartCPUProfile(f)
			defer pprof.StopCPUProfile()
		}
	}
	if cfg.Child != "" {
		if e.ChildMain == nil {
			fmt.Fprintln(os.Stderr, "no child mode for", *prop)
			os.Exit(2)
		}
		code := e.ChildMain(cfg)
		pprof.StopCPUProfile()
		os.Exit(code)
	}
	var rf *ev.ReplayFile
	if *replay != "" {
		var err error
		rf, err = ev.LoadReplay(*replay)
		if err != nil {
			fmt.Fprintln(os.Stderr, "cannot load replay file:", err)
			os.Exit(2)
		}
		cfg.Tier, cfg.Seed = rf.Tier, rf.Seed
	}
	run := ev.New(e.ID, cfg.Tier, cfg.Seed, e.Level, e.Rule)
	if rf != nil {
		run.SetReplaying(rf)
	}
	e.Run(run, cfg)
	os.Exit(run.Finish())
}
